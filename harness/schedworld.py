"""Real DefaultScheduler / LegacyScheduler objects over one database, stepped under harness control.

Nothing in /repo is modified: threads are never started by the scheduler itself; the harness runs
the real methods (_dispatcher, _process_memory_job, _process_store_jobs, _process_delayed_calls) in
helper threads that block on gates placed around the separately committed sub-steps
(_capture_scheduled_job, _invoke_job, _delete_scheduled_job / _capture_calls, _invoke_calls,
delete_calls).  A gate never blocks inside an open transaction (that would hold tx_lock).
"""
import datetime
import json
import threading

from harness import mdb

BASE = datetime.datetime(2030, 1, 1, 0, 0, 0)
INVOCATIONS = []          # (run, j) appended by the target function


def job_target(run=None, j=None):
    INVOCATIONS.append((run, j))


class Rollback(Exception):
    pass


class Gate(object):
    """One helper thread running a real method; parks before each gated sub-call."""

    def __init__(self, name, fn):
        self.name = name
        self.fn = fn
        self.parked = threading.Event()
        self.go = threading.Event()
        self.at = None            # (kind, info) where the thread is parked
        self.done = False
        self.error = None
        self.abandoned = False
        self.thread = threading.Thread(target=self._run, daemon=True)

    def _run(self):
        _TL.gate = self
        try:
            self.fn()
        except BaseException as e:   # noqa
            self.error = e
        finally:
            self.done = True
            self.at = None
            self.parked.set()

    def start(self):
        self.thread.start()
        self._await()

    def _await(self):
        if not self.parked.wait(20):
            raise RuntimeError('helper thread %s did not park (deadlock?)' % self.name)

    def park(self, kind, info):
        """Called from the helper thread at a gate."""
        self.at = (kind, info)
        self.parked.set()
        self.go.wait()
        self.go.clear()
        if self.abandoned:
            raise SystemExit()

    def step(self):
        """Let the thread run the sub-call it is parked at, until it parks again or finishes."""
        assert self.at is not None and not self.done
        self.parked.clear()
        self.at = None
        self.go.set()
        self._await()

    def abandon(self):
        self.abandoned = True
        self.go.set()


_TL = threading.local()


def _caps():
    c = getattr(_TL, 'caps', None)
    if c is None:
        c = _TL.caps = {}
    return c


def _in_tx():
    from mistral.db.sqlalchemy import base as db_base
    return db_base._get_thread_local_session() is not None


class GateCond(object):
    """Stands in for DefaultScheduler._cond: the dispatcher parks in wait() until the harness
    wakes it; notify() is a no-op (the harness decides when the dispatcher runs)."""

    def __init__(self):
        self.lock = threading.RLock()
        self.parked = threading.Event()
        self.go = threading.Event()
        self.timeout = None

    def __enter__(self):
        self.lock.acquire()

    def __exit__(self, *a):
        self.lock.release()

    def notify(self, n=1):
        pass

    def notify_all(self):
        pass

    def wait(self, timeout=None):
        self.timeout = timeout
        self.lock.release()
        self.parked.set()
        self.go.wait()
        self.go.clear()
        self.lock.acquire()


class FakeExecutor(object):
    def __init__(self):
        self.submitted = []

    def submit(self, fn, *args):
        self.submitted.append((fn, args))

    def shutdown(self, wait=False):
        pass


class SchedWorld(object):
    def __init__(self, kind, n_inst, jobs, pickup, cap_timeout, batch, run_id):
        """jobs: {j: dict(key=..., delay=..., owner=...)}"""
        CONF = mdb.boot()
        self.CONF = CONF
        self.kind = kind
        self.jobs = jobs
        self.run = run_id
        self.now = 0
        import mistral_lib.utils as lib_utils
        self.lib_utils = lib_utils
        self._real_now = lib_utils.utc_now_sec
        lib_utils.utc_now_sec = lambda: BASE + datetime.timedelta(seconds=self.now)
        CONF.set_override('pickup_job_after', float(pickup), 'scheduler')
        CONF.set_override('captured_job_timeout', float(cap_timeout), 'scheduler')
        CONF.set_override('batch_size', batch or None, 'scheduler')
        mdb.wipe()
        del INVOCATIONS[:]
        self.alive = {}
        self.sched = {}
        self.disp = {}          # i -> (GateCond, thread)
        self.fexec = {}
        self.mem = {}           # (i, j) -> Gate for _process_memory_job
        self.popped = {}        # (i, j) -> job object submitted by the dispatcher
        self.poll = {}          # i -> Gate for the store poll
        self.lastcap = {}       # (i, j) -> virtual time of the last successful capture by i
        self.inv_count = {j: 0 for j in jobs}
        self.inv_at = {j: -1 for j in jobs}
        self.inv_caps = {j: set() for j in jobs}
        self.exec_at = {j: -1 for j in jobs}
        self.tx = {j: 'none' for j in jobs}
        self.jobid = {}         # db id -> j
        self.errors = []
        self.armed = set()      # instances whose next capture is interfered with (see _ghost_capture)
        self.ghosts = []
        self.pickup = pickup
        self.cap_timeout = cap_timeout
        for i in range(1, n_inst + 1):
            self._make_instance(i)

    # -- construction ----------------------------------------------------------------------
    def _make_instance(self, i):
        if self.kind == 'default':
            from mistral.scheduler import default_scheduler
            s = default_scheduler.DefaultScheduler(self.CONF.scheduler)
            s._cond = GateCond()
            fe = FakeExecutor()
            s._executor = fe
            self.fexec[i] = fe
            s._stopped = False
            self._wrap_default(i, s)
            t = threading.Thread(target=s._dispatcher, daemon=True)
            s._cond.parked.clear()
            t.start()
            if not s._cond.parked.wait(20):
                raise RuntimeError('dispatcher did not park')
            self.disp[i] = t
        else:
            from mistral.services import legacy_scheduler
            s = legacy_scheduler.LegacyScheduler(self.CONF.scheduler)
            self._wrap_legacy(i, s)
        self.sched[i] = s
        self.alive[i] = True

    def _j_of_args(self, args):
        return args.get('j')

    def _wrap_default(self, i, s):
        world = self
        orig_capture = s._capture_scheduled_job
        orig_invoke = s._invoke_job
        orig_delete = s._delete_scheduled_job

        def capture(job):
            g = getattr(_TL, 'gate', None)
            j = world._j_of_args(job.func_args)
            if g is not None and not _in_tx():
                g.park('capture', j)
            if i in world.armed:
                world.armed.discard(i)
                world._ghost_capture(job, j)
            ok = orig_capture(job)
            if ok:
                world.lastcap[(i, j)] = world.now
                _caps()[j] = world.now
            return ok

        def invoke(auth_ctx, func, args):
            g = getattr(_TL, 'gate', None)
            j = world._j_of_args(args)
            if g is not None:
                g.park('invoke', j)
            before = len(INVOCATIONS)
            r = orig_invoke(auth_ctx, func, args)
            for (run, jj) in INVOCATIONS[before:]:
                world._record_invocation(i, jj)
            return r

        def delete(job):
            g = getattr(_TL, 'gate', None)
            j = world._j_of_args(job.func_args)
            if g is not None and not _in_tx():
                g.park('delete', j)
            return orig_delete(job)

        s._capture_scheduled_job = capture
        s._invoke_job = invoke
        s._delete_scheduled_job = delete

    def _wrap_legacy(self, i, s):
        world = self
        orig_capture = s._capture_calls
        orig_invoke = s._invoke_calls
        orig_delete = s.delete_calls

        def capture(batch_size):
            calls = orig_capture(batch_size)
            for c in calls:
                world.lastcap[(i, c.method_arguments.get('j'))] = world.now
                _caps()[c.method_arguments.get('j')] = world.now
            return calls

        def invoke(prepared):
            g = getattr(_TL, 'gate', None)
            # one gate per call so that a crash can fall between two invocations
            for one in prepared:
                j = one[2].get('j')
                if g is not None:
                    g.park('invoke', j)
                before = len(INVOCATIONS)
                orig_invoke([one])
                for (run, jj) in INVOCATIONS[before:]:
                    world._record_invocation(i, jj)

        def delete(db_calls):
            g = getattr(_TL, 'gate', None)
            if g is not None and not _in_tx():
                g.park('delete', [c.method_arguments.get('j') for c in db_calls])
            return orig_delete(db_calls)

        s._capture_calls = capture
        s._invoke_calls = invoke
        s.delete_calls = delete

    def _ghost_capture(self, job, j):
        """Statement-level interference: another scheduler process - which selected the same eligible row from the job store -
        captures it (committed) and starts invoking it right before this instance's own capture statement.  Possible under
        READ COMMITTED between the SELECT of a store poll (or the in-memory copy) and the capture UPDATE; two real
        transactions cannot be interleaved like that in this sandbox, so the other process is played by raw SQL."""
        import sqlalchemy as sa
        from mistral.db.sqlalchemy import base as db_base
        rows = mdb.raw_rows('select execute_at, captured_at from scheduled_jobs_v2 where id = :i', {'i': job.id}) if not _in_tx() else None
        ses = db_base._get_thread_local_session()
        if rows is None:
            rows = [tuple(r) for r in ses.execute(sa.text('select execute_at, captured_at from scheduled_jobs_v2 where id = :i'), {'i': job.id})]
        if not rows:
            return
        ex, cap = self._vt(rows[0][0]), (self._vt(rows[0][1]) if rows[0][1] is not None else None)
        # the other process may capture it only if its own store poll would select it
        eligible = (cap is None and ex < self.now - self.pickup) or (cap is not None and cap <= self.now - self.cap_timeout)
        if not eligible:
            return
        stamp = (BASE + datetime.timedelta(seconds=self.now)).strftime('%Y-%m-%d %H:%M:%S.000000')
        if ses is not None:
            ses.execute(sa.text('update scheduled_jobs_v2 set captured_at = :c where id = :i'), {'c': stamp, 'i': job.id})
        else:
            with db_base.get_engine().begin() as conn:
                conn.execute(sa.text('update scheduled_jobs_v2 set captured_at = :c where id = :i'), {'c': stamp, 'i': job.id})
        # ... and invokes the target under that capture
        self.inv_count[j] += 1
        self.inv_at[j] = self.now
        self.inv_caps[j].add(self.now)
        self.ghosts.append((j, self.now))

    def _record_invocation(self, i, j):
        # the capture under which this invocation runs = the capture made by the same real
        # thread of control (memory job / store poll) that is now invoking
        self.inv_count[j] += 1
        self.inv_at[j] = self.now
        self.inv_caps[j].add(_caps().get(j, -1))

    # -- steps -------------------------------------------------------------------------------
    def schedule(self, i, j, commit):
        from mistral.db.v2 import api as db_api
        from mistral.scheduler import base as sched_base
        spec = self.jobs[j]
        mdb.set_ctx(mdb.ctx('proj-A'))
        job = sched_base.SchedulerJob(run_after=spec['delay'], func_name='harness.schedworld.job_target',
                                      func_args={'run': self.run, 'j': j}, key=spec['key'])
        self.exec_at[j] = self.now + spec['delay']
        try:
            with db_api.transaction():
                self.sched[i].schedule(job)
                if not commit:
                    raise Rollback()
            self.tx[j] = 'committed'
        except Rollback:
            self.tx[j] = 'rolledback'
        finally:
            mdb.set_ctx(None)

    def dispatch(self, i):
        """Wake the real _dispatcher of instance i; returns the jobs it submitted."""
        s = self.sched[i]
        c = s._cond
        fe = self.fexec[i]
        n0 = len(fe.submitted)
        c.parked.clear()
        c.go.set()
        if not c.parked.wait(20):
            raise RuntimeError('dispatcher did not park again')
        out = []
        for fn, args in fe.submitted[n0:]:
            job = args[0]
            j = self._j_of_args(job.func_args)
            out.append(j)
            g = Gate('mem-%d-%d' % (i, j), (lambda fn=fn, job=job: fn(job)))
            self.mem[(i, j)] = g
            g.start()          # parks at the capture gate
        return out

    def mem_step(self, i, j, kind):
        g = self.mem.get((i, j))
        if g is None or g.done or g.at is None or g.at[0] != kind:
            return False
        g.step()
        if g.error is not None:
            self.errors.append(('mem', i, j, repr(g.error)))
        return True

    def poll_start(self, i):
        """Run the select+capture transaction of a store poll; returns list of captured jobs
        (in the order the real code will process them) - [] if nothing was captured."""
        s = self.sched[i]
        if self.kind == 'default':
            g = Gate('poll-%d' % i, s._process_store_jobs)
        else:
            g = Gate('poll-%d' % i, s._process_delayed_calls)
        self.poll[i] = g
        g.start()
        if g.error is not None:
            self.errors.append(('poll', i, repr(g.error)))
        return None if g.done else g.at

    def poll_step(self, i, kind):
        g = self.poll.get(i)
        if g is None or g.done or g.at is None or g.at[0] != kind:
            return False
        g.step()
        if g.error is not None:
            self.errors.append(('poll', i, repr(g.error)))
        return True

    def poll_at(self, i):
        g = self.poll.get(i)
        if g is None or g.done:
            return None
        return g.at

    def crash(self, i):
        self.alive[i] = False
        s = self.sched[i]
        for (ii, j), g in list(self.mem.items()):
            if ii == i and not g.done:
                g.abandon()
        g = self.poll.get(i)
        if g is not None and not g.done:
            g.abandon()
        if self.kind == 'default':
            s._stopped = True
            s._cond.go.set()

    def tick(self, n=1):
        self.now += n

    def close(self):
        for i in list(self.sched):
            if self.alive.get(i):
                self.crash(i)
        self.lib_utils.utc_now_sec = self._real_now
        for opt in ('pickup_job_after', 'captured_job_timeout', 'batch_size'):
            self.CONF.clear_override(opt, 'scheduler')

    # -- observation -------------------------------------------------------------------------
    def _vt(self, s):
        if s is None:
            return -1
        if isinstance(s, str):
            s = datetime.datetime.strptime(s.split('.')[0], '%Y-%m-%d %H:%M:%S')
        return int((s - BASE).total_seconds())

    def observe(self):
        row_cap = {j: -2 for j in self.jobs}
        if self.kind == 'default':
            rows = mdb.raw_rows('select id, execute_at, captured_at, func_args from scheduled_jobs_v2')
            for rid, ex, cap, args in rows:
                j = json.loads(args).get('j')
                self.jobid[rid] = j
                row_cap[j] = self._vt(cap) if cap is not None else -1
        else:
            rows = mdb.raw_rows('select id, execution_time, processing, method_arguments from delayed_calls_v2')
            for rid, ex, proc, args in rows:
                j = json.loads(args).get('j')
                self.jobid[rid] = j
                row_cap[j] = max([t for (ii, jj), t in self.lastcap.items() if jj == j] or [0]) if proc else -1
        imj = {}
        lcap = {}
        ans = {}
        keys = sorted(set(s['key'] for s in self.jobs.values()))
        for i, s in self.sched.items():
            imj[i] = []
            lcap[i] = {j: -1 for j in self.jobs}
            ans[i] = {k: False for k in keys}
            if not self.alive[i]:
                continue
            if self.kind == 'default':
                for jid, job in list(s.in_memory_jobs.items()):
                    j = self._j_of_args(job.func_args)
                    imj[i].append(j)
                    lcap[i][j] = self._vt(job.captured_at) if job.captured_at is not None else -1
            from mistral.db.v2 import api as db_api
            for k in keys:
                try:
                    # asked inside a transaction, as the engine does (_schedule_if_needed);
                    # get_scheduled_jobs_count is not session-aware and would otherwise leave a
                    # transaction open on the shared sqlite connection until garbage collection
                    with db_api.transaction(read_only=True):
                        ans[i][k] = bool(s.has_scheduled_jobs(key=k, processing=False))
                except Exception as e:
                    self.errors.append(('has_scheduled_jobs', i, k, repr(e)))
        return dict(now=self.now, tx=dict(self.tx), execAt=dict(self.exec_at), rowCap=row_cap,
                    invCount=dict(self.inv_count), invAt=dict(self.inv_at),
                    invCaps={j: sorted(v) for j, v in self.inv_caps.items()},
                    imj={i: sorted(v) for i, v in imj.items()}, lcap=lcap,
                    alive=dict(self.alive), ans=ans)
