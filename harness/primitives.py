"""Primitive-usage conformance (DESIGN 5.6): the concurrency primitives a real engine transaction uses are
recorded per step - named locks, refresh of a row, compare-and-swap state updates, inserts of task rows, the
dedupe query of refresh jobs - by replacing the facade functions of mistral.db.v2.api and the scheduler's
has_scheduled_jobs from outside (no change in /repo).  spec/engine/PrimTrace.tla checks that every transaction that
creates a join row or starts / fails a join uses them in the order the statement-level model spec/engine/JoinRace.tla
assumes; a missing primitive is decisive only if JoinRace with that primitive switched off violates a property."""
import contextlib

_INSTALLED = {}


def install(world):
    """Wrap the primitives; events go to world.prims (reset by world.step)."""
    from mistral.db.v2 import api as db_api
    from mistral.scheduler import base as sched_base
    if _INSTALLED:
        uninstall()
    world.prims = []
    orig = dict(named_lock=db_api.named_lock, refresh=db_api.refresh, cas=db_api.update_task_execution_state,
                create=db_api.create_task_execution)
    _INSTALLED.update(orig)
    _INSTALLED['db_api'] = db_api

    @contextlib.contextmanager
    def named_lock(name):
        world.prims.append({'p': 'lock', 'a': str(name)})
        with orig['named_lock'](name):
            yield
        world.prims.append({'p': 'unlock', 'a': str(name)})

    def refresh(model):
        world.prims.append({'p': 'refresh', 'a': str(getattr(model, 'id', ''))})
        return orig['refresh'](model)

    def cas(**kw):
        r = orig['cas'](**kw)
        world.prims.append({'p': 'cas', 'a': str(kw.get('id', '')), 'frm': str(kw.get('cur_state', '')), 'to': str(kw.get('state', '')),
                            'won': r is not None})
        return r

    def create(values):
        world.prims.append({'p': 'insert_task', 'a': str(values.get('unique_key') or ''), 'state': str(values.get('state', '')),
                            'name': str(values.get('name', ''))})
        return orig['create'](values)

    db_api.named_lock, db_api.refresh, db_api.update_task_execution_state, db_api.create_task_execution = named_lock, refresh, cas, create
    sched = sched_base.get_system_scheduler()
    if hasattr(sched, 'has_scheduled_jobs'):
        oh = sched.has_scheduled_jobs
        _INSTALLED['sched'] = (sched, oh)

        def has_scheduled_jobs(**filters):
            world.prims.append({'p': 'dedupe', 'a': str(filters.get('key', '')),
                                'processing': 'none' if 'processing' not in filters else ('true' if filters['processing'] else 'false')})
            return oh(**filters)

        sched.has_scheduled_jobs = has_scheduled_jobs


def uninstall():
    db_api = _INSTALLED.get('db_api')
    if db_api is not None:
        db_api.named_lock = _INSTALLED['named_lock']
        db_api.refresh = _INSTALLED['refresh']
        db_api.update_task_execution_state = _INSTALLED['cas']
        db_api.create_task_execution = _INSTALLED['create']
    if 'sched' in _INSTALLED:
        s, oh = _INSTALLED['sched']
        try:
            s.has_scheduled_jobs = oh
        except Exception:
            pass
    _INSTALLED.clear()


def normalise(prims, ids):
    """Replace row ids by structural ids and lock names by their role."""
    out = []
    for p in prims:
        q = dict(p)
        a = q.get('a', '')
        role = ''
        if q['p'] in ('lock', 'unlock'):
            if a.startswith('join-task-'):
                role = 'join_key'
                q['t'] = a.rsplit('-', 1)[-1] if '-' in a else ''
                # 'join-task-<wf id>-<task name>'
                q['t'] = a[len('join-task-') + 37:] if len(a) > len('join-task-') + 37 else q['t']
            elif a.startswith('continue-task-'):
                role = 'continue_task'
                q['t'] = ids['tk_rev'].get(a[len('continue-task-'):], '')
            elif a.startswith('with-items-'):
                role = 'with_items'
                q['t'] = ids['tk_rev'].get(a[len('with-items-'):], '')
            elif a in ids['tk_rev']:
                role = 'task_id'
                q['t'] = ids['tk_rev'][a]
            else:
                role = 'other'
                q['t'] = ''
        elif q['p'] in ('refresh', 'cas'):
            q['t'] = ids['tk_rev'].get(a, '')
        elif q['p'] == 'insert_task':
            q['t'] = q.get('name', '')
            role = 'join' if a.startswith('join-task-') else 'plain'
        elif q['p'] == 'dedupe':
            q['t'] = ids['tk_rev'].get(a[len('th_r_t_s-'):], '') if a.startswith('th_r_t_s-') else ''
            role = 'refresh_key' if a.startswith('th_r_t_s-') else 'other'
        q['role'] = role
        q.pop('a', None)
        for k in ('frm', 'to', 'state', 'name', 'processing'):
            q.setdefault(k, '')
        q.setdefault('won', True)
        out.append(q)
    return out
