"""Regenerates MANIFEST.json from the table below (run: /venv/bin/python -m harness.manifest)."""
import json
import os

VERIF = os.path.dirname(os.path.dirname(os.path.abspath(__file__)))

BASELINE = ("cd /repo && /venv/bin/python -m pytest -ra -q -p no:cacheprovider --timeout=900 "
            "--continue-on-collection-errors")

ENG_NOTE = ('Serial transactions in one process (tx_lock) - statement-level races between engine processes are out of reach here; sqlite; '
            'RPC transport, post-commit thread spawning, scheduler threads and action bodies replaced by the deterministic world; reliable '
            'messaging (duplicates/reordering explored, no loss).')
ENG_TECH = 'TLA+ property formulas (EngineProps) evaluated by TLC on every step of recorded runs of the real engine under controlled schedules'
ENG_MODEL = (' Model level: MistralEngine.tla (direct and reverse workflows; one action per atomic step of the code: start, post-commit operations, message deliveries, '
             'scheduler jobs of BOTH scheduler implementations (default: capture / invoke / delete per job; legacy: poll pass), the pause command and '
             'its backlog, operator pause / resume / stop, redeliveries, retry (continue-on / break-on) / wait-before / wait-after / timeout / pause-before / fail-on policies, operator rerun / skip, with-items tasks (count / capacity accounting, concurrency, accepted flags, one accounting job per reported item), clock) is model-checked exhaustively by TLC on the '
             'shape catalogue with the stated operator / redelivery budgets, the property formulas holding modulo the named known-finding '
             'situations; every recorded run inside the model\'s scope is validated strictly as a behaviour of the model (EngineTrace.tla, '
             'unlogged choices inferred by TLC) - a run that is not accepted is reported as DIVERGENCE; in the other direction TLC-simulated behaviours of the model and its '
             'counterexamples for the known-finding situations are stepped through the real engine, the projection compared after every step.')
ENG_TECH_M = ENG_TECH + ' + exhaustive TLC model checking of MistralEngine.tla with strict trace validation of the recorded runs'

# id -> (engine, category, text, note, technique, design_ref)
CHECKS = {
    'C19': ('egress', 'model_checking',
            'Egress.tla is a decision model of validate_url and its callers; TLC checks pipeline == policy and the default '
            'deny-list exhaustively over the catalogue product, then every case of the same product is run through the real '
            'validate_url / HTTPAction / MistralHTTPAction / WebhookPublisher and the recorded event sequences are validated by '
            'TLC against EgressTrace.tla. Exhaustive over a finite catalogue: right level for a pure decision function.',
            'text->address denotation uses the standard library (inet_aton/inet_pton/ipaddress) as independent oracle; names go '
            'through a scripted resolver; requests is replaced by a recorder; catalogue is finite.',
            'TLA+ decision model checked by TLC + exhaustive case replay with TLC trace validation', '6.7'),
    'C18': ('expiry', 'model_checking',
            'Expiration.tla models the two batch loops of the policy (unordered age query returning any batch-sized subset, ordered '
            'count query) and TLC proves algorithm == declarative expectation, never-unfinished, no-newer-while-older and termination '
            'for every population of <=3 (thorough 4) roots x 54 configurations; the same product is materialised as real rows with '
            'real cascade foreign keys, the real policy runs once per case, deletions are observed at SQL level and TLC judges every '
            'observation with the property formulas and checks the batches are a behaviour of the model.',
            'sqlite stands in for MySQL/PostgreSQL; update times distinct; an under-deletion or crash is reported as divergence, not '
            'as violation (the property says "only").',
            'TLA+ algorithm-vs-expectation model checked by TLC + exhaustive case replay on real rows with TLC trace validation', '6.3'),
    'C13': ('sched', 'model_checking',
            'Scheduler.tla / LegacyScheduler.tla model every separately committed step of both scheduler implementations (persist in the '
            'caller transaction, in-memory dispatch, capture CAS, invoke, delete, store poll, crash between any two steps, clock); TLC '
            'checks NotEarly, OnceWithinTimeout, NeverIfRolledBack, OnlyScheduled, HasJobsExact exhaustively for 2-3 instances x 2-3 jobs '
            '(serial and open-transaction modes) and AtLeastOnce/Drains under fairness. Real DefaultScheduler/LegacyScheduler objects '
            'sharing one database are stepped along TLC-simulated behaviours and seeded random schedules; every recorded execution is '
            'judged by TLC with the same formulas (SchedulerObsTrace) and validated as a model behaviour (SchedulerTrace).',
            'Serial transactions in one process (tx_lock): statement-level races between scheduler processes are model-level only. '
            'Dispatcher condition variable / thread pool replaced by harness gates; virtual clock; sqlite.',
            'TLA+ model checked by TLC (safety + liveness) + spec-guided and random executions of the real objects validated by TLC', '6.1'),
    'C17': ('cron', 'model_checking',
            'CronTrigger.tla models list / advance (delete-on-last or conditional update on the read next_execution_time) / start / crash / '
            'lagging clock for 2-3 concurrent processors over triggers with pattern, first-time and count combinations; TLC checks '
            'OncePerOccurrence, OnlyDueOccurrences, CountBound, FirstTimeOnlyOnce, RemainingConsistent, RemovedWhenExhausted, NextMonotone, '
            'ExactlyOnceAtRest exhaustively and DueEventuallyHandled under fairness. The real process_cron_triggers_v2 is run by gated '
            'processors along TLC-simulated behaviours and random schedules on real rows (two projects, colliding trigger names); each '
            'execution is judged by TLC with the same formulas and validated as a model behaviour.',
            'Whole-minute virtual clock, two cron patterns; keystone trusts and the engine RPC client are fakes; serial transactions; sqlite.',
            'TLA+ model checked by TLC (safety + liveness) + spec-guided and random executions of the real code validated by TLC', '6.2'),
    'C01': ('engine', 'model_checking',
            'Generated direct DAGs (forks, all/one/N joins, guards, error routes, fail/succeed commands) and reverse graphs are run on the '
            'REAL engine inside a deterministic world where every RPC delivery, post-commit operation, scheduler sub-step and clock jump '
            'is an explicit schedule choice (8 policies, both schedulers); every step of every run is judged by TLC with the EngineProps '
            'formulas NoHang, NoWaitingAtRest, KnownTasksOnly, DeclaredErrorsOnly (incl. the exceptions the post-commit queue and the schedulers swallow); the final outcome of every eligible run is compared with the outcomes WfSemantics.tla prescribes (direct and reverse workflows, sub-workflows).' + ENG_MODEL + ' Budget: no operator, no redelivery - all delivery orders under both schedulers, liveness (Terminates under weak fairness) on three shapes.',
            ENG_NOTE, ENG_TECH_M + ' + batch evaluation of the language semantics WfSemantics.tla as outcome oracle', '0, 5, 7-C01'),
    'C03': ('engine', 'model_checking',
            'Runs with operator commands (pause, resume, stop with each state, rerun) and duplicate deliveries injected at random points; '
            'TLC judges WfMoves (every committed state change AND every individual SQL-level state write against the transition table), '
            'ResultOnce, SuccessSticky, FinishedFrozen on every step.' + ENG_MODEL + ' Budgets: 1 operator command of any kind + 1 redelivery at any point of every catalogue shape; 2 (thorough 3) commands on the small shapes.',
            ENG_NOTE, ENG_TECH_M, '5, 7-C03'),
    'C04': ('engine', 'model_checking',
            'Fork/join shapes (nested joins, joins fed by on-error/on-complete, guards that do not fire) and reverse requires-graphs under '
            'adversarial completion orders (incl. joins fed by a 6-task branch breaking at every distance and a join behind the pause command); TLC judges JoinGate, JoinOnce, Caused, ReqGate, OnlyNeededOnce, NoWaitingAtRest on every step.' + ENG_MODEL + ' Statement level (two engine PROCESSES, READ COMMITTED): JoinRace.tla proves OneJoinRow / JoinStartsOnce / JoinGate / NoLostWakeup with every protecting primitive (named locks, unique key, refresh inside the lock, uncaptured-only dedupe) and shows which are load-bearing; PrimTrace.tla checks on the recorded transactions of the real engine that the primitives are used in the order that model assumes - a missing load-bearing primitive is a violation at model level.',
            'Statement-level races are decided on the model only; the code is bound to it by the recorded order of primitives (locks, refresh, compare-and-swap, dedupe query), not by executing two processes. ' + ENG_NOTE, ENG_TECH_M + ' + statement-level TLA+ model (JoinRace) bound by primitive-usage conformance', '0.4b, 5, 7-C04'),
    'C05': ('dataflow', 'model_checking',
            'DataFlow.tla models the version-merge algorithm (outbound context = inbound + published with leaf-path counters; join = fold of '
            'the upstream contexts in any order) and TLC proves SeesLatest / NoStaleCopy for every DAG of up to 5 tasks, every publish placement '
            'and every fold order in the scalar and same-shape nested classes (and exhibits the counterexample for mixed shapes). Generated '
            'fork/join programs (task-level publish / publish-on-error, transition-level branch and global publish, scalar and nested values, '
            'YAQL / Jinja / literal renderings, input fallback) run on the real engine under both schedulers and 8 schedule policies; every task '
            'echoes what its expressions see; TLC (DataFlowObsTrace) recomputes the causally latest publishers from the causal relation the '
            'engine recorded and judges SeesLatest (stored inbound contexts), ProbeSeesLatest (what expressions see), GlobalVisible, '
            'OutputSeesLatest, PublishedAsDefined and NoMutation (stored contexts of finished tasks and execution input never change) on every run.',
            'id order of sibling rows (the fold order at a join) is random on the real engine, all orders only in the model; runs in which a join is '
            're-armed (KF-C04-1) are outside the judged class; default configuration only (context versioning on, merge strategy replace). ' + ENG_NOTE,
            'explicit TLA+ model of the data-flow algorithm checked exhaustively by TLC + TLA+ property formulas evaluated by TLC on recorded runs of the real engine',
            '5, 7-C05'),
    'C06': ('engine', 'model_checking',
            'Engine side: runs of generated programs (incl. sub-workflows) with up to 2 messages (action results, sub-workflow results, '
            'start-task, start-workflow-with-id, run-action requests) re-delivered at random later points; TLC judges DupNoEffect (a '
            'redelivery leaves every row unchanged), NoDoubleDispatch, StartOnce, ResultOnce on every step. Executor side: Executor.tla '
            '(refuse-if-redelivered-and-unsafe, at most one successfully sent result) model-checked exhaustively and every one of its 216 '
            'input combinations run through the real ExecutorServer.run_action with scripted action body / engine client, validated by TLC.' + ENG_MODEL + ' Budget: 2 redeliveries of any delivered message at any later point of every catalogue shape (DupNoEffectM, StartOnceM, ResultOnceM).',
            ENG_NOTE, ENG_TECH_M + ' + exhaustive executor model with trace validation', '5, 6.4, 7-C06'),
    'C07': ('engine', 'model_checking',
            'with-items tasks over 0..4 items (actions and sub-workflows, concurrency absent/1..n+1, per-item outcomes, rerun with reset '
            'on/off) under schedules interleaving item completions with the keyed accounting jobs; TLC judges WithinLimit, OnePerIndex, '
            'CompleteAfterAll, WithItemsFinalState on every step.' + ENG_MODEL + ' Budgets: the with-items catalogue (0 / 2 / 3 items, concurrency absent / 1 / 2 / 3, a failing item, a with-items join, '
            'two with-items tasks into a join) under both schedulers, all orders of item results and accounting jobs (OnePerIndexM, WithinLimitM, CompleteAfterAllM, NoHangM, liveness on three shapes); two operator commands '
            '(pause / resume / stop) at any two points and one redelivery on the small shapes (thorough: on every 2- and 3-item shape). Three reachability probes reproduce the known with-items findings KF-C07-7..11 on the real engine.',
            ENG_NOTE, ENG_TECH_M, '0.3, 0.4c, 5, 7-C07'),
    'C09': ('engine', 'model_checking',
            'Programs whose tasks call sub-workflows (plain and with-items callers, child outcomes, cancel and pause/resume midway); TLC '
            'judges ParentMirrorsChild, RootAndNamespace, TreeCancelled, StartOnce on every step.',
            ENG_NOTE, ENG_TECH, '5, 7-C09'),
    'C10': ('engine', 'model_checking',
            'Pause at a random step and resume later (catalogue shapes: fixed grid of pause/resume points); TLC judges PauseAck, '
            'NoNewTasksWhilePaused, StartOnce, NoDoubleDispatch and - after resume - NoHang / NoWaitingAtRest on every step; the final outcome of every eligible run is compared with the outcomes WfSemantics.tla prescribes (clause Prescribed).' + ENG_MODEL + ' Budgets: pause or resume at any point of every catalogue shape; pause AND resume at any two points of the small shapes (thorough: also pair_join and the diamond, 4.3 M states each).',
            ENG_NOTE, ENG_TECH_M, '5, 7-C10'),
    'C11': ('engine', 'model_checking',
            'Stop with ERROR / CANCELLED / SUCCESS at a random step (some while PAUSED), results in flight delivered afterwards; TLC judges '
            'StopAck, NoNewTasksAfterStop, WaitingStaysAfterStop (a join WAITING at the stop is not woken by its refresh job afterwards), FinishedFrozen, TreeCancelled on every step; fixed histories: stop around the pause command, stop between the completion of a join\'s last inbound task and its refresh job.' + ENG_MODEL + ' Budgets: two stops (each requested state) at any two points, and pause + stop at any two points, of every catalogue shape.',
            ENG_NOTE, ENG_TECH_M, '5, 7-C11'),
    'C08': ('engine', 'model_checking',
            'Programs whose tasks carry retry (with and without continue-on / break-on), wait-before, wait-after, timeout (literal or expression) and fail-on policies, per-attempt '
            'outcomes from the oracle, under a virtual clock (one third of the runs lets timers fire ahead of pending results); TLC judges '
            'AttemptBound, StopAtFirstSuccess, RetryStopsWhenTold / RetryExhausted (continue-on / break-on), FinalIffLast, DelayRespected, WaitBeforeRespected, WaitAfterRespected, TimeoutJudged, '
            'FailOnApplied over whole recorded runs (creation and completion times of every action execution).' + ENG_MODEL + ' Budget: the policy catalogue (retry count 2 on plain and join tasks, continue-on / break-on, wait-before x timeout, wait-after, wait-after + retry, timeout + retry, pause-before, fail-on) under both schedulers, all orders of timer jobs and results; pause and resume at any two points of nine of the shapes (FailOnAppliedM, PauseBeforeM, StartOnceM ...).',
            ENG_NOTE, ENG_TECH_M, '0, 5, 7-C08'),
    'C12': ('engine', 'model_checking',
            'Programs run to rest, then an ERROR task is rerun (reset on/off), skipped or rerun twice with a new outcome and run to rest '
            'again; TLC judges RerunRestores (task, workflow, enclosing workflows and parent tasks RUNNING), RerunReexecutes, '
            'PartialRerunOnlyFailed, SkipApplied, ItemsTaskCompletes and NoHang after the rerun; the final outcome of every eligible run is compared with what WfSemantics.tla prescribes (as if the task had produced its new result the first time). '
            'Histories: rerun / skip at rest, twice, followed by pause / resume, inside all item sub-workflows at once, and - triggered by the situation - of a task inside a failed sub-workflow while the parent workflow is still RUNNING.' + ENG_MODEL +
            ' Budgets: one rerun (reset on / off) or skip of any ERROR task at any point of every failing catalogue shape under both schedulers; two such commands, and rerun + pause + resume, on the small shapes (RerunAckM, SkipAckM, NoHangM, LegalWfM ...). '
            'Probes reproduce KF-C12-1/2 and KF-C12-9 on the real engine; a simulated behaviour exposed KF-C12-11 (stale completion check after a rerun).',
            ENG_NOTE, ENG_TECH_M + ' + batch evaluation of the language semantics WfSemantics.tla as outcome oracle', '0.3, 0.4c, 5, 7-C12'),
    'C20': ('engine', 'model_checking',
            'Runs in which a subset of actions goes silent (request never served, no heartbeat), another subset is slow but alive '
            '(heartbeats sent), the virtual clock advances by check intervals with a real handle_expired_actions pass after each, genuine '
            'results are released late, a with-items accounting job is lost (stuck task recovered by the real integrity check), and in a quarter of the runs a checker batch size is configured with expired actions that belong to no task already in the table; a vacuity gate fails the check if no expiry / late result / lost job / orphan batch was observed; TLC '
            'judges ExpiredFailed, NeverExpireFresh, NoStuckTaskAtRest, ResultOnce/FinishedFrozen (late genuine result inert) and NoHang.',
            ENG_NOTE, ENG_TECH, '5, 7-C20'),
    'C15': ('tenancy', 'model_checking',
            'Tenancy.tla is the policy (CanSee / CanChange) as a one-step state machine; TLC enumerates 11 resource types x owner x scope x '
            'membership status x actor project x admin x operation (get by id, by name, list, update, delete, create naming another '
            'project) and checks NoForeignRead / NoForeignWrite / PrivateInvisible; the full table is executed on real rows through the '
            'real db api under the actor context (auth enabled, same-name rows in both projects) and TLC judges every recorded outcome '
            '(found => CanSee, changed/deleted => CanChange, new row owned by caller) and validates it as a model behaviour.',
            'db-api level (REST authorisation is C16); expression functions executions()/tasks() are not covered; sqlite.',
            'TLA+ policy model checked by TLC + exhaustive decision-table replay on real rows with TLC trace validation', '6.5'),
    'C16': ('rest', 'model_checking',
            'RestGuard.tla: a request first enforces the documented rule(s) of its operation, a denial ends it with 403 and no effect, only '
            'then may resource tables be touched or RPCs be sent; guard tables for execution PUT / DELETE and task PUT. Requests for every '
            'catalogued operation x (allowed | each documented rule denied, incl. list:all_projects and publicize) x resource present/absent '
            'and every cell of the state-change tables go through the real WSGI app; acl.enforce verdicts, SQL statements per resource '
            'table, RPC sends, status and a database digest are recorded and judged by TLC (RestGuardTrace: EnforceFirst, AlwaysEnforces, '
            'DeniedNoEffect, ExecPutGuard, TaskPutGuard, ExecDeleteGuard).',
            'The catalogue is hand-written against policies.list_rules(); the controller tree is walked to list exposed methods and the '
            'uncatalogued ones are named in the evidence (code_sources / dynamic_actions writes, members, event trigger writes). Engine RPC '
            'client is a recorder; keystone off; sqlite.',
            'TLA+ guard model + request traces through the real WSGI app judged by TLC', '6.6'),
    'C14': ('dsl', 'exploration',
            'DslValidation.tla: the validation pipeline as a state machine whose only terminal states are Accepted and Rejected(definition '
            'error), over an input space of base documents (covering the DSL features) with up to two structure-aware mutations (node x '
            'kind) plus 30 workbooks given as text (comment lines at every indentation, block scalars whose content starts with #, members indented by 2 / 4); TLC enumerates the single-mutation space, the harness concretises every descriptor (and sampled doubles) to YAML, submits '
            'it to the real parser entry points, re-instantiates accepted definitions from their stored dict and cuts workbook members (workflows and actions) out '
            'with the real slicing code; the time budget is CPU time of the validating process; TLC judges each recorded outcome (Total, InTime, StableWhenAccepted, WorkbookMemberIsWhatWasWritten).',
            'TLA+ is generator and class oracle only (it does not parse YAML); which documents are valid is not specified. Exploration '
            'level: the mutation space of 5 base documents x 12 kinds, not all texts.',
            'TLA+-enumerated structure-aware mutation space, outcomes judged by TLC', '6.8'),
    'C02': ('engine', 'model_checking',
            'Programs of the deterministic class (generated DAGs with all-joins, per-task publishers, sub-workflows, with-items; '
            'catalogue shapes; data-flow shapes in which a scalar / nested / two-level variable is re-published inside one branch of a fork and merged at a join) are each run 6 (thorough 16; fixed shapes: all 28 variants) times on the real engine - both schedulers, 7 schedule policies, '
            'specification-cache eviction on/off between steps; TLC compares the final outcomes (EngineDetTrace: CameToRest, '
            'Deterministic - execution state and evaluated output, per task state / published variables / routed-to set, accepted action '
            'results). Model level: TLC checks confluence of MistralEngine (a single terminal projection over all interleavings) on the '
            'deterministic catalogue shapes.',
            ENG_NOTE + ' Row-id order of sibling rows is not controlled (the known id-order dependence of context versioning is not explored); '
            'diagnostic text under output.result of failed executions is excluded from the comparison.',
            'TLC comparison of final outcomes of many real runs per program + model-level confluence check', '5, 7-C02'),
}

NOT_YET = 'check not built yet (build in progress; see DESIGN.md section 12)'


def main():
    props = [json.loads(l) for l in open(os.path.join(VERIF, 'properties.jsonl'))]
    checks = []
    na = []
    engines = {}
    for p in props:
        pid = p['id']
        if pid in CHECKS:
            eng, cat, text, note, tech, ref = CHECKS[pid]
            checks.append({
                'property_id': pid,
                'quick_cmd': './check %s --tier quick' % pid,
                'thorough_cmd': './check %s --tier thorough' % pid,
                'evidence_file': 'evidence/%s.json' % pid,
                'replay_cmd_template': './check %s --replay {path}' % pid,
                'engine': eng,
                'level_claimed': {'category': cat, 'text': text, 'design_ref': 'DESIGN.md section ' + ref},
                'level_note': note,
                'technique': tech,
            })
            engines.setdefault(eng, []).append(pid)
        else:
            na.append({'property_id': pid, 'reason': NA_REASONS.get(pid, NOT_YET)})
    m = {
        'version': 1,
        'setup_cmd': './check setup',
        'hooks': {
            'guard': 'MISTRAL_VERIF',
            'enable': 'no source hooks in /repo: the harness replaces seams from outside (RPC driver, post-commit thread, '
                      'scheduler singleton, clock, uuid generator, action classes); MISTRAL_VERIF=1 is set by the harness only',
            'baseline_off_cmd': BASELINE,
            'source_commits': [],
            'add_only': True,
        },
        'engines': [{'name': e, 'path': 'spec/%s' % e, 'serves_properties': ps,
                     'kind_free_text': 'TLA+ specification checked by TLC, bound to the code by replay / trace validation'}
                    for e, ps in sorted(engines.items())],
        'checks': checks,
        'not_applicable': na,
        'notes': 'All checks: ./check <id> --tier quick|thorough. Exit 0 held / 1 VIOLATION / 2 machinery failure. '
                 'Known findings: known_findings.jsonl.',
    }
    with open(os.path.join(VERIF, 'MANIFEST.json'), 'w') as fh:
        json.dump(m, fh, indent=1)
    try:
        import jsonschema
        jsonschema.validate(m, json.load(open('/root/.vp/MANIFEST.schema.json')))
        print('MANIFEST.json valid: %d checks, %d not_applicable' % (len(checks), len(na)))
    except ImportError:
        print('written (jsonschema not available)')


NA_REASONS = {}

if __name__ == '__main__':
    main()
