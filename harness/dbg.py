"""python -m harness.dbg <replay.json> [context]: compact view of a recorded violation."""
import json
import sys


def main():
    d = json.load(open(sys.argv[1]))
    ctx = int(sys.argv[2]) if len(sys.argv) > 2 else 4
    rp = d['replay']
    print(d['signature'])
    print(rp['yaml'])
    print('oracle', {k: v for k, v in rp['oracle'].items()})
    l = rp['failing_step']
    evs = rp['events']
    for i in range(max(0, l - ctx), l):
        e = evs[i]
        print(i + 1, e['kind'], e['what'], e['phase'], e['exc'], e.get('exc_msg', '')[:160],
              [(w['sid'][2:], w['frm'], w['to']) for w in e['writes']])
    o = rp['obs_at_failure']
    for w in o['wf']:
        print('WF', w['sid'], w['state'], 'parent', w['parent'], 'acc', w['accepted'], w['info'][:80])
    for t in o['tk']:
        print('TK', t['sid'], t['state'], t['next'], 'proc', t['processed'], 'wi', t['wiCount'], t['wiCap'], t['info'][:60])
    for a in o['ax']:
        print('AX', a['sid'], a['state'], 'acc', a['accepted'], 'idx', a['idx'], a['out'][:50])
    print(o['pend'])


if __name__ == '__main__':
    main()
