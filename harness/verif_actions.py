"""The oracle-driven test action registered as `verif.act` (module level so that mistral's
polymorphic serializer can import the class on the executor side)."""
from mistral_lib import actions as ml_actions


class VerifAction(ml_actions.Action):
    def __init__(self, tag='', i=0, echo=None, sync=True):
        self.tag = tag
        self.i = i
        self.echo = echo
        self.sync = sync

    def is_sync(self):
        return self.sync

    def run(self, context):
        from harness import world
        return world.World.current._action_outcome(self.tag, self.i, self.echo)

    def test(self, context):
        return None
