"""Spec -> code: behaviours of MistralEngine.tla produced by TLC (simulation traces, or the counterexample of a
reachability probe) are stepped through the REAL engine inside the deterministic world.  After every step the
projection of the database is compared with the model state (execution state, backlog length, per task: state,
routed-to set, processed, error handled; per action: state; numbers of in-flight messages, post-commit operations
and scheduler jobs).  The recorded run is judged by TLC with EngineProps like every other run (decisive); a step
the world cannot follow, or a projection that differs, is a DIVERGENCE between specification and code."""
import json
import os
import re
import shutil

from harness import common
from harness.common import parse_tla

_SPLIT = re.compile(r'^/\\ (\w+) = ', re.M)


def parse_state(text):
    """One TLC-printed state (conjunction of var = value) -> dict of python values (D is skipped)."""
    out = {}
    ms = list(_SPLIT.finditer(text))
    for i, m in enumerate(ms):
        var = m.group(1)
        val = text[m.end():ms[i + 1].start() if i + 1 < len(ms) else len(text)]
        if var == 'D':
            continue
        out[var] = parse_tla(val.strip())
    return out


def parse_behaviour_file(path):
    """tlc -simulate file=...: one module per behaviour with STATE_n == ... definitions."""
    txt = open(path).read()
    parts = re.split(r'^STATE_\d+ == *\n', txt, flags=re.M)[1:]
    states = []
    for p in parts:
        p = re.split(r'^\\\* <', p, flags=re.M)[0]
        states.append(parse_state(p))
    return states


def parse_error_trace(out):
    """TLC counterexample in stdout: 'State n: <action>' blocks."""
    parts = re.split(r'^State \d+: <[^\n]*>\n', out, flags=re.M)[1:]
    states = []
    for p in parts:
        p = re.split(r'^\s*$', p, flags=re.M)[0]
        states.append(parse_state(p))
    return states


def simulate(d, name, prog, num, depth=80, seed=1, ops=0, dups=0, kinds=('pause', 'resume', 'stop')):
    """TLC simulation of MistralEngine on one shape -> list of behaviours (lists of states)."""
    from harness import engmodel
    common.put_spec(d, *[os.path.join('engine', f_) for f_ in ('MistralEngine.tla',)])
    mc = 'MC_Sim_' + re.sub(r'\W', '_', name)
    with open(os.path.join(d, mc + '.tla'), 'w') as fh:
        fh.write('---- MODULE %s ----\nEXTENDS MistralEngine\nDConst == %s\nMCInit == D = DConst /\\ Init\n'
                 'MCSpec == MCInit /\\ [][Next]_vars\nTimeBound == now <= 20 /\\ InDomain\nMCOpKinds == %s\n====\n'
                 % (mc, engmodel.def_tla(prog), common.tla(set(kinds))))
    with open(os.path.join(d, mc + '.cfg'), 'w') as fh:
        fh.write('SPECIFICATION MCSpec\nCONSTRAINT TimeBound\nCONSTANT OpBudget = %d\nCONSTANT DupBudget = %d\nCONSTANT NoopOps = FALSE\nCONSTANT QuietRerun = FALSE\n'
                 'CONSTANT OpKinds <- MCOpKinds\nCONSTANT Scheduler = "default"\nCHECK_DEADLOCK FALSE\n' % (ops, dups))
    sd = os.path.join(d, 'sim_' + mc)
    shutil.rmtree(sd, ignore_errors=True)
    os.makedirs(sd)
    r = common.run_tlc(os.path.join(d, mc + '.tla'), os.path.join(d, mc + '.cfg'), workers=1,
                       simulate='file=%s/tr,num=%d' % (sd, num), depth=depth, seed_=seed, timeout=600, metatag=mc)
    behs = []
    for f in sorted(os.listdir(sd)):
        if f.startswith('tr_'):
            st = parse_behaviour_file(os.path.join(sd, f))
            if len(st) >= 2:
                behs.append(st)
    shutil.rmtree(sd, ignore_errors=True)
    return behs, r


def probe(d, name, prog, formula, ops=0, dups=0, kinds=('pause', 'resume', 'stop'), timeout=900):
    """Reachability probe: asks TLC for a behaviour that reaches a state satisfying `formula` (by checking its
    negation as an invariant).  Returns the behaviour (list of states) or None if unreachable within the budgets."""
    from harness import engmodel
    common.put_spec(d, os.path.join('engine', 'MistralEngine.tla'))
    mc = 'MC_Probe_' + re.sub(r'\W', '_', name)
    with open(os.path.join(d, mc + '.tla'), 'w') as fh:
        fh.write('---- MODULE %s ----\nEXTENDS MistralEngine\nDConst == %s\nMCInit == D = DConst /\\ Init\n'
                 'MCSpec == MCInit /\\ [][Next]_vars\nTimeBound == now <= 20 /\\ InDomain\nMCOpKinds == %s\nNotReached == ~(%s)\n====\n'
                 % (mc, engmodel.def_tla(prog), common.tla(set(kinds)), formula))
    with open(os.path.join(d, mc + '.cfg'), 'w') as fh:
        fh.write('SPECIFICATION MCSpec\nCONSTRAINT TimeBound\nCONSTANT OpBudget = %d\nCONSTANT DupBudget = %d\nCONSTANT NoopOps = FALSE\nCONSTANT QuietRerun = FALSE\n'
                 'CONSTANT OpKinds <- MCOpKinds\nCONSTANT Scheduler = "default"\nINVARIANT NotReached\nCHECK_DEADLOCK FALSE\n' % (ops, dups))
    r = common.run_tlc(os.path.join(d, mc + '.tla'), os.path.join(d, mc + '.cfg'), timeout=timeout, metatag=mc)
    if 'NotReached' not in r.inv_violations:
        return None, r
    return parse_error_trace(r.out), r


# ---------------------------------------------------------------------------------------------
# stepping a behaviour through the real engine

class Mismatch(Exception):
    pass


class OrderChoice(Exception):
    """The model leaves the order of the commands inside one transaction open (the dispatcher sorts them with an
    inconsistent comparator); TLC chose an order the code does not take here: the behaviour cannot be imposed."""


def _batch_next_label(w, bid, ids):
    b = w.batches.get(bid)
    if b is None or b.queue is None or b.pos >= len(b.queue):
        return None
    func, args, in_tx = b.queue[b.pos]
    name = getattr(func, '__name__', '').lstrip('_')
    kind = {'start_task': 'start_task', 'run_action': 'run_action', 'check': 'check', 'schedule_if_needed': 'sched_refresh'}.get(name, name)
    t = None
    try:
        if kind == 'start_task' and func.__defaults__:
            t = ids['tk_rev'].get(func.__defaults__[0].task_ex.id, '').split('/')[-1].split('#')[0]
        elif kind == 'sched_refresh' and args:
            t = ids['tk_rev'].get(args[0], '').split('/')[-1].split('#')[0]
    except Exception:
        t = None
    return kind, t


def _kw(m, key):
    v = m.kwargs.get(key)
    if isinstance(v, str):
        try:
            return json.loads(v)
        except ValueError:
            return v
    return v


def _msg_label(w, m, ids):
    """(method, task name, k, first_run, res) of a world message."""
    if m.method == 'start_task':
        sid = ids['tk_rev'].get(_kw(m, 'task_ex_id'), '')
        return ('start_task', sid.split('/')[-1].split('#')[0], 0, bool(_kw(m, 'first_run')), '')
    if m.method in ('run_action', 'on_action_complete'):
        sid = ids['ax_rev'].get(_kw(m, 'action_ex_id'), '')
        mm = re.match(r'r/(\w+)#0@(\d+)\.(\d+)$', sid)
        name, k = (mm.group(1), (int(mm.group(2)), int(mm.group(3)) + 1)) if mm else ('', (0, 0))
        res = ''
        if m.method == 'on_action_complete':
            r = _kw(m, 'result')
            data = r.get('__serial_data') if isinstance(r, dict) else None
            if isinstance(data, str):
                try:
                    data = json.loads(data)
                except ValueError:
                    data = {}
            res = 'ERROR' if isinstance(data, dict) and data.get('error') is not None else 'SUCCESS'
        return (m.method, name, k, True, res)
    return (m.method, '', 0, True, '')


FUNCS = {'_refresh_task_state': 'refresh', '_check_and_fix_integrity': 'integrity', '_continue_task': 'continue',
         '_complete_task': 'complete', '_fail_task_if_incomplete': 'timeout', '_scheduled_on_action_complete': 'items'}


def _job_label(w, row, ids):
    jid, ex, cap, fn, key, args = row
    func = fn.split('.')[-1]
    func = FUNCS.get(func, func)
    t = ''
    mm = re.search(r'[0-9a-f]{8}-[0-9a-f]{4}-[0-9a-f]{4}-[0-9a-f]{4}-[0-9a-f]{12}', str(args))
    if func != 'integrity' and mm:
        sid = ids['tk_rev'].get(mm.group(0)) or ids['ax_rev'].get(mm.group(0), '').rsplit('@', 1)[0]
        t = sid.split('/')[-1].split('#')[0]
    return func, t


def _ax_key(seq, k):
    """(item index, ordinal among the executions of that item) of the k-th action execution (1-based) of a model task."""
    if not (1 <= k <= len(seq)):
        return (0, 0)
    i = seq[k - 1]['i']
    return (i, sum(1 for r in seq[:k] if r['i'] == i))


def compare(model, obs, w):
    """Model state vs projection of the database; returns a description of the first difference or None."""
    if not obs['wf']:
        return 'no execution row'
    root = obs['wf'][0]
    if model['wf'] != root['state']:
        return 'execution state: model %s, code %s' % (model['wf'], root['state'])
    if len(model['backlog']) != root['backlog']:
        return 'backlog length: model %d, code %d' % (len(model['backlog']), root['backlog'])
    rows = {x['name']: x for x in obs['tk']}
    if len(rows) != len(obs['tk']):
        return 'code has two executions of one task name (outside the model)'
    for n, mt in model['tk'].items():
        if mt['state'] == 'none':
            if n in rows:
                return 'task %s: model has no row, code %s' % (n, rows[n]['state'])
            continue
        if n not in rows:
            return 'task %s: model %s, code has no row' % (n, mt['state'])
        x = rows[n]
        if (mt['state'], sorted(mt['next']), mt['processed'], mt['errHandled'], mt.get('retryNo', 0), mt.get('wiCount', -1), mt.get('wiCap', -1)) != \
                (x['state'], sorted(x['next']), x['processed'], x['errHandled'], x.get('retryNo', 0), x.get('wiCount', -1), x.get('wiCap', -1)):
            return 'task %s: model %s, code %s' % (n, (mt['state'], sorted(mt['next']), mt['processed'], mt['errHandled'], mt.get('wiCount'), mt.get('wiCap')),
                                                   (x['state'], sorted(x['next']), x['processed'], x['errHandled'], x.get('wiCount'), x.get('wiCap')))
    for n, seq in model['ax'].items():
        mine = [a for a in obs['ax'] if a['task'] == 'r/%s#0' % n]
        got = {}
        for a in mine:
            mm = re.search(r'@(\d+)\.(\d+)$', a['sid'])
            got[(int(mm.group(1)), int(mm.group(2)) + 1)] = (a['state'], bool(a['accepted']))
        want = {}
        for k, r in enumerate(seq):
            want[_ax_key(seq, k + 1)] = (r['s'], bool(r['a']))
        if got != want:
            return 'actions of %s: model %s, code %s' % (n, sorted(want.items()), sorted(got.items()))
    pend = w.pending_counts()
    if len(model['msgs']) != pend['msgs']:
        return 'in-flight messages: model %d, code %d' % (len(model['msgs']), pend['msgs'])
    if sum(len(b['ops']) for b in model['ptq']) != pend['ptq']:
        return 'post-commit operations: model %d, code %d' % (sum(len(b['ops']) for b in model['ptq']), pend['ptq'])
    if len(model['jobs']) != pend['jobsDue'] + pend['jobsLater'] + pend['running']:
        return 'scheduler jobs: model %d, code %d' % (len(model['jobs']), pend['jobsDue'] + pend['jobsLater'] + pend['running'])
    return None


def _key(rec):
    return json.dumps(rec, sort_keys=True, default=str)


def run_behaviour(prog, states, seed=0):
    """Steps one model behaviour through the real engine (default scheduler).  Returns a trace dict like
    engrun.run_program, with meta.model = {'followed': n, 'of': len, 'mismatch': text or None}."""
    from harness import engrun, project
    from harness import world as world_mod
    w = world_mod.World(scheduler='default', seed=seed)
    steps = []
    meta = dict(scheduler='default', policy='model', seed=seed, dups=0, evict=False, ids='rand', mayPause=True, faulty=True)
    followed, mismatch, order_choice = 0, None, None
    try:
        w.oracle = dict(prog.oracle)
        w.define(prog.yaml(), namespace='')
        bmap = {}       # model batch id -> world batch id
        root_id = [None]

        def record(ev):
            obs, ids = project.project()
            ev = dict(ev)
            ev['writes'] = engrun.parse_writes(w.writes, ids)
            ev.pop('tb', None)
            if ev.get('kind') == 'op' and ev.get('op') in ('pause', 'resume', 'stop') and ev.get('args'):
                ev['target_sid'] = ids['wf_rev'].get(ev['args'][0], '')
                ev['arg'] = ev['args'][1] if len(ev['args']) > 1 else ''
            if ev.get('kind') == 'op' and ev.get('op') == 'rerun' and ev.get('args'):
                ev['target_sid'] = ids['tk_rev'].get(ev['args'][0], '')
                ev['arg'] = 'skip' if (len(ev['args']) > 2 and ev['args'][2]) else ('reset' if ev['args'][1] else 'noreset')
            engrun.label_ev(ev, ids)
            ev.pop('args', None)
            ev.pop('result', None)
            for a in obs['ax']:
                a['disp'] = w.dispatched.get(ids['ax'].get(a['sid']), 0)
            obs['pend'] = w.pending_counts()
            obs['pend']['quiet'] = False
            steps.append({'ev': engrun._clean_ev(ev), 'obs': obs})
            return obs, ids

        ids = {'tk_rev': {}, 'ax_rev': {}, 'wf_rev': {}}
        for i in range(1, len(states)):
            prev, cur = states[i - 1], states[i]
            e = cur['ev']
            a = e['a']
            before_batches = set(w.batches)
            st = None
            if a == 'StartWorkflow':
                st = ('op', 'start', prog.name, dict(prog.input), dict(prog.start_params(), __namespace=''))
            elif a == 'PtqStep':
                gone = [b for b in prev['ptq'] if _key(b) not in set(_key(x) for x in cur['ptq'])]
                cand = [b for b in gone if b['ops'] and b['ops'][0]['op'] == e['op'] and b['ops'][0]['t'] == e['t']]
                if not cand or cand[0]['id'] not in bmap:
                    raise Mismatch('no world batch known for the model batch of PtqStep(%s %s)' % (e['op'], e['t']))
                lab = _batch_next_label(w, bmap[cand[0]['id']], ids)
                if lab and lab[0] == e['op'] and lab[1] is not None and e['op'] in ('start_task', 'sched_refresh') and lab[1] != e['t']:
                    raise OrderChoice('PtqStep(%s %s): the code sends %s first' % (e['op'], e['t'], lab[1]))
                st = ('ptq', bmap[cand[0]['id']])
            elif a in ('Deliver', 'Dup'):
                kk = _ax_key(prev['ax'].get(e['t'], []), e['k']) if e['m'] in ('run_action', 'on_action_complete') else 0
                want = (e['m'], e['t'], kk, e['fr'], e['res'] if e['m'] == 'on_action_complete' else '')
                if e['m'] == 'start_workflow':
                    cands = [mid for mid, m in w.msgs.items() if m.method == 'start_workflow']
                else:
                    cands = [mid for mid, m in w.msgs.items() if _msg_label(w, m, ids) == want and
                             ((a == 'Deliver' and m.delivered == 0 and not m.sync) or (a == 'Dup' and m.delivered > 0))]
                if not cands:
                    raise Mismatch('%s %s: no such message in the real world' % (a, want))
                st = ('msg', cands[0]) if a == 'Deliver' else ('dup', cands[0])
            elif a in ('JobCapture', 'JobInvoke', 'JobDelete'):
                phase = {'JobCapture': 'capture', 'JobInvoke': 'invoke', 'JobDelete': 'delete'}[a]
                en = [x for x in w.enabled() if x[0] == 'job' and x[2] == phase]
                rows = {r[0]: r for r in w._job_rows()}
                cands = []
                for x in en:
                    if x[1] in rows:
                        lab = _job_label(w, rows[x[1]], ids)
                    else:
                        j = w.jobs.get(x[1], {})
                        lab = (FUNCS.get(j.get('func'), j.get('func')), None)
                    if lab[0] == e['func'] and (lab[1] is None or lab[1] == e['t']):
                        cands.append(x)
                if not cands:
                    raise Mismatch('%s(%s %s): no such scheduler step enabled in the real world (enabled: %s)' % (a, e['func'], e['t'], en))
                st = cands[0]
            elif a == 'OpPause':
                st = ('op', 'pause', root_id[0])
            elif a == 'OpResume':
                st = ('op', 'resume', root_id[0])
            elif a == 'OpStop':
                st = ('op', 'stop', root_id[0], e['s'], 'stopped by operator')
            elif a in ('OpRerun', 'OpSkip'):
                tid = ids['tk'].get('r/%s#0' % e['t'])
                if tid is None:
                    raise Mismatch('%s(%s): no such task row in the real world' % (a, e['t']))
                st = ('op', 'rerun', tid, bool(e.get('reset', True)), a == 'OpSkip')
            elif a == 'Tick':
                st = ('tick', cur['now'])
            else:
                raise Mismatch('unknown model action %s' % a)
            ev = w.step(st)
            if a == 'StartWorkflow':
                root_id[0] = ev.get('result')
            obs, ids = record(ev)
            # the post-commit batch created by this step (at most one) is the model's new batch
            newb = [b for b in w.batches if b not in before_batches]
            pk = set(_key(x) for x in prev['ptq'])
            newm = [b for b in cur['ptq'] if _key(b) not in pk and not any(_key(dict(p, ops=p['ops'][1:])) == _key(b) for p in prev['ptq'])]
            if len(newb) == 1 and len(newm) == 1:
                bmap[newm[0]['id']] = newb[0]
            elif len(newb) != len(newm):
                raise Mismatch('step %d (%s): the model creates %d post-commit batch(es), the code %d' % (i, a, len(newm), len(newb)))
            diff = compare(cur, obs, w)
            if diff:
                raise Mismatch('after step %d (%s %s): %s' % (i, a, {k: v for k, v in e.items() if k != 'a'}, diff))
            followed = i
        if steps:
            en = w.enabled()
            steps[-1]['obs']['pend']['quiet'] = (not en and w.next_due() is None) or \
                (not en and all(r[3].endswith('_check_and_fix_integrity') for r in w._job_rows()))
    except Mismatch as mm:
        mismatch = str(mm)
    except OrderChoice as oc:
        order_choice = str(oc)
    finally:
        w.close()
    meta['steps'] = len(steps)
    meta['action_runs'] = list(w.action_runs)
    meta['model'] = {'followed': followed, 'of': len(states) - 1, 'mismatch': mismatch, 'order_choice': order_choice}
    return dict(prog=prog.abstract(), steps=steps, meta=meta, declared=engrun.declared_errors())


def _run_one(job):
    try:
        tr = run_behaviour(job['prog'], job['states'], seed=job.get('seed', 0))
        tr['meta']['label'] = job.get('label', '')
        tr['meta']['yaml'] = job['prog'].yaml()
        tr['meta']['ops'] = [{'op': s_['ev']['a'][2:].lower()} for s_ in job['states'][1:] if s_['ev']['a'] in ('OpPause', 'OpResume', 'OpStop')]
        tr['meta']['dups'] = sum(1 for s_ in job['states'][1:] if s_['ev']['a'] == 'Dup')
        return tr
    except Exception:
        import traceback
        return {'error': traceback.format_exc()[-2000:], 'meta': {'label': job.get('label', '')}}


def run_behaviours(jobs):
    import multiprocessing as mp
    from harness import engcheck
    if not jobs:
        return []
    with mp.get_context('spawn').Pool(max(2, common.NCPU - 2), initializer=engcheck._winit, initargs=(common.REPO,)) as pool:
        return pool.map(_run_one, jobs, chunksize=1)
