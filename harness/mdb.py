"""Boot a mistral process image on an in-memory sqlite database (as the unit tests do)."""
import os
import sys

from harness import common

_BOOTED = False


def boot(auth_enable=False):
    """Import mistral from the tree under test, configure it like the unit tests, create the
    schema in an in-memory sqlite database.  Idempotent."""
    global _BOOTED
    common.use_repo()
    from oslo_config import cfg
    from oslo_log import log as logging
    CONF = cfg.CONF
    if not _BOOTED:
        from mistral import config as mconfig  # noqa: registers options
        try:
            logging.register_options(CONF)
        except Exception:
            pass
        CONF(args=[], default_config_files=[])
        from mistral.db.v2 import api as db_api
        CONF.set_default('connection', 'sqlite://', group='database')
        CONF.set_default('max_overflow', -1, group='database')
        CONF.set_default('max_pool_size', 1000, group='database')
        CONF.set_override('only_builtin_actions', True, 'legacy_action_provider')
        CONF.set_override('load_action_generators', False, 'legacy_action_provider')
        db_api.setup_db()
        _BOOTED = True
    CONF.set_default('auth_enable', auth_enable, group='pecan')
    return CONF


def ctx(project='proj-A', admin=False, user='user-1'):
    from mistral import context as auth_context
    return auth_context.MistralContext.from_dict({
        'user_name': 'u-' + user, 'user': user, 'tenant': project, 'project_id': project,
        'project_name': 'p-' + project, 'is_admin': admin})


def set_ctx(c):
    from mistral import context as auth_context
    auth_context.set_ctx(c)


ALL_TABLES = ['workflow_executions_v2', 'task_executions_v2', 'action_executions_v2']


def raw_rows(sql, params=()):
    """Read committed rows bypassing every mistral filter."""
    from mistral.db.sqlalchemy import base as db_base
    import sqlalchemy as sa
    eng = db_base.get_engine()
    with eng.connect() as conn:
        return [tuple(r) for r in conn.execute(sa.text(sql), params)]


def wipe():
    """Delete every row of every table (admin, raw SQL)."""
    from mistral.db.sqlalchemy import base as db_base
    from mistral.db.sqlalchemy import sqlite_lock
    import sqlalchemy as sa
    eng = db_base.get_engine()
    insp = sa.inspect(eng)
    with eng.begin() as conn:
        for t in insp.get_table_names():
            if t in ('mistral_metrics', 'alembic_version'):
                continue     # framework tables (maintenance status): an empty one puts the API in maintenance mode
            conn.execute(sa.text('DELETE FROM %s' % t))
    try:
        sqlite_lock.cleanup()
    except Exception:
        pass
