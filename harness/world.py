"""Deterministic world for the mistral engine (DESIGN section 4.1).

A single-threaded driver owns every source of nondeterminism.  Replaced from outside (no change in
/repo): the RPC client driver class, threading.Thread as seen by engine/post_tx_queue.py, the system
scheduler singleton (real DefaultScheduler / LegacyScheduler objects that never start threads), the
clock, and the action class `verif.act`.  The real EngineClient/ExecutorClient marshalling,
EngineServer/ExecutorServer endpoints, DefaultEngine, DefaultExecutor, scheduler methods,
post_tx_queue._process_queue and everything below keep running unmodified.

Schedulable steps (one step = what the code commits atomically):
  ('msg', id)            deliver one RPC message (engine or executor endpoint)
  ('ptq', batch)         run the next post-commit operation of a batch
  ('job', id, phase)     capture / invoke / delete one scheduled job (default scheduler)
  ('lpoll',) ('linv',) ('ldel',)   legacy scheduler poll pass: capture / invoke next / delete all
  ('dup', id)            re-deliver a copy of an already delivered message
  ('tick',)              jump the clock to the next due time
  ('op', ...)            operator command (pause / resume / stop / rerun / skip)
  ('hb',)                heartbeat checker pass ; ('integrity', ...) are ordinary jobs
"""
import datetime
import json
import random
import threading
import traceback

from harness import mdb
from harness.schedworld import Gate, _TL, _in_tx

BASE = datetime.datetime(2030, 1, 1, 0, 0, 0)


class Msg(object):
    def __init__(self, mid, target, method, ctx, kwargs, sync, sender):
        self.id = mid
        self.target = target      # 'engine' | 'executor'
        self.method = method
        self.ctx = ctx            # serialized context dict
        self.kwargs = kwargs      # serialized kwargs
        self.sync = sync
        self.sender = sender
        self.delivered = 0
        self.dup_of = None


class Batch(object):
    def __init__(self, bid, target):
        self.id = bid
        self.target = target
        self.queue = None
        self.auth_ctx = None
        self.pos = 0
        self.dead = False
        cells = dict(zip(target.__code__.co_freevars, [c.cell_contents for c in (target.__closure__ or ())]))
        if 'queue' in cells:
            self.queue = list(cells['queue'])
            self.auth_ctx = cells.get('auth_ctx')

    def remaining(self):
        if self.dead:
            return 0
        if self.queue is None:
            return 1 if self.pos == 0 else 0
        return len(self.queue) - self.pos


class World(object):
    current = None

    def __init__(self, scheduler='default', seed=0, start_subwf_via_rpc=False, ids='rand', prims=False):
        CONF = mdb.boot()
        self.CONF = CONF
        World.current = self
        self.rnd = random.Random(seed)
        self.sched_kind = scheduler
        self.ids = ids               # order of generated row ids: 'rand' (uuid4) | 'asc' | 'desc' (creation order / reversed)
        self.id_counter = 0
        self.now = 0
        self.msgs = {}
        self.msg_order = []
        self.batches = {}
        self.next_id = 1
        self.events = []
        self.oracle = {}            # tag -> list of outcomes per attempt ('ok' | 'err' | ('ok', value))
        self.attempts = {}          # (tag, i) -> count
        self.action_runs = []       # (tag, i, attempt) actually executed by the executor
        self.step_exc = None
        self.withhold = set()       # tags of actions whose run_action request is not delivered (silent / slow executor)
        self.sync_delivered = []    # ids of messages served synchronously (candidates for redelivery)
        self.dispatched = {}        # action_ex id -> number of run_action messages created
        self.writes = []
        self.prims = []
        self.record_prims = prims
        self._install()

    # -- installation ----------------------------------------------------------------------
    def _install(self):
        CONF = self.CONF
        from oslo_utils import timeutils
        import mistral_lib.utils as lib_utils
        from mistral.rpc import base as rpc_base
        from mistral.rpc import clients as rpc_clients
        from mistral.engine import post_tx_queue
        from mistral.engine import default_engine, engine_server
        from mistral.executors import base as exe_base
        from mistral.executors import default_executor, executor_server
        from mistral.scheduler import base as sched_base
        from mistral.services import actions as action_service
        from mistral.lang import parser as spec_parser
        from mistral import context as auth_context
        from mistral_lib import actions as ml_actions
        self.auth_context = auth_context
        self.ml_actions = ml_actions
        self.lib_utils = lib_utils
        self.timeutils = timeutils
        self.spec_parser = spec_parser
        world = self
        CONF.set_override('type', 'remote', 'executor')
        CONF.set_override('scheduler_type', self.sched_kind)
        CONF.set_override('pickup_job_after', 1.0, 'scheduler')
        self._saved = dict(now=lib_utils.utc_now_sec, impl=rpc_base._IMPL_CLIENT, threading=post_tx_queue.threading,
                           sched=sched_base._SCHEDULER, sched_impl=sched_base._SCHEDULER_IMPL, uuid=lib_utils.generate_unicode_uuid)
        if self.ids in ('asc', 'desc'):
            # the engine reads sibling task rows in primary-key order: make that order a controlled schedule dimension
            def ordered_uuid():
                world.id_counter += 1
                n = world.id_counter if world.ids == 'asc' else (0xffffffff - world.id_counter)
                return '%08x-0000-4000-8000-%012x' % (n, world.rnd.getrandbits(48))
            lib_utils.generate_unicode_uuid = ordered_uuid
        lib_utils.utc_now_sec = lambda: BASE + datetime.timedelta(seconds=world.now)
        timeutils.set_time_override(BASE)
        mdb.wipe()
        spec_parser.clear_caches()

        ser = auth_context.RpcContextSerializer()
        self.ser = ser

        class WorldRPCClient(rpc_base.RPCClient):
            def __init__(self, conf):
                super(WorldRPCClient, self).__init__(conf)
                self.topic = conf.topic

            def _mk(self, ctx, method, sync, kwargs):
                target = 'executor' if self.topic == CONF.executor.topic else 'engine'
                cd = ser.serialize_context(ctx) if ctx is not None else {}
                if cd.get('redelivered'):
                    # "redelivered" is a property of one delivery (set by the transport), not of the sender's
                    # context: a message sent while handling a redelivered request is itself a first delivery
                    cd = dict(cd, redelivered=False)
                kw = {k: ser.serialize_entity(ctx, v) for k, v in kwargs.items()}
                return world._new_msg(target, method, cd, kw, sync)

            def sync_call(self, ctx, method, target=None, **kwargs):
                # a synchronous call is served by a thread of the receiving server while the caller
                # waits: run the delivery in a helper thread (own thread-locals: auth context,
                # post-commit queue), never inside the caller's stack
                m = self._mk(ctx, method, True, kwargs)
                if method in ('on_action_complete', 'start_workflow'):
                    world.sync_delivered.append(m.id)
                box = {}

                def serve():
                    try:
                        box['r'] = world._deliver(m, nested=True)
                    except BaseException as e:   # noqa
                        box['e'] = e
                    finally:
                        auth_context.set_ctx(None)

                if _in_tx():
                    raise RuntimeError('synchronous RPC issued inside an open transaction')
                th = threading.Thread(target=serve, daemon=True)
                th.start()
                th.join(60)
                if th.is_alive():
                    raise RuntimeError('nested synchronous delivery did not finish')
                if 'e' in box:
                    raise box['e']
                return box.get('r')

            def async_call(self, ctx, method, target=None, fanout=False, **kwargs):
                self._mk(ctx, method, False, kwargs)
                return None

        rpc_base._IMPL_CLIENT = WorldRPCClient
        rpc_clients.cleanup()
        rpc_base._IMPL_CLIENT = WorldRPCClient
        exe_base.cleanup()

        class FakeThread(object):
            def __init__(self, target=None, args=(), kwargs=None, **kw):
                self.target = target

            def start(self):
                world._new_batch(self.target)

            daemon = True

        class FakeThreading(object):
            Thread = FakeThread

            def __getattr__(self, n):
                return getattr(threading, n)

        post_tx_queue.threading = FakeThreading()
        self.post_tx_queue = post_tx_queue

        # scheduler singleton: a real object whose threads are never started
        sched_base._SCHEDULER_IMPL = None
        sched_base._SCHEDULER = None
        if self.sched_kind == 'default':
            from mistral.scheduler import default_scheduler
            s = default_scheduler.DefaultScheduler(CONF.scheduler)
        else:
            from mistral.services import legacy_scheduler
            s = legacy_scheduler.LegacyScheduler(CONF.scheduler)
        sched_base._SCHEDULER = s
        self.sched = s
        self.sched_base = sched_base
        self.jobs = {}            # job db id -> dict(gate, phase)
        self.lpoll = None         # legacy poll gate
        self._wrap_scheduler(s)

        # the oracle-driven test action
        from harness.verif_actions import VerifAction
        action_service.get_test_action_provider().register_python_action('verif.act', VerifAction)
        self.action_service = action_service
        action_service.get_system_action_provider()

        self.engine = default_engine.DefaultEngine()
        self.engine_server = engine_server.EngineServer(self.engine, setup_profiler=False)
        self.executor_server = executor_server.ExecutorServer(default_executor.DefaultExecutor(), setup_profiler=False)
        self.engine_client = rpc_clients.get_engine_client()
        self._listen_sql()
        # exceptions that the post-commit queue and the schedulers catch and only log (the run goes on without them):
        # they are part of what a step did
        self.swallowed = []
        import sys as _sys
        self._log_patches = []
        for modname in ('mistral.engine.post_tx_queue', 'mistral.scheduler.default_scheduler', 'mistral.services.legacy_scheduler'):
            try:
                mod = __import__(modname, fromlist=['LOG'])
            except ImportError:
                continue
            lg = mod.LOG
            orig = lg.exception

            def swallow(msg, *a, **kw):
                et = _sys.exc_info()[0]
                world.swallowed.append(et.__name__ if et else 'unknown')
            self._log_patches.append((lg, orig))
            try:
                lg.exception = swallow
            except Exception:
                pass
        if self.record_prims:
            from harness import primitives
            primitives.install(self)

    def close(self):
        from mistral.rpc import base as rpc_base
        from mistral.rpc import clients as rpc_clients
        for j in self.jobs.values():
            g = j.get('gate')
            if g is not None and not g.done:
                g.abandon()
        if self.lpoll is not None and not self.lpoll.done:
            self.lpoll.abandon()
        if self.record_prims:
            from harness import primitives
            primitives.uninstall()
        for lg, orig in getattr(self, '_log_patches', []):
            try:
                del lg.exception
            except Exception:
                try:
                    lg.exception = orig
                except Exception:
                    pass
        self.lib_utils.utc_now_sec = self._saved['now']
        self.lib_utils.generate_unicode_uuid = self._saved['uuid']
        rpc_base._IMPL_CLIENT = self._saved['impl']
        self.post_tx_queue.threading = self._saved['threading']
        self.sched_base._SCHEDULER = None
        self.sched_base._SCHEDULER_IMPL = None
        rpc_clients.cleanup()
        self.timeutils.clear_time_override()
        self._unlisten_sql()
        try:
            self.action_service.get_test_action_provider().cleanup()
        except Exception:
            pass
        for opt, grp in (('type', 'executor'), ('scheduler_type', None), ('pickup_job_after', 'scheduler')):
            self.CONF.clear_override(opt, grp)
        self.auth_context.set_ctx(None)
        World.current = None

    # -- SQL-level observation of state writes ------------------------------------------------
    def _listen_sql(self):
        from mistral.db.sqlalchemy import base as db_base
        from sqlalchemy import event
        eng = db_base.get_engine()
        world = self

        def before(conn, cursor, statement, parameters, context, executemany):
            s = statement.lstrip()
            if s[:6].upper() == 'UPDATE' and 'state' in s:
                world.writes.append((s, parameters))

        self._sql_listener = before
        self._sql_engine = eng
        event.listen(eng, 'before_cursor_execute', before)

    def _unlisten_sql(self):
        from sqlalchemy import event
        try:
            event.remove(self._sql_engine, 'before_cursor_execute', self._sql_listener)
        except Exception:
            pass

    # -- messages ------------------------------------------------------------------------------
    def _new_msg(self, target, method, ctx, kwargs, sync):
        mid = self.next_id
        self.next_id += 1
        m = Msg(mid, target, method, ctx, kwargs, sync, None)
        self.msgs[mid] = m
        if method == 'run_action' and kwargs.get('action_ex_id'):
            self.dispatched[kwargs['action_ex_id']] = self.dispatched.get(kwargs['action_ex_id'], 0) + 1
        if not sync:
            self.msg_order.append(mid)
        return m

    def _new_batch(self, target):
        bid = self.next_id
        self.next_id += 1
        self.batches[bid] = Batch(bid, target)

    def _deliver(self, m, nested=False, redelivered=False):
        ser = self.ser
        m.delivered += 1
        cd = dict(m.ctx)
        if redelivered:
            cd['redelivered'] = True
        ctx = ser.deserialize_context(dict(cd)) if cd else None
        if ctx is None:
            self.auth_context.set_ctx(None)
        kw = {k: ser.deserialize_entity(ctx, v) for k, v in m.kwargs.items()}
        server = self.executor_server if m.target == 'executor' else self.engine_server
        try:
            res = getattr(server, m.method)(ctx, **kw)
        finally:
            if not nested:
                self.auth_context.set_ctx(None)
        if m.sync:
            return ser.deserialize_entity(ctx, ser.serialize_entity(ctx, res))
        return None

    def _action_outcome(self, tag, i, echo):
        k = (tag, i)
        n = self.attempts.get(k, 0)
        self.attempts[k] = n + 1
        self.action_runs.append((tag, i, n))
        seq = self.oracle.get(tag, ['ok'])
        if isinstance(seq, dict):
            seq = seq.get(i, seq.get('*', ['ok']))
        o = seq[min(n, len(seq) - 1)]
        if o == 'err':
            return self.ml_actions.Result(error='E:%s:%s:%d' % (tag, i, n))
        if o == 'cancel':
            # (the action reports that it was cancelled: the task and - unless handled - the execution become CANCELLED)
            return self.ml_actions.Result(error='C:%s:%s:%d' % (tag, i, n), cancel=True)
        if o == 'raise':
            raise RuntimeError('boom:%s' % tag)
        val = {'r': 'R:%s:%s' % (tag, i), 'echo': echo} if echo is not None else 'R:%s:%s' % (tag, i)
        return self.ml_actions.Result(data=val)

    # -- scheduler ------------------------------------------------------------------------------
    def _wrap_scheduler(self, s):
        world = self
        if self.sched_kind == 'default':
            oc, oi, od = s._capture_scheduled_job, s._invoke_job, s._delete_scheduled_job

            def capture(job):
                g = getattr(_TL, 'gate', None)
                if g is not None and not _in_tx():
                    g.park('capture', job.id)
                return oc(job)

            def invoke(auth_ctx, func, args):
                g = getattr(_TL, 'gate', None)
                if g is not None:
                    g.park('invoke', None)
                return oi(auth_ctx, func, args)

            def delete(job):
                g = getattr(_TL, 'gate', None)
                if g is not None and not _in_tx():
                    g.park('delete', job.id)
                return od(job)

            s._capture_scheduled_job, s._invoke_job, s._delete_scheduled_job = capture, invoke, delete
        else:
            oc, oi, od = s._capture_calls, s._invoke_calls, s.delete_calls
            names = []
            largs = []
            self._legacy_args = largs

            def capture(batch_size):
                calls = oc(batch_size)
                del names[:]
                del largs[:]
                names.extend([c.target_method_name.split('.')[-1] for c in calls])
                largs.extend([dict(c.method_arguments or {}) for c in calls])
                return calls

            def invoke(prepared):
                g = getattr(_TL, 'gate', None)
                for k, one in enumerate(prepared):
                    if g is not None:
                        g.park('invoke', (names[k], k) if k < len(names) else None)
                    oi([one])

            def delete(db_calls):
                g = getattr(_TL, 'gate', None)
                if g is not None and not _in_tx():
                    g.park('delete', None)
                return od(db_calls)

            s._capture_calls = capture
            s._invoke_calls, s.delete_calls = invoke, delete

    def _job_rows(self):
        if self.sched_kind == 'default':
            return mdb.raw_rows('select id, execute_at, captured_at, func_name, key, func_args from scheduled_jobs_v2')
        return mdb.raw_rows('select id, execution_time, processing, target_method_name, key, method_arguments from delayed_calls_v2')

    def _vt(self, s):
        if s is None:
            return None
        if isinstance(s, str):
            s = datetime.datetime.strptime(s.split('.')[0], '%Y-%m-%d %H:%M:%S')
        return int((s - BASE).total_seconds())

    # -- enabled steps ----------------------------------------------------------------------------
    def enabled(self):
        out = []
        for mid in self.msg_order:
            m = self.msgs[mid]
            if m.delivered == 0 and not self._withheld(m):
                out.append(('msg', mid))
        for bid, b in self.batches.items():
            if b.remaining() > 0:
                out.append(('ptq', bid))
        if self.sched_kind == 'default':
            for (jid, ex, cap, fn, key, args) in self._job_rows():
                j = self.jobs.get(jid)
                if j is None:
                    if self._vt(ex) <= self.now and cap is None:
                        out.append(('job', jid, 'capture'))
                else:
                    g = j['gate']
                    if not g.done and g.at is not None:
                        out.append(('job', jid, g.at[0]))
            for jid, j in self.jobs.items():
                g = j['gate']
                if not g.done and g.at is not None and ('job', jid, g.at[0]) not in out:
                    out.append(('job', jid, g.at[0]))
        else:
            if self.lpoll is None or self.lpoll.done:
                if any(self._vt(ex) <= self.now and not proc for (jid, ex, proc, fn, key, args) in self._job_rows()):
                    out.append(('lpoll',))
            elif self.lpoll.at is not None:
                out.append(('linv',) if self.lpoll.at[0] == 'invoke' else ('ldel',))
        return out

    def _withheld(self, m):
        if m.method != 'run_action' or not self.withhold:
            return False
        # (the action travels serialised, possibly several levels deep: compare without the escaping)
        txt = json.dumps(m.kwargs.get('action'), default=str).replace('\\', '')
        return any(('"tag": "%s"' % t) in txt or ("'tag': '%s'" % t) in txt for t in self.withhold)

    def withheld_action_ids(self):
        return [m.kwargs.get('action_ex_id') for m in self.msgs.values()
                if m.method == 'run_action' and m.delivered == 0 and self._withheld(m)]

    def next_due(self):
        """Earliest future time at which a job becomes due (None if none)."""
        ts = []
        for row in self._job_rows():
            t = self._vt(row[1])
            if t > self.now and (row[2] is None or row[2] in (0, False)):
                ts.append(t)
        return min(ts) if ts else None

    def pending_counts(self):
        msgs = sum(1 for mid in self.msg_order if self.msgs[mid].delivered == 0)
        ptq = sum(b.remaining() for b in self.batches.values())
        due = later = running = 0
        for row in self._job_rows():
            t = self._vt(row[1])
            if self.sched_kind == 'default':
                if row[0] in self.jobs and not self.jobs[row[0]]['gate'].done:
                    running += 1
                elif t <= self.now:
                    due += 1
                else:
                    later += 1
            else:
                if row[2]:
                    running += 1
                elif t <= self.now:
                    due += 1
                else:
                    later += 1
        return dict(msgs=msgs, ptq=ptq, jobsDue=due, jobsLater=later, running=running)

    # -- performing a step --------------------------------------------------------------------------
    def step(self, st):
        """Perform one step.  Returns an event dict (kind, args, exc)."""
        self.writes = []
        del self.prims[:]
        del self.swallowed[:]
        kind = st[0]
        ev = {'kind': kind, 'exc': 'none'}
        try:
            if kind == 'msg':
                m = self.msgs[st[1]]
                ev.update(method=m.method, target=m.target, mid=m.id, dup=False, args=self._msg_args(m))
                self._deliver(m)
            elif kind == 'dup':
                m = self.msgs[st[1]]
                ev.update(kind='msg', method=m.method, target=m.target, mid=m.id, dup=True, args=self._msg_args(m))
                self._deliver(m, redelivered=(m.target == 'executor'))
            elif kind == 'ptq':
                b = self.batches[st[1]]
                ev.update(batch=b.id)
                self._run_ptq(b, ev)
            elif kind == 'job':
                self._job_step(st[1], st[2], ev)
            elif kind == 'lpoll':
                g = Gate('lpoll', self.sched._process_delayed_calls)
                self.lpoll = g
                g.start()
                ev.update(kind='lpoll')
            elif kind in ('linv', 'ldel'):
                if kind == 'linv' and self.lpoll.at and self.lpoll.at[1]:
                    nm_, k_ = self.lpoll.at[1]
                    ev['func'] = nm_
                    la = getattr(self, '_legacy_args', [])
                    if k_ < len(la) and la[k_].get('task_ex_id'):
                        ev['args'] = {'task_ex_id': la[k_]['task_ex_id']}
                self.lpoll.step()
                if self.lpoll.error is not None:
                    ev['exc'] = type(self.lpoll.error).__name__
            elif kind == 'tick':
                nd = st[1] if len(st) > 1 else self.next_due()
                if nd is not None and nd < self.now:
                    nd = self.now
                if nd is not None:
                    self.now = nd
                    self.timeutils.set_time_override(BASE + datetime.timedelta(seconds=self.now))
                ev.update(to=self.now)
            elif kind == 'op':
                ev.update(op=st[1], args=list(st[2:]))
                self._operator(st, ev)
            elif kind == 'heartbeat':
                self.auth_context.set_ctx(mdb.ctx('proj-A'))
                self.engine_client.process_action_heartbeats(list(st[1]))
                ev.update(n=len(st[1]))
            elif kind == 'dropjob':
                n = 0
                tbl, col = ('scheduled_jobs_v2', 'func_name') if self.sched_kind == 'default' else ('delayed_calls_v2', 'target_method_name')
                rows = mdb.raw_rows("select id from %s where %s like '%%%s%%'" % (tbl, col, st[1]))
                for (jid,) in (rows if (len(st) > 2 and st[2] == 'all') else rows[:1]):
                    from mistral.db.sqlalchemy import base as db_base
                    import sqlalchemy as sa
                    with db_base.get_engine().begin() as conn:
                        conn.execute(sa.text("delete from %s where id = :i" % tbl), {'i': jid})
                    if self.sched_kind == 'default':
                        self.sched.in_memory_jobs.pop(jid, None)
                    n += 1
                ev.update(n=n)
            elif kind == 'hb':
                from mistral.services import action_heartbeat_checker as hbc
                hbc.handle_expired_actions()
            elif kind == 'evict':
                self.spec_parser.clear_caches()
            else:
                raise ValueError(st)
        except BaseException as e:   # noqa
            ev['exc'] = type(e).__name__
            ev['exc_msg'] = str(e)[:300]
            ev['tb'] = traceback.format_exc()[-1500:]
        finally:
            self.auth_context.set_ctx(None)
        ev['now'] = self.now
        ev['swallowed'] = sorted(set(self.swallowed))
        ev['nwrites'] = len(self.writes)
        self.events.append(ev)
        return ev

    def _msg_args(self, m):
        out = {}
        for k, v in m.kwargs.items():
            if k in ('task_ex_id', 'action_ex_id', 'wf_ex_id', 'first_run', 'waiting', 'rerun', 'reset', 'wf_action', 'state',
                     'wf_identifier'):
                out[k] = v
        return out

    def _run_ptq(self, b, ev):
        if b.queue is None:
            b.pos = 1
            b.target()
            return
        op = b.queue[b.pos]
        b.pos += 1
        func = op[0]
        ev['op'] = getattr(func, '__name__', str(func)).lstrip('_')
        ev['in_tx'] = bool(op[2])
        # which row the operation is about (read from the closure the engine registered; best effort)
        try:
            if ev['op'] == 'start_task' and func.__defaults__:
                ev['args'] = {'task_ex_id': func.__defaults__[0].task_ex.id, 'first_run': bool(func.__defaults__[1])}
            elif ev['op'] == 'schedule_if_needed' and op[1]:
                ev['args'] = {'task_ex_id': op[1][0]}
            elif ev['op'] == 'run_action':
                cells = dict(zip(func.__code__.co_freevars, [c.cell_contents for c in (func.__closure__ or ())]))
                if cells.get('action_ex_id'):
                    ev['args'] = {'action_ex_id': cells['action_ex_id']}
        except Exception:
            pass
        old = self.auth_context.ctx() if self.auth_context.has_ctx() else None
        self.auth_context.set_ctx(b.auth_ctx)
        try:
            self.post_tx_queue._process_queue([op])
        except BaseException:
            # as in _process_queue: an exception in a transactional operation aborts the batch
            b.dead = True
            raise
        finally:
            self.auth_context.set_ctx(old)

    def _job_step(self, jid, phase, ev):
        ev.update(job=jid, phase=phase)
        if phase == 'capture' and jid not in self.jobs:
            from mistral.db.v2 import api as db_api
            # the in-memory copy when this instance scheduled the job (memory path), else the row
            job = self.sched.in_memory_jobs.get(jid)
            if job is None:
                job = db_api.get_scheduled_job(jid)
            ev['func'] = job.func_name.split('.')[-1]
            ev['key'] = job.key
            fa = dict(getattr(job, 'func_args', None) or {})
            self._job_args = getattr(self, '_job_args', {})
            self._job_args[jid] = fa
            g = Gate('job-%s' % jid, (lambda: self.sched._process_memory_job(job)))
            self.jobs[jid] = dict(gate=g, func=ev['func'], key=job.key)
            g.start()          # parks at capture
        j = self.jobs[jid]
        ev['func'] = j['func']
        ev['key'] = j['key']
        fa = getattr(self, '_job_args', {}).get(jid) or {}
        if fa.get('task_ex_id'):
            ev['args'] = {'task_ex_id': fa['task_ex_id']}
        g = j['gate']
        if g.done or g.at is None or g.at[0] != phase:
            raise RuntimeError('job %s is not at phase %s' % (jid, phase))
        g.step()
        if g.error is not None:
            ev['exc'] = type(g.error).__name__

    def _operator(self, st, ev):
        op = st[1]
        self.auth_context.set_ctx(mdb.ctx('proj-A'))
        c = self.engine_client
        if op == 'start':
            wf, inp, params = st[2], st[3], (st[4] if len(st) > 4 else {})
            import uuid
            params = dict(params)
            ns = params.pop('__namespace', '')
            r = c.start_workflow(wf, ns, str(uuid.UUID(int=self.rnd.getrandbits(128))), inp, **params)
            ev['result'] = r.id if hasattr(r, 'id') else (r or {}).get('id')
        elif op == 'pause':
            c.pause_workflow(st[2])
        elif op == 'resume':
            c.resume_workflow(st[2])
        elif op == 'stop':
            c.stop_workflow(st[2], st[3], st[4] if len(st) > 4 else None)
        elif op == 'rerun':
            c.rerun_workflow(st[2], reset=st[3], skip=(st[4] if len(st) > 4 else False))
        else:
            raise ValueError(op)

    def insert_orphan_actions(self, n, project='proj-A'):
        """n RUNNING synchronous action executions that belong to no task (what `run_action` with save_result leaves behind
        when its executor dies), with a heartbeat long overdue: the heartbeat checker can never process them."""
        from mistral.db.v2 import api as db_api
        self.auth_context.set_ctx(mdb.ctx(project))
        try:
            with db_api.transaction():
                for k in range(n):
                    db_api.create_action_execution({
                        'name': 'std.noop', 'state': 'RUNNING', 'is_sync': True, 'input': {}, 'runtime_context': {},
                        'last_heartbeat': BASE - datetime.timedelta(seconds=1000 + k), 'description': 'orphan %d' % k})
        finally:
            self.auth_context.set_ctx(None)

    # -- definitions --------------------------------------------------------------------------------
    def define_workbook(self, yaml_text, project='proj-A', namespace=''):
        from mistral.services import workbooks as wb_service
        self.auth_context.set_ctx(mdb.ctx(project))
        try:
            return wb_service.create_workbook_v2(yaml_text, namespace=namespace)
        finally:
            self.auth_context.set_ctx(None)

    def define(self, yaml_text, project='proj-A', namespace=''):
        from mistral.services import workflows as wf_service
        self.auth_context.set_ctx(mdb.ctx(project))
        try:
            return wf_service.create_workflows(yaml_text, namespace=namespace)
        finally:
            self.auth_context.set_ctx(None)
