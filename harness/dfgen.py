"""Data-flow programs for C05: fork/join graphs whose tasks publish a small set of variables
(task-level publish / publish-on-error, transition-level branch and global publish; scalar,
one-level and two-level nested values; YAQL and Jinja renderings) and whose every action echoes the value of
every variable it can see.  A published value names its publisher: "p:<task>:<how>" - so the
projection can say who wrote what a task sees."""
import json

from harness import gen

VARS = ['x0', 'x1', 'x2']
GVARS = ['g0']
KEYS = ['k', 'm']


def _lit(rnd, text, jinja_ok=True):
    """A string constant, written as YAQL, as Jinja or as a plain YAML literal."""
    r = rnd.random()
    if r < 0.4:
        return "<% '" + text + "' %>"
    if r < 0.6 and jinja_ok:
        return "{{ '" + text + "' }}"
    return text


class DFProgram(gen.Program):
    def __init__(self):
        super(DFProgram, self).__init__()
        self.vars = list(VARS)
        self.gvars = list(GVARS)

    def _probe_expr(self):
        parts = ', '.join("%s => $.get('%s')" % (v, v) for v in self.vars + self.gvars)
        return '<% dict(' + parts + ') %>'

    def _yaml_wf(self, nm):
        L = ['%s:' % nm, '  type: direct', '  input:']
        for k, v in sorted(self.input.items()):
            L.append('    - %s: %s' % (k, json.dumps(v)))
        L.append('  output:')
        for v in self.vars + self.gvars:
            L.append('    %s: "<%% $.get(\'%s\') %%>"' % (v, v))
        L.append('  tasks:')
        for t in self.order:
            d = self.tasks[t]
            L.append('    %s:' % t)
            L.append('      action: verif.act')
            L.append('      input:')
            L.append('        tag: %s' % t)
            L.append('        echo: %s' % json.dumps(self._probe_expr()))
            if d.get('join'):
                L.append('      join: all')
            for key, word in (('publish', 'publish'), ('publish_err', 'publish-on-error')):
                if d.get(key):
                    L.append('      %s:' % word)
                    for k, v in sorted(d[key].items()):
                        L.append('        %s: %s' % (k, json.dumps(v['yaml'])))
            for clause, key in (('on-success', 'succ'), ('on-error', 'err'), ('on-complete', 'comp')):
                edges = d.get(key) or []
                tp = d.get('tpub_' + key)
                if not edges and not tp:
                    continue
                L.append('      %s:' % clause)
                ind = '        '
                if tp:
                    L.append('        publish:')
                    for scope in ('branch', 'global'):
                        if tp.get(scope):
                            L.append('          %s:' % scope)
                            for k, v in sorted(tp[scope].items()):
                                L.append('            %s: %s' % (k, json.dumps(v['yaml'])))
                    L.append('        next:')
                    ind = '          '
                    if not edges:
                        L.append('          - noop')
                for e in edges:
                    if e.get('expr'):
                        L.append('%s- %s: %s' % (ind, e['to'], json.dumps(e['expr'])))
                    else:
                        L.append('%s- %s' % (ind, e['to']))
        L.append('')
        return L

    def abstract(self):
        a = super(DFProgram, self).abstract()
        allv = self.vars + self.gvars

        def rec(dct):
            return {v: (gen_canon(dct[v]['value']) if dct and v in dct else '') for v in allv}

        for t in self.order:
            d = self.tasks[t]
            x = a['tasks'][t]
            x['pubOk'] = rec(d.get('publish'))
            x['pubErr'] = rec(d.get('publish_err'))
            for key in ('succ', 'err', 'comp'):
                tp = d.get('tpub_' + key) or {}
                x['tb_' + key] = rec(tp.get('branch'))
                x['tg_' + key] = rec(tp.get('global'))
            def union(*recs):
                out = {v: '' for v in allv}
                for r_ in recs:
                    for v, val in r_.items():
                        if val:
                            out[v] = val
                return out
            # what the task publishes when it ends SUCCESS / ERROR (the generator never lets two mechanisms of one
            # task publish the same variable)
            x['bS'] = union(x['pubOk'], x['tb_succ'], x['tb_comp'])
            x['bE'] = union(x['pubErr'], x['tb_err'], x['tb_comp'])
            x['dS'] = {v: x['bS'][v].startswith('{') for v in allv}
            x['dE'] = {v: x['bE'][v].startswith('{') for v in allv}
            x['gS'] = union(x['tg_succ'], x['tg_comp'])
            x['gE'] = union(x['tg_err'], x['tg_comp'])
            # a task-level (or on-complete) publish next to an on-<state> clause that publishes only globally
            def glob_only(key):
                tp = d.get('tpub_' + key) or {}
                return bool(tp.get('global')) and not tp.get('branch')
            x['mixS'] = bool((d.get('publish') or (d.get('tpub_comp') or {}).get('branch')) and glob_only('succ'))
            x['mixE'] = bool((d.get('publish_err') or (d.get('tpub_comp') or {}).get('branch')) and glob_only('err'))
        a['vars'] = list(self.vars)
        a['gvars'] = list(self.gvars)
        a['inputVals'] = {v: (gen_canon(self.input[v]) if v in self.input else 'null') for v in allv}
        return a


def gen_canon(v):
    return json.dumps(v, sort_keys=True)


def _value(rnd, t, how, nested_p, keyset=None, deep=False):
    """(yaml form, python value)"""
    text = 'p:%s:%s' % (t, how)
    if rnd.random() < nested_p:
        ks = keyset or rnd.choice([['k'], ['m'], ['k', 'm'], ['k', 'm']])
        if deep:
            # two levels of nesting: x = {k: {d: <text>}, ...} (leaf paths of length 3)
            val = {k: {'d': text} for k in ks}
            if rnd.random() < 0.35:
                y = '<% dict(' + ', '.join("%s => dict(d => '%s')" % (k, text) for k in ks) + ') %>'
            else:
                y = {k: {'d': _lit(rnd, text)} for k in ks}
            return {'yaml': y, 'value': val}
        val = {k: text for k in ks}
        r = rnd.random()
        if r < 0.35:
            y = '<% dict(' + ', '.join("%s => '%s'" % (k, text) for k in ks) + ') %>'
        else:
            y = {k: _lit(rnd, text) for k in ks}
        return {'yaml': y, 'value': val}
    return {'yaml': _lit(rnd, text), 'value': text}


def gen_dataflow(rnd, n=None, nested_p=0.0, p_err=0.2, p_tpub=0.25, p_global=0.15, p_pub=0.55, homogeneous=False, deep=False):
    base = gen.gen_direct(rnd, n=n or rnd.randint(3, 6), partial_joins=False, p_join=1.0, p_cmd=0.0, allow_cmd=False, p_err=p_err,
                          p_guard=0.2, p_comp=0.25)
    P = DFProgram()
    P.order = list(base.order)
    P.tasks = base.tasks
    P.oracle = base.oracle
    P.flags = dict(base.flags, dataflow=True)
    P.input = dict(base.input)
    if rnd.random() < 0.6:
        P.input['x0'] = 'in:x0'
    keyset = rnd.choice([['k'], ['k', 'm']]) if homogeneous else None
    np_ = nested_p
    shape_nested = homogeneous and rnd.random() < nested_p * 2
    for t in P.order:
        d = P.tasks[t]
        # one edge per (source, target): a target named by on-success / on-error and again by on-complete would run twice
        named = set(e['to'] for key in ('succ', 'err') for e in (d.get(key) or []))
        d['comp'] = [e for e in (d.get('comp') or []) if e['to'] not in named]
        fails = (P.oracle.get(t) or ['ok'])[-1] == 'err'

        def val(how):
            if homogeneous:
                return _value(rnd, t, how, 1.0 if shape_nested else 0.0, keyset, deep=deep)
            return _value(rnd, t, how, np_)

        free = list(P.vars)
        rnd.shuffle(free)
        if rnd.random() < p_pub:
            vs = [free.pop() for _ in range(rnd.randint(1, 2))]
            d['publish'] = {v: val('ok') for v in vs}
        if fails and rnd.random() < 0.6:
            vs = rnd.sample(P.vars, rnd.randint(1, 2))
            d['publish_err'] = {v: val('err') for v in vs if v in free or v not in (d.get('publish') or {})}
        used_err = set(d.get('publish_err') or {})
        for key in ('succ', 'err', 'comp'):
            if rnd.random() < p_tpub and (d.get(key) or key == 'succ'):
                tp = {}
                cand = [v for v in free if v not in used_err]
                if rnd.random() < 0.75 and cand:
                    v = cand[0]
                    free.remove(v)
                    tp['branch'] = {v: val('t' + key)}
                if rnd.random() < p_global / max(p_tpub, 0.01) or not tp:
                    tp['global'] = {g: _value(rnd, t, 'g' + key, 0.0) for g in P.gvars}
                d['tpub_' + key] = tp
    return P


def catalogue():
    """Fixed data-flow shapes: a variable published upstream of a fork, re-published inside ONE branch, merged at a
    join (and in the workflow output) - for every value kind (scalar, one-level, two-level nested) and for either
    branch being the re-publisher.  Together with the controlled id order of the world (ids = asc / desc) both
    fold orders of the version merge are exercised deterministically."""
    import random as _r
    out = []
    for kind in ('scalar', 'nested', 'deep'):
        for who in ('a', 'b'):
            # (tail = 'both': the tasks that feed the join are created when their own predecessors complete, so the order of their rows -
            #  and with it the base of the merge - follows the order in which the two branches make progress)
            for tail in (False, True, 'both'):
                P = DFProgram()
                P.order = ['r', 'a', 'b'] + (['a2'] if tail else []) + (['b2'] if tail == 'both' else []) + ['j']
                P.tasks = {'r': {'kind': 'action', 'succ': [{'to': 'a'}, {'to': 'b'}], 'err': [], 'comp': []},
                           'a': {'kind': 'action', 'succ': [{'to': 'a2' if tail else 'j'}], 'err': [], 'comp': []},
                           'b': {'kind': 'action', 'succ': [{'to': 'b2' if tail == 'both' else 'j'}], 'err': [], 'comp': []},
                           'j': {'kind': 'action', 'join': -1, 'succ': [], 'err': [], 'comp': []}}
                if tail:
                    P.tasks['a2'] = {'kind': 'action', 'succ': [{'to': 'j'}], 'err': [], 'comp': []}
                if tail == 'both':
                    P.tasks['b2'] = {'kind': 'action', 'succ': [{'to': 'j'}], 'err': [], 'comp': []}
                P.oracle = {t: ['ok'] for t in P.order}
                P.flags = {'dataflow': True}
                rnd = _r.Random(1)

                def val(t):
                    if kind == 'scalar':
                        return _value(rnd, t, 'ok', 0.0)
                    return _value(rnd, t, 'ok', 1.0, ['k', 'm'], deep=(kind == 'deep'))
                P.tasks['r']['publish'] = {'x0': val('r'), 'x1': val('r')}
                P.tasks[who]['publish'] = {'x0': val(who)}
                out.append(('df_%s_%s%s' % (kind, who, '_tails' if tail == 'both' else '_tail' if tail else ''), P))
    return out
