"""Drive one generated program through the real engine under a schedule policy and record the trace
(event + projected observable state after every step)."""
import hashlib
import json
import random
import re

from harness import project
from harness import world as world_mod

_UPD = re.compile(r'^UPDATE\s+(\w+)\s+SET\s+(.*?)\s+WHERE\s+(.*)$', re.S | re.I)


def parse_writes(writes, ids):
    """Decode state writes from the UPDATE statements seen during one step."""
    out = []
    for stmt, params in writes:
        m = _UPD.match(stmt)
        if not m:
            continue
        table = m.group(1)
        if table not in ('workflow_executions_v2', 'task_executions_v2', 'action_executions_v2'):
            continue
        sets = [x.split('=')[0].strip() for x in m.group(2).split(',')]
        wh = re.findall(r'(?:\w+\.)?(\w+)\s*(?:=|IS)\s*\?', m.group(3))
        plist = list(params) if isinstance(params, (list, tuple)) else []
        if len(plist) < len(sets):
            continue
        vals = dict(zip(sets, plist[:len(sets)]))
        wvals = dict(zip(wh, plist[len(sets):]))
        if 'state' not in vals:
            continue
        rid = wvals.get('id')
        kind = {'workflow_executions_v2': 'wf', 'task_executions_v2': 'tk', 'action_executions_v2': 'ax'}[table]
        sid = ids['%s_rev' % kind].get(rid, '?')
        out.append({'kind': kind, 'sid': sid, 'to': vals['state'], 'frm': wvals.get('state', '') or ''})
    return out


class Policy(object):
    """Chooses the next step among the enabled ones."""

    def __init__(self, name, rnd, **kw):
        self.name = name
        self.rnd = rnd
        self.kw = kw

    def choose(self, en, w):
        rnd = self.rnd
        if self.name == 'random':
            return rnd.choice(en)
        if self.name == 'starve_jobs':     # scheduler steps only when nothing else is enabled
            other = [e for e in en if e[0] not in ('job', 'lpoll', 'linv', 'ldel')]
            return rnd.choice(other or en)
        if self.name == 'jobs_first':
            jobs = [e for e in en if e[0] in ('job', 'lpoll', 'linv', 'ldel')]
            return rnd.choice(jobs or en)
        if self.name == 'starve_ptq':      # post-commit operations last (results race their follow-ups)
            other = [e for e in en if e[0] != 'ptq']
            return rnd.choice(other or en)
        if self.name == 'results_first':   # deliver action results back-to-back before anything else
            res = [e for e in en if e[0] == 'msg' and w.msgs[e[1]].method in ('on_action_complete', 'run_action')]
            return rnd.choice(res or en)
        if self.name == 'time_races':      # let the clock run ahead of pending work now and then
            if rnd.random() < 0.2 and w.next_due() is not None:
                return ('tick',)
            return rnd.choice(en)
        if self.name == 'fifo':
            return en[0]
        if self.name == 'lifo':
            return en[-1]
        return rnd.choice(en)


POLICIES = ['random', 'random', 'starve_jobs', 'jobs_first', 'starve_ptq', 'results_first', 'fifo', 'lifo']


def run_program(prog, scheduler='default', policy='random', seed=0, ops=None, dups=0, max_steps=400, evict=False,
                declared=None, c20=None, ids='rand', prims=False):
    """ops: list of (at_step, op tuple factory) operator commands; dups: number of messages to re-deliver."""
    rnd = random.Random(seed)
    w = world_mod.World(scheduler=scheduler, seed=seed, ids=ids, prims=prims)
    steps = []
    meta = dict(scheduler=scheduler, policy=policy, seed=seed, dups=dups, evict=evict, ids=ids,
                mayPause=bool(ops) or bool(prog.flags.get('pause')), faulty=dups > 0)
    try:
        w.oracle = dict(prog.oracle)
        c20 = dict(c20) if c20 else None
        if c20:
            grp = 'action_heartbeat'
            w.CONF.set_override('first_heartbeat_timeout', c20.get('first', 4), grp)
            w.CONF.set_override('max_missed_heartbeats', c20.get('missed', 2), grp)
            w.CONF.set_override('check_interval', c20.get('interval', 2), grp)
            w.CONF.set_override('execution_integrity_check_delay', c20.get('integrity', 3), 'engine')
            if c20.get('batch'):
                w.CONF.set_override('batch_size', c20['batch'], grp)
            if c20.get('broken'):
                w.insert_orphan_actions(c20['broken'])
            meta['hbBatch'] = int(c20.get('batch', 0) or 0)
            w.withhold = set(c20.get('silent', [])) | set(c20.get('slow', []))
            c20['ticks_left'] = c20.get('ticks', 8)
            c20['dropped'] = not c20.get('drop')
            meta['c20'] = {k: v for k, v in c20.items() if k in ('silent', 'slow', 'first', 'missed', 'interval', 'integrity', 'drop', 'batch', 'broken')}
            meta['hbThreshold'] = c20.get('missed', 2) * c20.get('interval', 2)
        ns = prog.flags.get('ns', '')
        if ns and prog.subs:
            # the root lives in namespace ns, its sub-workflows only in the default namespace (found by fall-back)
            w.define(prog.yaml('root'), namespace=ns)
            w.define(prog.yaml('subs'), namespace='')
            if prog.flags.get('ns_decoy'):
                # ... and a same-named leaf also exists in ns: it must win for descendants of an ns execution
                leafs = [k for k in prog.subs if k.endswith('leaf')]
                if leafs:
                    import copy as _copy
                    dec = _copy.deepcopy(prog)
                    dec.subs = {k: v for k, v in dec.subs.items() if k in leafs}
                    w.define(dec.yaml('subs'), namespace=ns)
        elif prog.flags.get('wb'):
            # the program is one workbook; same-named standalone workflows exist as decoys (workbook-relative names win)
            w.define_workbook(prog.yaml(), namespace=ns)
            if prog.subs and prog.flags.get('wb_decoy', True):
                w.define(prog.yaml('decoys'), namespace=ns)
        else:
            w.define(prog.yaml(), namespace=ns)
        pol = Policy(policy, rnd)

        def record(ev):
            obs, ids = project.project()
            ev = dict(ev)
            ev['writes'] = parse_writes(w.writes, ids)
            ev.pop('tb', None)
            if ev.get('kind') == 'op' and ev.get('op') in ('pause', 'resume', 'stop') and ev.get('args'):
                ev['target_sid'] = ids['wf_rev'].get(ev['args'][0], '')
                ev['arg'] = ev['args'][1] if len(ev['args']) > 1 else ''
            if ev.get('kind') == 'op' and ev.get('op') == 'rerun' and ev.get('args'):
                ev['target_sid'] = ids['tk_rev'].get(ev['args'][0], '')
                ev['arg'] = 'skip' if (len(ev['args']) > 2 and ev['args'][2]) else ('reset' if ev['args'][1] else 'noreset')
            label_ev(ev, ids)
            ev.pop('args', None)
            ev.pop('result', None)
            for a in obs['ax']:
                a['disp'] = w.dispatched.get(ids['ax'].get(a['sid']), 0)
            obs['pend'] = w.pending_counts()
            obs['pend']['quiet'] = False
            steps.append({'ev': _clean_ev(ev), 'obs': obs})
            if prims:
                from harness import primitives
                steps[-1]['prims'] = primitives.normalise(w.prims, ids)
            return obs, ids

        start_name = ('%s.%s' % (prog.flags['wb'], prog.name)) if prog.flags.get('wb') else prog.name
        ev = w.step(('op', 'start', start_name, dict(prog.input), dict(prog.start_params(), __namespace=prog.flags.get('ns', ''))))
        root_id = ev.get('result')
        obs, ids = record(ev)
        n = 0
        ticks = 0
        last_idle_hash = None
        dup_budget = dups
        delivered_msgs = []
        ops = list(ops or [])
        abstract_ = prog.abstract() if any(o_.get('when') for o_ in ops) else None
        while n < max_steps:
            # operator commands scheduled at this step index
            for k_, o_ in enumerate(ops):
                if o_.get('when') and _when(o_['when'], obs, abstract_):
                    ops[k_] = dict({kk: v for kk, v in o_.items() if kk != 'when'}, at=n)
                    break
            fired = [o for o in ops if o.get('at', 10 ** 9) <= n]
            if fired:
                o = fired[0]
                ops.remove(o)
                if ops and 'rel' in ops[0]:
                    # the next command is timed relative to this one (e.g. pause 2 steps after the rerun)
                    ops[0] = dict(ops[0], at=n + 1 + ops[0]['rel'])
                st = _op_step(o, w, ids, root_id, obs)
                if st is not None:
                    obs, ids = record(w.step(st))
                    n += 1
                continue
            en = w.enabled()
            for mid in w.sync_delivered:
                if mid not in delivered_msgs and w.msgs[mid].sender != 'operator':
                    delivered_msgs.append(mid)
            if dup_budget > 0 and delivered_msgs and rnd.random() < 0.15:
                mid = rnd.choice(delivered_msgs)
                obs, ids = record(w.step(('dup', mid)))
                dup_budget -= 1
                n += 1
                continue
            pc = w.pending_counts() if (c20 and c20.get('drop') == 'last') else None
            if c20 and not c20['dropped'] and en and (pc is None or (pc['msgs'] == 0 and pc['ptq'] == 0)):
                # drop == 'last': every accounting job of the with-items task is lost once all its items have reported
                r0 = record(w.step(('dropjob', '_scheduled_on_action_complete') + (('all',) if pc is not None else ())))
                if steps[-1]['ev'].get('n', 0):
                    c20['dropped'] = True
                else:
                    steps.pop()
            if en:
                st = pol.choose(en, w)
                if evict and rnd.random() < 0.5:
                    w.step(('evict',))
                ev = w.step(st)
                if st[0] == 'msg':
                    m = w.msgs[st[1]]
                    if m.method in ('on_action_complete', 'start_task', 'run_action', 'start_workflow'):
                        delivered_msgs.append(st[1])
                obs, ids = record(ev)
                n += 1
                continue
            if ops:
                # nothing enabled but operator commands remain: fire the next one now
                ops[0] = dict(ops[0], at=n)
                continue
            if dup_budget > 0 and delivered_msgs:
                mid = rnd.choice(delivered_msgs)
                obs, ids = record(w.step(('dup', mid)))
                dup_budget -= 1
                n += 1
                continue
            if c20 and (c20['ticks_left'] > 0 or w.withhold):
                # executor trouble: time passes in steps of one check interval; alive-but-slow actions send
                # heartbeats, silent ones do not; the checker runs after every interval; finally everything
                # withheld is released (late genuine results)
                if c20['ticks_left'] > 0:
                    c20['ticks_left'] -= 1
                    obs, ids = record(w.step(('tick', w.now + c20.get('interval', 2))))
                    slow = set(c20.get('slow', []))
                    saved = w.withhold
                    w.withhold = slow
                    alive = w.withheld_action_ids()
                    w.withhold = saved
                    if alive:
                        obs, ids = record(w.step(('heartbeat', alive)))
                    obs, ids = record(w.step(('hb',)))
                    n += 3
                else:
                    w.withhold = set()
                continue
            nd = w.next_due()
            h = hashlib.sha1(json.dumps([obs['wf'], obs['tk'], obs['ax']], sort_keys=True).encode()).hexdigest()
            if nd is None:
                steps[-1]['obs']['pend']['quiet'] = True
                break
            # (a task that is RUNNING although all its children have finished is the integrity check's business: that job re-arms
            #  itself every 120 s and acts only when the children have been finished for longer than the configured delay -
            #  one pass without effect is not yet "at rest")
            waiting_for_integrity = bool(c20) and ticks < 6 and _stuck_candidate(obs)
            if (last_idle_hash == h and not waiting_for_integrity) or ticks >= 12:
                steps[-1]['obs']['pend']['quiet'] = (last_idle_hash == h)
                break
            last_idle_hash = h
            ticks += 1
            obs, ids = record(w.step(('tick',)))
            n += 1
        meta['steps'] = n
        meta['action_runs'] = list(w.action_runs)
    finally:
        if c20:
            for o_ in ('first_heartbeat_timeout', 'max_missed_heartbeats', 'check_interval', 'batch_size'):
                w.CONF.clear_override(o_, 'action_heartbeat')
            w.CONF.clear_override('execution_integrity_check_delay', 'engine')
        w.close()
    return dict(prog=prog.abstract(), steps=steps, meta=meta, declared=declared or declared_errors())


def _stuck_candidate(obs):
    fin = ('SUCCESS', 'ERROR', 'CANCELLED')
    for x in obs['tk']:
        if x['state'] == 'RUNNING':
            kids = [a for a in obs['ax'] if a['task'] == x['sid']] + [w for w in obs['wf'] if w['parent'] == x['sid']]
            if kids and all(k['state'] in fin for k in kids):
                return True
    return False


def _sub_failed_parent_running(obs):
    """Tasks in ERROR inside a sub-workflow that has failed and has already failed its parent task, while the workflow
    around that parent task is still RUNNING (another branch of it is unfinished)."""
    wfs = {x['sid']: x for x in obs['wf']}
    tks = {x['sid']: x for x in obs['tk']}
    out = []
    for t in obs['tk']:
        w_ = wfs.get(t['wf'])
        if t['state'] != 'ERROR' or not w_ or not w_['parent'] or w_['state'] != 'ERROR':
            continue
        pt = tks.get(w_['parent'])
        if pt and pt['state'] == 'ERROR' and wfs.get(pt['wf'], {}).get('state') == 'RUNNING':
            out.append(t)
    return out


def _when(cond, obs, abstract_=None):
    if cond == 'sub_failed_parent_running':
        return bool(_sub_failed_parent_running(obs))
    if cond == 'join_ready_not_started':
        # a join of the root workflow is WAITING although every inbound task has completed: its refresh job is still to run
        done = {x['name'] for x in obs['tk'] if x['wf'] == 'r' and x['state'] in ('SUCCESS', 'ERROR', 'CANCELLED')}
        for x in obs['tk']:
            if x['wf'] == 'r' and x['state'] == 'WAITING' and x['isJoin']:
                inb = (abstract_ or {}).get('inbound', {}).get(x['name'], [])
                if inb and all(i in done for i in inb) and obs['pend']['jobsDue'] + obs['pend']['running'] > 0:
                    return True
        return False
    return False


def _op_step(o, w, ids, root_id, obs):
    """Translate an operator command description into a world step using the current row ids."""
    op = o['op']
    if op in ('pause', 'resume', 'stop'):
        sid = o.get('target', 'r')
        wid = ids['wf'].get(sid)
        if wid is None:
            return None
        if op == 'stop':
            return ('op', 'stop', wid, o.get('state', 'ERROR'), o.get('msg', 'stopped by operator'))
        return ('op', op, wid)
    if op == 'dup':
        # redeliver an already delivered message of the given method (the pick-th one that concerns the given task, if any)
        cands = [mid for mid, m in w.msgs.items() if m.method == o.get('method', 'start_task') and m.delivered > 0]
        if o.get('task'):
            tid = ids['tk'].get(o['task'])
            cands = [mid for mid in cands if tid and tid in json.dumps(w.msgs[mid].kwargs, default=str)]
        if o.get('wf_action'):
            # ... only results of sub-workflows (sent to the engine by the child's post-commit operation)
            cands = [mid for mid in cands if str(w.msgs[mid].kwargs.get('wf_action')).lower() in ('true', '1')]
        if not cands:
            return None
        return ('dup', cands[o.get('pick', 0) % len(cands)])
    if op == 'wait':
        # let virtual time pass up to the next due job (timers firing while the operator does nothing)
        return ('tick',) if w.next_due() is not None else None
    if op in ('rerun', 'skip'):
        # target: a task sid, or '*' = the first task in ERROR
        cands = [t for t in obs['tk'] if t['state'] == 'ERROR' or (o.get('cancelled') and t['state'] == 'CANCELLED')] if o.get('target', '*') == '*' else \
            _sub_failed_parent_running(obs) if o['target'] == '*sub' else [t for t in obs['tk'] if t['sid'] == o['target']]
        if not cands:
            return None
        tid = ids['tk'].get(cands[o.get('pick', 0) % len(cands)]['sid'])
        return ('op', 'rerun', tid, bool(o.get('reset', True)), op == 'skip')
    return None


def label_ev(ev, ids):
    """Arguments of the step in structural terms (task name, action index, first-run flag): with them the strict trace
    validation knows WHICH message / job the step consumed and stays linear in the length of the run."""
    import json as _json
    a = ev.get('args')
    t, k, fr, li = '', 0, True, 0

    def val(x):
        if isinstance(x, str):
            try:
                return _json.loads(x)
            except ValueError:
                return x
        return x
    if ev.get('kind') in ('msg', 'ptq', 'job', 'linv') and isinstance(a, dict) and (a.get('task_ex_id') is not None or a.get('action_ex_id') is not None):
        if a.get('task_ex_id') is not None:
            sid = ids['tk_rev'].get(val(a['task_ex_id']), '')
            t = sid.split('/')[-1].split('#')[0]
            fr = bool(val(a.get('first_run', True)))
        elif a.get('action_ex_id') is not None and not val(a.get('wf_action', False)):
            sid = ids['ax_rev'].get(val(a['action_ex_id']), '')
            if '@' in sid:
                t = sid.rsplit('@', 1)[0].split('/')[-1].split('#')[0]
                try:
                    k = int(sid.rsplit('.', 1)[1]) + 1
                    li = int(sid.rsplit('@', 1)[1].split('.')[0])
                except ValueError:
                    k = 0
    elif ev.get('kind') in ('job', 'linv') and str(ev.get('key') or '').startswith('th_r_t_s-'):
        t = ids['tk_rev'].get(ev['key'][len('th_r_t_s-'):], '').split('/')[-1].split('#')[0]
    if ev.get('kind') == 'op' and ev.get('op') == 'rerun' and ev.get('target_sid'):
        # (only a task of the root execution has a name the engine model knows)
        ts = ev['target_sid']
        t = ts.split('/')[-1].split('#')[0] if ts.count('/') == 1 else ''
    ev['lt'], ev['lk'], ev['lfr'], ev['li'] = t, k, fr, li
    return ev


def _clean_ev(ev):
    a = ev.get('args') or []
    out = {'kind': ev.get('kind', ''), 'exc': ev.get('exc', 'none'), 'dup': bool(ev.get('dup', False)),
           'target': str(ev.get('target_sid', '')), 'arg': str(ev.get('arg', '')),
           'what': str(ev.get('method') or ev.get('op') or ev.get('func') or ev.get('kind')),
           'phase': str(ev.get('phase', '')), 'now': ev.get('now', 0), 'n': int(ev.get('n', 0) or 0), 'writes': ev.get('writes', []),
           'exc_msg': ev.get('exc_msg', ''), 't': str(ev.get('lt', '')), 'k': int(ev.get('lk', 0) or 0), 'fr': bool(ev.get('lfr', True)), 'i': int(ev.get('li', 0) or 0),
           'swallowed': list(ev.get('swallowed', []))}
    return out


_DECL = []


def declared_errors():
    """Names of the service's own declared error types (enumerated from the code under test)."""
    if not _DECL:
        import inspect
        from mistral import exceptions as mexc
        from mistral_lib import exceptions as lexc
        for mod in (mexc, lexc):
            for n, c in inspect.getmembers(mod, inspect.isclass):
                if issubclass(c, Exception) and (issubclass(c, getattr(mexc, 'MistralException')) or
                                                 issubclass(c, getattr(mexc, 'MistralError')) or
                                                 (hasattr(lexc, 'MistralExceptionBase') and issubclass(c, lexc.MistralExceptionBase))):
                    _DECL.append(n)
    return sorted(set(_DECL))
