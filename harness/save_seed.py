"""save_seed.py <seed dir name> <Cxx prop> <detected_by comma list> <note> : copy a confirmed seeded change into /verif/seeded."""
import json, os, shutil, sys
name, prop, detected, note = sys.argv[1], sys.argv[2], sys.argv[3], sys.argv[4]
src = '/tmp/seedout/' + name
dst = '/verif/seeded/' + name
os.makedirs(dst, exist_ok=True)
shutil.copy(src + '/patch.diff', dst + '/patch.diff')
shutil.copy(src + '/demo_test.py', dst + '/demo_test.py')
meta = json.load(open(src + '/meta.json')) if os.path.exists(src + '/meta.json') else {}
meta['property'] = prop
conf = open(src + '/confirm.txt').read() if os.path.exists(src + '/confirm.txt') else ''
meta['confirmed_by_me'] = {'what_i_ran': 'harness/confirm_seed.sh %s (demo with / without the change, full existing suite with the change, in a scratch worktree)' % name,
                           'output': conf}
meta['checks_result'] = {'detected_by': [x for x in detected.split(',') if x], 'note': note}
json.dump(meta, open(dst + '/meta.json', 'w'), indent=1)
print('saved', dst)
