"""setup_cmd: compile the harness, parse every specification with SANY (fail fast)."""
import compileall
import glob
import os
import shutil

from harness import common


def main():
    ok = compileall.compile_dir(os.path.join(common.VERIF, 'harness'), quiet=1)
    bad = []
    d = common.builddir('sany', clean=True)
    for f in glob.glob(os.path.join(common.SPEC, '*', '*.tla')):
        shutil.copy(f, d)
    for f in sorted(glob.glob(os.path.join(d, '*.tla'))):
        good, out = common.sany(f)
        if not good:
            bad.append((f, out[-1500:]))
    for f, out in bad:
        print('SANY FAILED', f)
        print(out)
    print('setup: harness compiled=%s, %d specification modules parsed, %d failed'
          % (bool(ok), len(glob.glob(os.path.join(d, '*.tla'))), len(bad)))
    return 0 if ok and not bad else 2
