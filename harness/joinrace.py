"""Statement-level model of the join races (spec/engine/JoinRace.tla) and its binding to the code by
primitive-usage conformance (spec/engine/PrimTrace.tla over the primitives recorded by harness/primitives.py)."""
import json
import os
import re

from harness import common

PRIMS = ['UseDeferLock', 'UseUniqueKey', 'UseRefreshLock', 'RefreshAfterLock', 'DedupeUncapturedOnly']
INVS = ['OneJoinRow', 'JoinStartsOnce', 'JoinGate', 'NoLostWakeup']


def _run(d, name, n, need, off=()):
    common.put_spec(d, os.path.join('engine', 'JoinRace.tla'))
    mc = 'MC_JoinRace_%s' % name
    with open(os.path.join(d, mc + '.tla'), 'w') as fh:
        fh.write('---- MODULE %s ----\nEXTENDS JoinRace\n====\n' % mc)
    with open(os.path.join(d, mc + '.cfg'), 'w') as fh:
        fh.write('SPECIFICATION Spec\nCONSTANTS\n NInbound = %d\n Need = %d\n%s%sPROPERTY EventuallyQuiet\nCHECK_DEADLOCK FALSE\n'
                 % (n, need, ''.join(' %s = %s\n' % (p, 'FALSE' if p in off else 'TRUE') for p in PRIMS),
                    ''.join('INVARIANT %s\n' % i for i in INVS)))
    return common.run_tlc(os.path.join(d, mc + '.tla'), os.path.join(d, mc + '.cfg'), workers=4, timeout=900, metatag=mc, cont=True)


def model_results(d, tier):
    """Returns (model_info list, broken: {primitive -> [properties violated without it]}).
    Raises MachineryError if the model with every primitive in place violates a property."""
    info = []
    sizes = [(2, 2), (3, 3), (3, 2), (3, 1)] if tier == 'thorough' else [(2, 2), (3, 2)]
    for (n, need) in sizes:
        r = _run(d, 'all_%d_%d' % (n, need), n, need)
        info.append({'config': 'JoinRace/all primitives/%d inbound, need %d' % (n, need), 'distinct_states': r.distinct, 'ok': r.ok})
        if not r.finished or not r.ok:
            raise common.MachineryError('JoinRace with all primitives violates a property (spec defect):\n' + r.out[-3000:])
    broken = {}
    cex = {}
    for offset in (['UseDeferLock'], ['UseUniqueKey'], ['UseDeferLock', 'UseUniqueKey'], ['UseRefreshLock'], ['RefreshAfterLock'],
                   ['DedupeUncapturedOnly']):
        r = _run(d, 'no_' + '_'.join(offset), 2, 2, off=offset)
        v = sorted(set(r.inv_violations))
        info.append({'config': 'JoinRace/without %s' % '+'.join(offset), 'distinct_states': r.distinct, 'ok': r.ok, 'violated': v})
        broken['+'.join(offset)] = v
        cex['+'.join(offset)] = r.out[-6000:]
    # sanity of the model itself: each protecting primitive must be load-bearing in the way the code comments say
    expect = {'UseDeferLock+UseUniqueKey': 'OneJoinRow', 'UseRefreshLock': 'JoinStartsOnce', 'RefreshAfterLock': 'JoinStartsOnce',
              'DedupeUncapturedOnly': 'NoLostWakeup'}
    for k, inv in expect.items():
        if inv not in broken.get(k, []):
            raise common.MachineryError('JoinRace: switching off %s was expected to violate %s (vacuous model?)' % (k, inv))
    return info, broken, cex


def conformance(d, traces, chunk=200):
    """PrimTrace over the recorded primitives.  Returns (violations {rule -> [(trace index, step)]}, seen counters, states)."""
    common.put_spec(d, os.path.join('engine', 'PrimTrace.tla'))
    viol, seen = {}, {'join_created': 0, 'join_moved': 0, 'dedupe': 0}
    st = 0
    for k in range(0, len(traces), chunk):
        part = traces[k:k + chunk]
        tf = os.path.join(d, 'prims_%d.ndjson' % k)
        with open(tf, 'w') as fh:
            for t in part:
                fh.write(json.dumps({'steps': [{'ev': {'what': s['ev']['what'], 'kind': s['ev']['kind']}, 'prims': s.get('prims', [])}
                                               for s in t['steps']]}) + '\n')
        mod = os.path.join(d, 'MC_PrimTrace_%d.tla' % k)
        with open(mod, 'w') as fh:
            fh.write('---- MODULE MC_PrimTrace_%d ----\nEXTENDS PrimTrace\n====\n' % k)
        with open(mod[:-4] + '.cfg', 'w') as fh:
            fh.write('SPECIFICATION TSpec\nCONSTRAINT Report\nCHECK_DEADLOCK FALSE\n')
        r = common.run_tlc(mod, mod[:-4] + '.cfg', workers=1, env={'TRACE_FILE': tf}, timeout=1800, heap='3g', metatag='prim%d' % k)
        done = set(int(m.group(1)) for m in re.finditer(r'<<"done", (\d+)>>', r.out))
        if not r.finished or len(done) != len(part):
            raise common.MachineryError('PrimTrace judged %d of %d runs:\n%s' % (len(done), len(part), r.out[-2500:]))
        st += r.distinct
        for m in re.finditer(r'<<"prim", (\d+), (\d+), "(\w+)">>', r.out):
            viol.setdefault(m.group(3), []).append((k + int(m.group(1)) - 1, int(m.group(2))))
        for m in re.finditer(r'<<"seen", (\d+), "(\w+)">>', r.out):
            seen[m.group(2)] = seen.get(m.group(2), 0) + 1
    return viol, seen, st


def unique_key_present():
    """The unique index on task_executions_v2.unique_key (JoinRace.UseUniqueKey) - read from the live schema."""
    from harness import mdb
    mdb.boot()
    for (seq, name, unique, origin, partial) in mdb.raw_rows("PRAGMA index_list('task_executions_v2')"):
        if unique:
            cols = [r[2] for r in mdb.raw_rows("PRAGMA index_info('%s')" % name)]
            if 'unique_key' in cols:
                return True
    return False
