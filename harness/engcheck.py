"""Shared driver of the engine checks (C01-C12, C20): run generated programs through the real
engine in a process pool, have TLC judge every recorded run with EngineProps (EngineObsTrace),
report the clauses that belong to the property being checked."""
import concurrent.futures as cf
import json
import multiprocessing as mp
import os
import re
import shutil
import time

from harness import common

CLAUSE_PROPS = {
    'KnownTasksOnly': ['C01', 'C09'], 'NoHang': ['C01', 'C04', 'C10', 'C12', 'C20'], 'NoWaitingAtRest': ['C01', 'C04', 'C10', 'C12'], 'DeclaredErrorsOnly': ['C01'],
    'WfMoves': ['C03'], 'ResultOnce': ['C03', 'C06'], 'SuccessSticky': ['C03'], 'FinishedFrozen': ['C03', 'C11', 'C20'],
    'JoinGate': ['C04'], 'JoinOnce': ['C04'], 'Caused': ['C04'], 'ReqGate': ['C04'], 'OnlyNeededOnce': ['C04'],
    'DupNoEffect': ['C06'], 'StartOnce': ['C06', 'C10'], 'NoDoubleDispatch': ['C06', 'C10'],
    'WithinLimit': ['C07'], 'OnePerIndex': ['C07', 'C12'], 'CompleteAfterAll': ['C07', 'C12'], 'WithItemsFinalState': ['C07', 'C12'],
    'NoNewTasksWhilePaused': ['C10'], 'PauseAck': ['C10'],
    'NoNewTasksAfterStop': ['C11'], 'WaitingStaysAfterStop': ['C11'], 'StopAck': ['C11'], 'TreeCancelled': ['C11'],
    'AttemptBound': ['C08'], 'StopAtFirstSuccess': ['C08'], 'RetryStopsWhenTold': ['C08'], 'RetryExhausted': ['C08'], 'FinalIffLast': ['C08'], 'DelayRespected': ['C08'],
    'WaitBeforeRespected': ['C08'], 'PauseBeforeRespected': ['C08'], 'WaitAfterRespected': ['C08'], 'TimeoutJudged': ['C08'], 'FailOnApplied': ['C08'],
    'ExpiredFailed': ['C20'], 'NeverExpireFresh': ['C20'], 'NoStuckTaskAtRest': ['C20', 'C01'], 'ItemsTaskCompletes': ['C07', 'C12'], 'ParentSuccessNeedsChildren': ['C09', 'C12'],
    'RerunRestores': ['C12'], 'SkipApplied': ['C12'], 'RerunReexecutes': ['C12'], 'PartialRerunOnlyFailed': ['C12', 'C07'],
    'ParentMirrorsChild': ['C09', 'C12'], 'CalledDefinition': ['C09'], 'RootAndNamespace': ['C09'],
    'Prescribed': ['C01', 'C02', 'C04', 'C09', 'C10', 'C12'],
}


def _winit(repo):
    os.environ['VERIF_REPO'] = repo
    from harness import mdb
    mdb.boot()


def _run_job(job):
    from harness import engrun
    try:
        tr = engrun.run_program(job['prog'], scheduler=job.get('scheduler', 'default'), policy=job.get('policy', 'random'),
                                seed=job.get('seed', 0), ops=job.get('ops'), dups=job.get('dups', 0),
                                evict=job.get('evict', False), max_steps=job.get('max_steps', 400), c20=job.get('c20'), ids=job.get('ids', 'rand'), prims=job.get('prims', False))
        tr['meta']['label'] = job.get('label', '')
        tr['meta']['yaml'] = job['prog'].yaml()
        tr['meta']['ops'] = job.get('ops') or []
        import base64
        import pickle
        tr['job'] = base64.b64encode(pickle.dumps(job)).decode()
        return tr
    except Exception as e:   # machinery failure inside the worker
        import traceback
        return {'error': traceback.format_exc()[-2000:], 'meta': {'label': job.get('label', '')}}


def run_jobs(jobs):
    with mp.get_context('spawn').Pool(max(2, common.NCPU - 2), initializer=_winit, initargs=(common.REPO,)) as pool:
        return pool.map(_run_job, jobs, chunksize=2)


def judge(d, traces, chunk=150):
    """TLC (EngineObsTrace) over all traces.  Returns (viols: {tid: [(l, clause)]}, states, transitions)."""
    common.put_spec(d, *[os.path.join('engine', f_) for f_ in ('EngineProps.tla', 'EngineObsTrace.tla')])
    nch = (len(traces) + chunk - 1) // chunk

    def one(k):
        part = traces[k * chunk:(k + 1) * chunk]
        tf = os.path.join(d, 'runs_%d.ndjson' % k)
        with open(tf, 'w') as fh:
            for t in part:
                # totality: a task execution whose name the definition does not know must be judged, not crash the judge
                known = t['prog']['tasks']
                for s_ in t['steps']:
                    for x in s_['obs']['tk']:
                        if x['name'] not in known:
                            known[x['name']] = dict(kind='action', join=0, succ=[], err=[], comp=[], requires=[], outcome=[['ok']], wf='unknown', sub='',
                                                    items=-1, conc=0, retry=0, delay=0, contOn='none', breakOn='none', waitBefore=0, waitAfter=0, timeout=0, pauseBefore=False, failOn=False)
                            t['prog']['inbound'][x['name']] = []
                fh.write(json.dumps({'prog': t['prog'], 'meta': {'mayPause': t['meta']['mayPause'], 'faulty': t['meta']['faulty'],
                                              'hbThreshold': int(t['meta'].get('hbThreshold', 0)), 'hbBatch': int(t['meta'].get('hbBatch', 0)), 'policies': bool(t['prog']['flags'].get('retry') or t['prog']['flags'].get('policy'))},
                                     'declared': t['declared'], 'steps': t['steps']}) + '\n')
        mod = os.path.join(d, 'MC_EngineObsTrace_%d.tla' % k)
        with open(mod, 'w') as fh:
            fh.write('---- MODULE MC_EngineObsTrace_%d ----\nEXTENDS EngineObsTrace\n====\n' % k)
        cfgp = os.path.join(d, 'MC_EngineObsTrace_%d.cfg' % k)
        with open(cfgp, 'w') as fh:
            fh.write('SPECIFICATION TSpec\nCONSTRAINT Report\nCHECK_DEADLOCK FALSE\n')
        r = common.run_tlc(mod, cfgp, workers=1, env={'TRACE_FILE': tf}, timeout=3000, metatag='eng%d' % k, heap='3g')
        if not r.finished:
            raise common.MachineryError('EngineObsTrace did not finish:\n' + r.out[-3000:])
        viols = {}
        for m in re.finditer(r'<<"viol", (\d+), (\d+), "(\w+)">>', r.out):
            viols.setdefault(k * chunk + int(m.group(1)), []).append((int(m.group(2)), m.group(3)))
        done = set(k * chunk + int(m.group(1)) for m in re.finditer(r'<<"done", (\d+), (\d+)>>', r.out))
        if len(done) != len(part):
            raise common.MachineryError('EngineObsTrace judged %d of %d runs in chunk %d:\n%s' % (len(done), len(part), k, r.out[-2500:]))
        return viols, r.distinct, r.generated

    viols, st, tr = {}, 0, 0
    with cf.ThreadPoolExecutor(max_workers=min(common.NCPU, max(1, nch))) as ex:
        for v, a, b in ex.map(one, range(nch)):
            viols.update(v)
            st += a
            tr += b
    return viols, st, tr


def shape_sig(prog):
    """Structural signature of a program (used in violation signatures)."""
    feats = []
    for n in prog['order']:
        t = prog['tasks'][n]
        if t['join']:
            feats.append('join%s' % t['join'])
        if t['items'] >= 0:
            feats.append('items')
        if t['retry']:
            feats.append('retry')
    return '+'.join(sorted(set(feats))) or 'plain'


def report(pid, verdict, traces, viols, extra_sig=None):
    """Turn clause failures into verdict entries for property pid.  Returns counts."""
    mine = other = 0
    for tid, lst in sorted(viols.items()):
        t = traces[tid - 1]
        seen = set()
        for (l, clause) in sorted(lst):
            if clause in seen:
                continue
            seen.add(clause)
            props = CLAUSE_PROPS.get(clause, [])
            ev = t['steps'][l - 1]['ev']
            sig = {'clause': clause, 'event': ev['what'], 'shape': shape_sig(t['prog']), 'ops': [o['op'] for o in t['meta'].get('ops', [])]}
            if extra_sig:
                sig.update(extra_sig(t, l, clause))
            msg = ('%s false at step %d (%s %s%s) of run [%s scheduler=%s policy=%s seed=%s]; events: %s'
                   % (clause, l, ev['kind'], ev['what'], ' dup' if ev['dup'] else '', t['meta'].get('label', ''), t['meta']['scheduler'],
                      t['meta']['policy'], t['meta']['seed'],
                      ' '.join('%s:%s%s' % (s['ev']['kind'], s['ev']['what'], ('/' + s['ev']['phase']) if s['ev']['phase'] else '')
                               for s in t['steps'][:l])))
            if pid in props:
                mine += 1
                verdict.violation(sig, msg, {'yaml': t['meta'].get('yaml'), 'oracle': {k: v['outcome'] for k, v in t['prog']['tasks'].items()},
                                             'meta': {k: v for k, v in t['meta'].items() if k not in ('yaml', 'action_runs')},
                                             'events': [s['ev'] for s in t['steps']], 'failing_step': l, 'job': t.get('job'),
                                             'obs_at_failure': t['steps'][l - 1]['obs']})
            else:
                other += 1
                verdict.other_clauses[clause] = verdict.other_clauses.get(clause, 0) + 1
                verdict.notes.append('clause %s (properties %s) false in a run of this check: %s' % (clause, props, msg[:300]))
    return mine, other
