"""Real process_cron_triggers_v2 passes of 1..3 'processes' over one database, stepped by gates.

Seams replaced from outside: oslo timeutils override (virtual clock), keystone client factory
(external service), the engine RPC client factory seen by mistral.services.periodic (records
start_workflow calls with the auth context in force), and gate wrappers around
periodic.advance_cron_trigger / triggers.get_next_cron_triggers.
"""
import datetime
import threading

from harness import mdb
from harness.schedworld import Gate, _TL

BASE = datetime.datetime(2030, 1, 1, 0, 0, 0)
WF = """
version: '2.0'
wf:
  input:
    - p
  tasks:
    t1:
      action: std.noop
"""


class FakeTrust(object):
    def __init__(self, i):
        self.id = 'trust-%d' % i


class FakeKeystone(object):
    n = 0
    session = None
    auth_token = 'tok'
    user_id = 'trustee'

    class trusts(object):
        @staticmethod
        def create(**kw):
            FakeKeystone.n += 1
            return FakeTrust(FakeKeystone.n)

        @staticmethod
        def delete(trust_id):
            return None


class CronWorld(object):
    def __init__(self, trig_cfg, nproc):
        """trig_cfg: {t: dict(period=, first=, count=, project=)}"""
        CONF = mdb.boot(auth_enable=True)
        self.CONF = CONF
        from oslo_utils import timeutils
        from mistral.services import periodic, triggers, security
        from mistral.utils.openstack import keystone
        from mistral import context as auth_context
        self.timeutils = timeutils
        self.periodic = periodic
        self.triggers = triggers
        self.auth_context = auth_context
        self.cfg = trig_cfg
        self.nproc = nproc
        self.now = 0
        timeutils.set_time_override(BASE)
        mdb.wipe()
        from mistral.lang import parser as spec_parser
        spec_parser.clear_caches()
        self._saved = (keystone.client, keystone.client_for_admin, keystone.client_for_trusts,
                       periodic.advance_cron_trigger, triggers.get_next_cron_triggers, periodic.rpc.get_engine_client)

        class AdminSession(object):
            @staticmethod
            def get_user_id():
                return 'trustee'

        class AdminClient(object):
            session = AdminSession

        keystone.client = lambda *a, **k: FakeKeystone
        keystone.client_for_admin = lambda *a, **k: AdminClient
        keystone.client_for_trusts = lambda *a, **k: FakeKeystone
        self.keystone = keystone
        self.alive = {p: True for p in range(1, nproc + 1)}
        self.gates = {}
        self.cur = {}             # p -> dict(t, occ, won)
        self.starts = []
        self.consumed = {t: set() for t in trig_cfg}
        self.lost = set()
        self.created = {t: False for t in trig_cfg}
        self.names = {}
        self.listed = {}
        self.errors = []
        self._rows = {t: (-2, -1) for t in trig_cfg}
        world = self
        orig_adv = self._saved[3]
        orig_list = self._saved[4]

        def adv(t):
            g = getattr(_TL, 'gate', None)
            p = getattr(_TL, 'proc', None)
            tt = world.names.get((t.project_id, t.name))
            occ = world._vt(t.next_execution_time)
            if g is not None:
                g.park('adv', tt)
            world.in_adv[p] = True
            try:
                r = orig_adv(t)
            finally:
                world.in_adv[p] = False
            world.cur[p] = dict(t=tt, occ=occ, won=bool(r))
            if g is not None and not r:
                g.park('start', tt)
            return r

        def lst():
            r = orig_list()
            p = getattr(_TL, 'proc', None)
            world.listed[p] = len(r)
            return r

        class Client(object):
            def start_workflow(self, wf_name, wf_namespace, wf_ex_id, wf_input, description='', **params):
                g = getattr(_TL, 'gate', None)
                p = getattr(_TL, 'proc', None)
                c = world.cur.get(p, {})
                if g is not None:
                    g.park('start', c.get('t'))
                ctx = auth_context.ctx() if auth_context.has_ctx() else None
                tt = c.get('t')
                cfgt = world.cfg.get(tt, {})
                ok = (wf_input == {'p': 'in-%s' % tt} and params.get('env') == {'e': 'env-%s' % tt} and wf_name == 'wf')
                world.starts.append(dict(t=tt, occ=c.get('occ'), at=world.now,
                                         proj=(ctx.project_id if ctx is not None else 'none'), inputOk=bool(ok)))
                return {}

        # statement-level interference (another processor's COMMITTED advance lands between this processor's SELECT of the
        # trigger row and its conditional UPDATE / DELETE - possible under READ COMMITTED, not executable with two real
        # transactions in this sandbox): armed per processor, fires once inside the next advance_cron_trigger
        from mistral.db.v2.sqlalchemy import api as sa_api
        from mistral.db.sqlalchemy import base as sa_base
        self._sa_api = sa_api
        self._orig_get = sa_api.get_cron_trigger
        self.armed = set()
        self.in_adv = {}
        self.interfered = []

        def get_ct(identifier, *a, **k):
            row = world._orig_get(identifier, *a, **k)
            p = getattr(_TL, 'proc', None)
            if p in world.armed and world.in_adv.get(p):
                world.armed.discard(p)
                tt = world.names.get((row.project_id, row.name))
                occ = world._vt(row.next_execution_time)
                import sqlalchemy as sa
                ses = sa_base._get_thread_local_session()
                rem = row.remaining_executions
                if rem is not None and rem - 1 == 0:
                    ses.execute(sa.text('delete from cron_triggers_v2 where id = :i'), {'i': row.id})
                else:
                    period = world.cfg[tt]['period'] or 1
                    nxt = BASE + datetime.timedelta(minutes=((max(world.now, occ) // period) + 1) * period)
                    ses.execute(sa.text('update cron_triggers_v2 set next_execution_time = :n, remaining_executions = :r where id = :i'),
                                {'n': nxt.strftime('%Y-%m-%d %H:%M:%S.000000'), 'r': (rem - 1 if rem is not None else None), 'i': row.id})
                # the other processor also started the workflow for the occurrence it consumed
                world.starts.append(dict(t=tt, occ=occ, at=world.now, proj=world.cfg[tt]['project'], inputOk=True))
                world.interfered.append((p, tt, occ))
            return row

        sa_api.get_cron_trigger = get_ct
        periodic.advance_cron_trigger = adv
        triggers.get_next_cron_triggers = lst
        periodic.rpc.get_engine_client = lambda: Client()
        # each project gets its own private workflow definition "wf"
        from mistral.services import workflows as wf_service
        for proj in sorted(set(c['project'] for c in trig_cfg.values())):
            mdb.set_ctx(mdb.ctx(proj))
            wf_service.create_workflows(WF)
        mdb.set_ctx(None)

    def _vt(self, dt):
        if dt is None:
            return -1
        if isinstance(dt, str):
            dt = datetime.datetime.strptime(dt.split('.')[0], '%Y-%m-%d %H:%M:%S')
        return int((dt - BASE).total_seconds() // 60)

    # -- steps -------------------------------------------------------------------------------
    def create(self, t):
        c = self.cfg[t]
        mdb.set_ctx(mdb.ctx(c['project']))
        name = c.get('name', 'trig')      # same name in every project on purpose (collision)
        pattern = {0: None, 1: '* * * * *', 5: '*/5 * * * *'}[c['period']]
        first = (BASE + datetime.timedelta(minutes=c['first'])) if c['first'] != -1 else None
        count = c['count'] if c['count'] != -1 else None
        try:
            self.triggers.create_cron_trigger(name, 'wf', {'p': 'in-%s' % t}, {'env': {'e': 'env-%s' % t}},
                                              pattern, first, count, None)
            self.created[t] = True
            self.names[(c['project'], name)] = t
            return True
        except Exception as e:
            self.errors.append(('create', t, repr(e)))
            return False
        finally:
            mdb.set_ctx(None)

    def list_(self, p):
        def body():
            _TL.proc = p
            self.periodic.process_cron_triggers_v2(None, None)
        g = Gate('cron-%d' % p, body)
        self.gates[p] = g
        self.listed[p] = 0
        g.start()
        return self.listed.get(p, 0)

    def at(self, p):
        g = self.gates.get(p)
        if g is None or g.done:
            return None
        return g.at

    def step(self, p, kind):
        g = self.gates.get(p)
        if g is None or g.done or g.at is None or g.at[0] != kind:
            return False
        g.step()
        if g.error is not None:
            self.errors.append(('proc', p, repr(g.error)))
        return True

    def crash(self, p):
        self.alive[p] = False
        g = self.gates.get(p)
        if g is not None and not g.done:
            if g.at is not None and g.at[0] == 'start':
                c = self.cur.get(p, {})
                if c.get('won'):
                    self.lost.add((c['t'], c['occ']))
            g.abandon()

    def tick(self, d):
        self.now += d
        self.timeutils.set_time_override(BASE + datetime.timedelta(minutes=self.now))

    def close(self):
        for p in list(self.alive):
            if self.alive[p]:
                self.crash(p)
        (self.keystone.client, self.keystone.client_for_admin, self.keystone.client_for_trusts,
         self.periodic.advance_cron_trigger, self.triggers.get_next_cron_triggers,
         self.periodic.rpc.get_engine_client) = self._saved
        self._sa_api.get_cron_trigger = self._orig_get
        self.timeutils.clear_time_override()
        mdb.set_ctx(None)

    # -- observation -------------------------------------------------------------------------
    def observe(self):
        rows = {t: (-2, -1) for t in self.cfg}
        for name, nxt, rem, proj in mdb.raw_rows(
                'select name, next_execution_time, remaining_executions, project_id from cron_triggers_v2'):
            t = self.names.get((proj, name))
            if t is not None:
                rows[t] = (self._vt(nxt), rem if rem is not None else -1)
        for t in self.cfg:
            old = self._rows[t]
            if self.created[t] and old[0] != -2 and rows[t][0] != old[0]:
                self.consumed[t].add(old[0])
        self._rows = rows
        nt = len(self.cfg)
        return dict(now=self.now, created=[self.created[t] for t in range(1, nt + 1)],
                    rowNext=[rows[t][0] for t in range(1, nt + 1)], rowRem=[rows[t][1] for t in range(1, nt + 1)],
                    starts=list(self.starts), consumed=[sorted(self.consumed[t]) for t in range(1, nt + 1)],
                    lost=[list(x) for x in sorted(self.lost)],
                    alive=[self.alive[p] for p in range(1, self.nproc + 1)],
                    busy=[self.alive[p] and self.at(p) is not None for p in range(1, self.nproc + 1)])
