"""Run checks against a patched scratch copy of /repo (never touches /repo).

usage: python -m harness.mutant <patch.diff> <Cxx> [<Cyy> ...] [--tier quick]
Prints, per check, the exit code and the VIOLATION/KNOWN-FINDING lines.
"""
import os
import shutil
import subprocess
import sys
import tempfile

VERIF = os.path.dirname(os.path.dirname(os.path.abspath(__file__)))


def run(patch, pids, tier='quick', keep=False):
    tmp = tempfile.mkdtemp(prefix='mut_', dir=os.environ.get('TMPDIR', '/tmp'))
    repo = os.path.join(tmp, 'repo')
    out = {}
    try:
        subprocess.check_call(['rsync', '-a', '--exclude', '.git', '--exclude', '__pycache__', '--exclude', '*.pyc',
                               '--exclude', 'mistral.log', '/repo/', repo + '/'])
        p = subprocess.run(['patch', '-p1', '-d', repo, '-i', os.path.abspath(patch)], stdout=subprocess.PIPE,
                           stderr=subprocess.STDOUT, text=True)
        if p.returncode != 0:
            print('PATCH FAILED', p.stdout)
            return None
        for pid in pids:
            env = dict(os.environ, VERIF_REPO=repo, VERIF_BUILD=os.path.join(tmp, 'build'),
                       VERIF_EVID=os.path.join(tmp, 'evidence'))
            r = subprocess.run([os.path.join(VERIF, 'check'), pid, '--tier', tier], cwd=VERIF, env=env,
                               stdout=subprocess.PIPE, stderr=subprocess.STDOUT, text=True)
            lines = [l for l in r.stdout.splitlines()
                     if l.startswith(('VIOLATION', 'KNOWN-FINDING', 'MACHINERY', 'DIVERGENCE', '  clause')) or l.startswith(pid)]
            out[pid] = (r.returncode, lines)
            print('== %s on %s: exit %d' % (pid, os.path.basename(patch), r.returncode))
            lines.sort(key=lambda l: 0 if l.startswith('VIOLATION') or l.startswith('  clause') else 1 if l.startswith(pid) else 2)
            for l in lines[:12]:
                print('   ' + l[:400])
    finally:
        if not keep:
            shutil.rmtree(tmp, ignore_errors=True)
    return out


if __name__ == '__main__':
    args = sys.argv[1:]
    tier = 'quick'
    if '--tier' in args:
        k = args.index('--tier')
        tier = args[k + 1]
        del args[k:k + 2]
    run(args[0], args[1:], tier)
