"""Prescribed outcomes: batch evaluation of spec/engine/WfSemantics.tla over the programs of recorded
runs; a run whose final outcome is matched by no terminal state of the semantics violates clause
'Prescribed' (C01 / C02 / C10 / C12)."""
import json
import os
import re
import shutil

from harness import common


def eligible(t):
    p, m = t['prog'], t['meta']
    if p['flags'].get('multi_trigger') or p['flags'].get('pause'):
        return False
    if m.get('c20') or m.get('dups'):
        return False
    if any(o['op'] in ('stop',) for o in m.get('ops', [])):
        return False
    for n, d in p['tasks'].items():
        if d['kind'] not in ('action', 'workflow') or d['timeout'] or d['pauseBefore']:
            return False
        # a task calling a sub-workflow: one instance per call (no items, no retry) - what the semantics models
        if d['kind'] == 'workflow' and (d['items'] >= 0 or d['retry']):
            return False
    # "as if the task had produced its new result the first time" is only meaningful when the failed attempt
    # did not already start follow-up work (an on-error / on-complete branch that ran cannot be undone)
    for k, st in enumerate(t['steps']):
        e = st['ev']
        if e['kind'] == 'op' and e['what'] == 'rerun' and k >= 1:
            tgt = [x for x in t['steps'][k - 1]['obs']['tk'] if x['sid'] == e.get('target')]
            if not tgt or tgt[0]['next'] or tgt[0]['state'] != 'ERROR' or tgt[0]['isJoin']:
                return False
            if p['type'] != 'direct' or p['flags'].get('sub'):
                return False
    last = t['steps'][-1]['obs']
    if not last['pend']['quiet']:
        return False
    # a run that came to rest with the execution still RUNNING / PAUSED is a hang: clause NoHang owns it
    root = [w for w in last['wf'] if w['sid'] == 'r']
    if not root or root[0]['state'] not in ('SUCCESS', 'ERROR'):
        return False
    # (cancelled sub-workflows, executions left unfinished below a finished root: other clauses own those)
    if any(w['state'] not in ('SUCCESS', 'ERROR') for w in last['wf']):
        return False
    names = [x['name'] for x in last['tk']]
    wnames = [w['name'] for w in last['wf']]
    return len(names) == len(set(names)) and len(wnames) == len(set(wnames))


def effective_outcomes(t):
    """SUCCESS / ERROR of every task as its LAST executed attempt (all items together) says - from the
    oracle and the attempts the executor ran, not from observed states; SKIPPED for a task the operator skipped."""
    runs = {}
    for (tag, i, a) in t['meta'].get('action_runs', []):
        runs[(tag, i)] = max(runs.get((tag, i), -1), a)
    skipped = set()
    for st in t['steps']:
        e = st['ev']
        if e['kind'] == 'op' and e['what'] == 'rerun' and e.get('arg') == 'skip' and e['exc'] == 'none' and e.get('target'):
            skipped.add(e['target'].split('/')[-1].split('#')[0])
    eff = {}
    for n, d in t['prog']['tasks'].items():
        oc = d['outcome']
        ok = True
        if d['items'] >= 0:
            idxs = range(d['items'])
        else:
            idxs = [0]
        for i in idxs:
            seq = oc[i] if i < len(oc) else ['ok']
            a = runs.get((n, i), 0)
            if seq[min(a, len(seq) - 1)] != 'ok':
                ok = False
        if d.get('failOn') and ok:
            ok = False
        eff[n] = 'SKIPPED' if n in skipped else ('SUCCESS' if ok else 'ERROR')
    return eff


def final_of(t):
    o = t['steps'][-1]['obs']
    root = [w for w in o['wf'] if w['sid'] == 'r'][0]
    return {'wf': root['state'], 'tasks': [[x['name'], x['state']] for x in o['tk']],
            'subs': [[w['name'][len(t['prog'].get('wbprefix', '')):] if w['name'].startswith(t['prog'].get('wbprefix', '') or '\0') else w['name'], w['state']]
                     for w in o['wf'] if w['sid'] != 'r']}


def judge(d, traces, chunk=300):
    """Returns (set of indexes into traces that are NOT prescribed, number judged, states, transitions)."""
    common.put_spec(d, os.path.join('engine', 'WfSemantics.tla'))
    idx = [i for i, t in enumerate(traces) if eligible(t)]
    groups = {}
    for i in idx:
        t = traces[i]
        eff = effective_outcomes(t)
        prog = {k: v for k, v in t['prog'].items() if k != 'flags'}
        prog = json.loads(json.dumps(prog))
        for n in prog['tasks']:
            prog['tasks'][n]['eff'] = eff[n]
        key = json.dumps(prog, sort_keys=True)
        groups.setdefault(key, (prog, []))[1].append(i)
    recs = []
    members = []
    for key, (prog, ms) in groups.items():
        recs.append({'prog': prog, 'finals': [final_of(traces[i]) for i in ms]})
        members.append(ms)
    bad = set()
    st = tr = 0
    for k in range(0, len(recs), chunk):
        part = recs[k:k + chunk]
        tf = os.path.join(d, 'sem_%d.ndjson' % k)
        with open(tf, 'w') as fh:
            for r_ in part:
                fh.write(json.dumps(r_) + '\n')
        mod = os.path.join(d, 'MC_WfSemantics_%d.tla' % k)
        with open(mod, 'w') as fh:
            fh.write('---- MODULE MC_WfSemantics_%d ----\nEXTENDS WfSemantics\n====\n' % k)
        with open(mod[:-4] + '.cfg', 'w') as fh:
            fh.write('SPECIFICATION Spec\nCONSTRAINT Report\nPROPERTY Terminates\nCHECK_DEADLOCK FALSE\n')
        r = common.run_tlc(mod, mod[:-4] + '.cfg', workers=1, env={'TRACE_FILE': tf}, timeout=3000, heap='3g', metatag='sem%d' % k)
        if not r.finished or r.prop_violations:
            raise common.MachineryError('WfSemantics evaluation failed (the semantics must terminate on every program):\n' + r.out[-3000:])
        st += r.distinct
        tr += r.generated
        terminals = set(int(m.group(1)) for m in re.finditer(r'<<"terminal", (\d+)>>', r.out))
        matched = set((int(m.group(1)), int(m.group(2))) for m in re.finditer(r'<<"match", (\d+), (\d+)>>', r.out))
        for pi, r_ in enumerate(part):
            if (pi + 1) not in terminals:
                raise common.MachineryError('WfSemantics reached no terminal state for program %d' % (k + pi))
            for fi in range(len(r_['finals'])):
                if (pi + 1, fi + 1) not in matched:
                    bad.add(members[k + pi][fi])
    return bad, len(idx), st, tr
