#!/bin/bash
# confirm_seed.sh <Cxx> : in the scratch worktree /tmp/seed/<Cxx> (change applied there):
#  1. demo fails with the change, 2. demo passes without it, 3. full existing suite passes with it.
# Writes /tmp/seedout/<Cxx>/confirm.txt
P=$1
WT=/tmp/seed/$P
OUT=/tmp/seedout/$P/confirm.txt
cd $WT || exit 2
git diff > /tmp/seedout/$P/patch.check.diff
echo "== demo WITH change" > $OUT
/venv/bin/python -m pytest -q -p no:cacheprovider /tmp/seedout/$P/demo_test.py 2>&1 | tail -3 >> $OUT
git apply -R /tmp/seedout/$P/patch.check.diff
echo "== demo WITHOUT change" >> $OUT
/venv/bin/python -m pytest -q -p no:cacheprovider /tmp/seedout/$P/demo_test.py 2>&1 | tail -3 >> $OUT
git apply /tmp/seedout/$P/patch.check.diff
echo "== full suite WITH change" >> $OUT
/venv/bin/python -m pytest -q -p no:cacheprovider --timeout=900 -n 6 mistral/tests 2>&1 | tail -6 >> $OUT
echo "== done" >> $OUT
