#!/bin/bash
# seedregress.sh [seed ids...] : every saved seeded change (seeded/<id>/patch.diff) is applied to a scratch worktree of /repo
# (never to /repo itself), the quick check of its property is run against that worktree, the change is reverted.
# One line per seed: "<id> <property> rc=<exit code> violations=<n> divergences=<n>"; rc=1 is what is expected.
WT=/tmp/repo_sr_$$
OUT=/tmp/sr_$$
git -C /repo worktree add --detach $WT HEAD > /dev/null 2>&1 || exit 2
mkdir -p $OUT
ids="$@"
[ -z "$ids" ] && ids=$(ls seeded)
for s in $ids; do
  p=$(/venv/bin/python -c "import json;print(json.load(open('seeded/$s/meta.json'))['property'])")
  if ! git -C $WT apply $(pwd)/seeded/$s/patch.diff 2> /dev/null; then echo "$s $p patch does not apply"; continue; fi
  VERIF_SEED=1 VERIF_REPO=$WT VERIF_EVID=$OUT/evid VERIF_BUILD=$OUT/build timeout 3400 ./check $p --tier quick > $OUT/$s.log 2>&1
  rc=$?
  echo "$s $p rc=$rc violations=$(grep -c '^VIOLATION' $OUT/$s.log) divergences=$(grep -c '^DIVERGENCE' $OUT/$s.log) $(grep -m1 'clause=' $OUT/$s.log | cut -c1-60)"
  git -C $WT checkout -- . ; git -C $WT clean -fdq
done
git -C /repo worktree remove --force $WT
rm -rf $OUT/build
