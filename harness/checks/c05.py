"""C05 - a task sees exactly the data published by the tasks that causally precede it."""
import concurrent.futures as cf
import json
import os
import random
import re
import shutil
import time

from harness import common, dfgen, engcheck, engrun
from harness.checks import engine_common as ec

PID = 'C05'
ABSENT = '<absent>'
CLAUSES = ['SeesLatest', 'ProbeSeesLatest', 'GlobalVisible', 'OutputSeesLatest', 'PublishedAsDefined', 'NoMutation']


def _canon(v):
    return json.dumps(v, sort_keys=True)


def enrich(t):
    """Re-encode the stored contexts of the final observation per variable (no judgement here)."""
    prog = t['prog']
    allv = prog['vars'] + prog['gvars']
    o = t['steps'][-1]['obs']
    for x in o['tk']:
        ctx = json.loads(x['inCtx']) if x['inCtx'] not in ('', 'null') else {}
        pub = json.loads(x['published']) if x['published'] not in ('', 'null') else {}
        x['seen'] = {v: (_canon(ctx[v]) if isinstance(ctx, dict) and v in ctx else ABSENT) for v in allv}
        x['pubv'] = {v: (_canon(pub[v]) if isinstance(pub, dict) and v in pub else ABSENT) for v in allv}
    for a in o['ax']:
        pr = json.loads(a['probe']) if a.get('probe') else None
        a['hasProbe'] = isinstance(pr, dict)
        a['pv'] = {v: _canon((pr or {}).get(v)) for v in allv}
    for w in o['wf']:
        try:
            out = json.loads(w['output'])
        except ValueError:
            out = {}
        w['outv'] = {v: _canon(out.get(v)) if isinstance(out, dict) else 'null' for v in allv}
    return t


def var_shapes(prog, x):
    """Shapes of the values the definition can give to variable x: 'scalar' or a tuple of keys."""
    shapes = set()
    for d in prog['tasks'].values():
        for key in ('bS', 'bE'):
            v = d[key].get(x)
            if v:
                val = json.loads(v)
                shapes.add(tuple(sorted(val)) if isinstance(val, dict) else 'scalar')
    if prog['inputVals'].get(x, 'null') != 'null':
        shapes.add('scalar')
    return shapes


def df_sig(t, clause, details):
    """Situation attributes for known findings: value shapes of the failing variables, publish mechanisms of
    the tasks involved."""
    prog = t['prog']
    fv = sorted(set(x for (sid, x) in details))
    kinds = []
    for x in fv:
        sh = var_shapes(prog, x)
        if 'scalar' in sh and len(sh) > 1:
            kinds.append('kind_change')
        elif len(sh) > 1:
            kinds.append('keys_differ')
        else:
            kinds.append('uniform')
    o = t['steps'][-1]['obs']
    state = {x['sid']: (x['name'], x['state']) for x in o['tk']}
    mix = False
    for x in o['tk']:
        d = prog['tasks'][x['name']]
        if (x['state'] == 'SUCCESS' and d['mixS']) or (x['state'] == 'ERROR' and d['mixE']):
            mix = True
    return {'clause': clause, 'failing_vars_shape': ('uniform' if 'uniform' in kinds else 'kind_change' if 'kind_change' in kinds
                                                     else 'keys_differ' if kinds else 'none'),
            'task_publish_next_to_global_only_clause': mix}


def judge(d, traces, chunk=120):
    common.put_spec(d, *[os.path.join('dataflow', f_) for f_ in ('DataFlowObsTrace.tla',)])
    nch = (len(traces) + chunk - 1) // chunk

    def one(k):
        part = traces[k * chunk:(k + 1) * chunk]
        tf = os.path.join(d, 'df_%d.ndjson' % k)
        with open(tf, 'w') as fh:
            for t in part:
                fh.write(json.dumps({'prog': t['prog'], 'steps': t['steps']}) + '\n')
        mod = os.path.join(d, 'MC_DataFlowObsTrace_%d.tla' % k)
        with open(mod, 'w') as fh:
            fh.write('---- MODULE MC_DataFlowObsTrace_%d ----\nEXTENDS DataFlowObsTrace\n====\n' % k)
        cfgp = os.path.join(d, 'MC_DataFlowObsTrace_%d.cfg' % k)
        with open(cfgp, 'w') as fh:
            fh.write('SPECIFICATION TSpec\nCONSTRAINT Report\nCHECK_DEADLOCK FALSE\n')
        r = common.run_tlc(mod, cfgp, workers=1, env={'TRACE_FILE': tf}, timeout=3000, metatag='df%d' % k, heap='3g')
        if not r.finished:
            raise common.MachineryError('DataFlowObsTrace did not finish:\n' + r.out[-3000:])
        viols, details = {}, {}
        for m in re.finditer(r'<<"viol", (\d+), (\d+), "(\w+)">>', r.out):
            viols.setdefault(k * chunk + int(m.group(1)), []).append((int(m.group(2)), m.group(3)))
        for m in re.finditer(r'<<"detail", (\d+), "(\w+)", "([^"]*)", "(\w+)">>', r.out):
            details.setdefault((k * chunk + int(m.group(1)), m.group(2)), set()).add((m.group(3), m.group(4)))
        done = set(int(m.group(1)) for m in re.finditer(r'<<"done", (\d+), (\d+)>>', r.out))
        if len(done) != len(part):
            raise common.MachineryError('DataFlowObsTrace judged %d of %d runs in chunk %d:\n%s' % (len(done), len(part), k, r.out[-2500:]))
        return viols, details, r.distinct, r.generated

    viols, details, st, tr = {}, {}, 0, 0
    with cf.ThreadPoolExecutor(max_workers=min(common.NCPU, max(1, nch))) as ex:
        for v, dt, a, b in ex.map(one, range(nch)):
            viols.update(v)
            details.update(dt)
            st += a
            tr += b
    return viols, details, st, tr


MODEL_CONFIGS = {
    'quick': [('flat5', 5, [], False, False), ('homog4', 4, ['k', 'm'], True, True)],
    'thorough': [('flat5', 5, [], False, False), ('homog5', 5, ['k', 'm'], True, True), ('flat6', 6, [], False, False)],
}


def model_runs(d, tier):
    """DataFlow.tla: the version-merge algorithm satisfies SeesLatest on every graph / publish placement / fold order
    of the classes in which the real engine is demanded to satisfy it."""
    out = []
    common.put_spec(d, os.path.join('dataflow', 'DataFlow.tla'))

    def one(c):
        nm, n, keys, nested, homog = c
        cfgp = os.path.join(d, 'DataFlow_%s.cfg' % nm)
        with open(cfgp, 'w') as fh:
            fh.write('SPECIFICATION Spec\nCONSTANTS\n  N = %d\n  Keys = {%s}\n  AllowNested = %s\n  Homogeneous = %s\n'
                     'INVARIANT SeesLatest\nINVARIANT NoStaleCopy\nPROPERTY AllRun\nCHECK_DEADLOCK FALSE\n'
                     % (n, ', '.join('"%s"' % k for k in keys), 'TRUE' if nested else 'FALSE', 'TRUE' if homog else 'FALSE'))
        mod = os.path.join(d, 'MC_DataFlow_%s.tla' % nm)
        with open(mod, 'w') as fh:
            fh.write('---- MODULE MC_DataFlow_%s ----\nEXTENDS DataFlow\n====\n' % nm)
        return nm, common.run_tlc(mod, cfgp, workers=4, timeout=3000, metatag='dfm_' + nm, heap='4g')

    with cf.ThreadPoolExecutor(max_workers=3) as ex:
        for nm, r in ex.map(one, MODEL_CONFIGS[tier]):
            if not r.finished or not r.ok:
                raise common.MachineryError('DataFlow.tla config %s: invariant violated or not finished (spec defect):\n%s' % (nm, r.out[-3000:]))
            out.append({'config': 'DataFlow/' + nm, 'distinct_states': r.distinct, 'generated': r.generated, 'ok': r.ok})
    return out


def jobs_for(tier, rnd):
    n = 240 if tier == 'quick' else 4000
    jobs = []
    for k in range(n):
        seed = rnd.randrange(1 << 30)
        r = random.Random(seed)
        mode = k % 4
        if mode == 1 and k % 8 == 1:
            P = dfgen.gen_dataflow(r, nested_p=0.5, homogeneous=True, deep=True)   # one two-level shape per program
        elif mode in (0, 1):
            P = dfgen.gen_dataflow(r, nested_p=0.0)                      # scalars
        elif mode == 2:
            P = dfgen.gen_dataflow(r, nested_p=0.5, homogeneous=True)    # one shape per program
        else:
            P = dfgen.gen_dataflow(r, nested_p=0.35)                     # scalar <-> nested, different key sets
        jobs.append(dict(prog=P, scheduler=('default', 'legacy')[k % 2], policy=engrun.POLICIES[k % len(engrun.POLICIES)], seed=seed,
                         label='df%d' % k, evict=bool(k % 3 == 0), ids=('rand', 'asc', 'desc')[k % 3]))
    # fixed shapes (re-publication inside one branch of a fork, every value kind) under both id orders of the sibling rows
    for nm, P in dfgen.catalogue():
        for ids in ('asc', 'desc'):
            for sch in ('default', 'legacy'):
                jobs.append(dict(prog=P, scheduler=sch, policy='random', seed=3, label=nm, ids=ids))
    return jobs


def run(tier, jobs=None):
    t0 = time.time()
    rnd = random.Random(common.seed() + 5)
    verdict = common.Verdict(PID)
    d = common.builddir('c05', clean=True)
    jobs = jobs or jobs_for(tier, rnd)
    traces = engcheck.run_jobs(jobs)
    errs = [t for t in traces if 'error' in t]
    if errs:
        raise common.MachineryError('%d runs failed inside the harness, first:\n%s' % (len(errs), errs[0]['error']))
    # a join that is triggered again after it already ran or failed (Task.defer re-arms it: KF-C04-1, judged by C04)
    # runs twice and has no single inbound context: such runs are outside the class judged here
    def rearmed(t):
        return any(wr['kind'] == 'tk' and wr['to'] == 'WAITING' and wr['frm'] in ('RUNNING', 'SUCCESS', 'ERROR')
                   for s_ in t['steps'] for wr in s_['ev'].get('writes', []))
    nall = len(traces)
    traces = [t for t in traces if not rearmed(t)]
    skipped = nall - len(traces)
    for t in traces:
        enrich(t)
    viols, details, st, tr = judge(d, traces)
    models = model_runs(d, tier)
    st += sum(m['distinct_states'] for m in models)
    tr += sum(m['generated'] for m in models)
    for tid, lst in sorted(viols.items()):
        t = traces[tid - 1]
        seen = set()
        for (l, clause) in sorted(lst):
            if clause in seen:
                continue
            seen.add(clause)
            det = details.get((tid, clause), set())
            sig = df_sig(t, clause, det)
            o = t['steps'][l - 1]['obs']
            msg = ('%s false at step %d of run [%s scheduler=%s policy=%s seed=%s]; failing (task execution, variable): %s'
                   % (clause, l, t['meta'].get('label', ''), t['meta']['scheduler'], t['meta']['policy'], t['meta']['seed'], sorted(det)[:6]))
            verdict.violation(sig, msg, {'yaml': t['meta'].get('yaml'), 'meta': {k: v for k, v in t['meta'].items() if k not in ('yaml', 'action_runs')},
                                         'failing': sorted(det), 'failing_step': l, 'job': t.get('job'),
                                         'tasks': [{k: x.get(k) for k in ('sid', 'state', 'trig', 'inCtx', 'published', 'hasNext')} for x in o['tk']],
                                         'probes': [{k: a.get(k) for k in ('sid', 'probe')} for a in o['ax']],
                                         'wf': [{k: w.get(k) for k in ('sid', 'state', 'output', 'inp')} for w in o['wf']]})
    rc = verdict.finish()
    nontriv = len(set(json.dumps(t['prog'], sort_keys=True) for t in traces
                      if sum(1 for x in t['steps'][-1]['obs']['tk'] if x['isJoin'] and x['state'] in ('SUCCESS', 'ERROR')) >= 1
                      and sum(1 for x in t['steps'][-1]['obs']['tk'] if x['published'] not in ('', 'null', '{}')) >= 2))
    common.write_evidence(PID, tier, 'model_checking', {
        'states': max(1, st), 'transitions': max(1, tr), 'traces_validated_against_impl': len(traces), 'evaluations': len(traces),
        'distinct_nontrivial': nontriv,
        'rule': 'generated fork/join programs (3-6 tasks, every multi-inbound task a join: all) with task-level publish / publish-on-error and '
                'transition-level branch / global publish of 3 branch variables and 1 global variable, scalar, one-level and two-level nested values, YAQL / '
                'Jinja / literal renderings, x0 optionally also a workflow input; both schedulers, 8 schedule policies, cache eviction; clauses '
                + ', '.join(CLAUSES) + ' judged by TLC (DataFlowObsTrace) on every run; non-trivial = distinct programs in which a join ran and at '
                'least two tasks published',
        'runs_skipped_join_rearmed': skipped, 'model_runs': models, 'known_findings_hit': verdict.known_hits,
        'samples': [{'yaml': traces[0]['meta']['yaml']}],
    }, time.time() - t0, len(verdict.violations), ec.LEVEL_ASSUME + [
        'id order of sibling task rows (the order in which the engine folds upstream contexts) is a controlled dimension: creation '
        'order, reversed creation order, or random (uuid4); the model explores all fold orders'])
    print('C05 %s: %d runs of the real engine judged by TLC (%d non-trivial programs), DataFlow.tla %s, %d violations, known findings %s, %.1fs'
          % (tier, len(traces), nontriv, [(m['config'], m['distinct_states']) for m in models], len(verdict.violations), verdict.known_hits,
             time.time() - t0))
    return rc


def replay(path):
    """Re-execute the stored program under the stored schedule parameters and judge it again (evidence of the re-run
    goes to a scratch directory)."""
    import base64
    import pickle
    import tempfile
    doc = json.load(open(path))
    job = (doc.get('replay') or {}).get('job')
    if not job:
        print('this replay file carries no executable job description')
        return 2
    common.EVID = tempfile.mkdtemp(prefix='c05replay')
    global model_runs
    model_runs = lambda d, tier: []
    return run('quick', jobs=[pickle.loads(base64.b64decode(job))])
