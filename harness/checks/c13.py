"""C13 - scheduled jobs.  Specs: spec/sched/{SchedulerProps,Scheduler,LegacyScheduler,
SchedulerObsTrace,SchedulerTrace}.tla.

1. TLC checks Scheduler.tla (DefaultScheduler: 2..3 instances, 2..3 jobs, crash anywhere, serial
   and open-transaction modes) and LegacyScheduler.tla exhaustively: NotEarly, OnceWithinTimeout,
   NeverIfRolledBack, OnlyScheduled, HasJobsExact (modulo the known finding), and under fairness
   AtLeastOnce / Drains (recovery after a crash of the capturer).
2. spec -> code: behaviours sampled by `tlc -simulate` are executed step by step on real
   scheduler objects sharing one database (harness/schedworld.py); code -> spec: additional
   executions follow a seeded random schedule over the steps the real objects enable.
3. Every recorded execution is judged by TLC with the property formulas over the observations
   (SchedulerObsTrace, decisive) and validated as a behaviour of the model (SchedulerTrace,
   divergence only).
"""
import glob
import json
import multiprocessing as mp
import os
import random
import re
import shutil
import time

from harness import common

PID = 'C13'

CONFIGS = {
    # name: constants
    'q22': dict(kind='default', ninst=2, jobs={1: dict(key='k1', delay=0, owner=1), 2: dict(key='k1', delay=1, owner=2)},
                pickup=2, cap=2, batch=0, maxtime=6, schedby=1, crashby=3),
    't22': dict(kind='default', ninst=2, jobs={1: dict(key='k1', delay=0, owner=1), 2: dict(key='k2', delay=1, owner=1)},
                pickup=2, cap=2, batch=1, maxtime=7, schedby=1, crashby=4),
    't32': dict(kind='default', ninst=3, jobs={1: dict(key='k1', delay=0, owner=1), 2: dict(key='k1', delay=1, owner=2)},
                pickup=2, cap=2, batch=0, maxtime=6, schedby=1, crashby=3),
    't23': dict(kind='default', ninst=2, jobs={1: dict(key='k1', delay=0, owner=1), 2: dict(key='k1', delay=1, owner=2),
                                               3: dict(key='k2', delay=0, owner=2)},
                pickup=2, cap=2, batch=2, maxtime=5, schedby=0, crashby=2),
}


def write_model(d, name, c, serial=True, mortal_late=True, spec='Spec', props=(), module='Scheduler', extra_inv=()):
    jobs = c['jobs']
    keys = sorted(set(j['key'] for j in jobs.values()))
    fn = lambda f: ' @@ '.join('(%d :> %s)' % (j, common.tla(f(v))) for j, v in sorted(jobs.items()))
    mc = 'MC_%s_%s' % (module, name)
    with open(os.path.join(d, mc + '.tla'), 'w') as fh:
        fh.write('---- MODULE %s ----\nEXTENDS %s\nMC_KeyOf == %s\nMC_Owner == %s\nMC_Delay == %s\n====\n'
                 % (mc, module, fn(lambda v: v['key']), fn(lambda v: v['owner']), fn(lambda v: v['delay'])))
    consts = ('CONSTANTS\n Inst = {%s}\n Jobs = {%s}\n Keys = {%s}\n KeyOf <- MC_KeyOf\n Owner <- MC_Owner\n Delay <- MC_Delay\n'
              ' CapTimeout = %d\n Pickup = %d\n Batch = %d\n MaxTime = %d\n SchedBy = %d\n CrashBy = %d\n Immortal = {1}\n'
              ' Serial = %s\n MortalActLate = %s\n'
              % (', '.join(str(i) for i in range(1, c['ninst'] + 1)), ', '.join(str(j) for j in sorted(jobs)),
                 ', '.join('"%s"' % k for k in keys), c['cap'], c['pickup'], c['batch'], c['maxtime'], c['schedby'],
                 c['crashby'], common.tla(serial), common.tla(mortal_late)))
    return mc, consts


INVS = ['NotEarly', 'OnceWithinTimeout', 'NeverIfRolledBack', 'OnlyScheduled', 'HasJobsExactModuloKF', 'TypeOK']


def model_check(d, name, c, serial=True, live=False, module='Scheduler', timeout=3000, coverage=False):
    mc, consts = write_model(d, name + ('' if serial else '_open') + ('_live' if live else ''), c, serial=serial,
                             mortal_late=not live, module=module)
    cfgp = os.path.join(d, mc + '.cfg')
    with open(cfgp, 'w') as fh:
        fh.write('SPECIFICATION %s\n' % ('FairSpec' if live else 'Spec') + consts + 'VIEW view\n' +
                 ''.join('INVARIANT %s\n' % i for i in INVS) +
                 ('PROPERTY AtLeastOnce\nPROPERTY Drains\n' if live else '') + 'CHECK_DEADLOCK FALSE\n')
    r = common.run_tlc(os.path.join(d, mc + '.tla'), cfgp, timeout=timeout, coverage=coverage)
    return r


def simulate(d, name, c, num, depth, seed, module='Scheduler'):
    mc, consts = write_model(d, name + '_sim', c, module=module)
    cfgp = os.path.join(d, mc + '.cfg')
    with open(cfgp, 'w') as fh:
        fh.write('SPECIFICATION Spec\n' + consts + 'CHECK_DEADLOCK FALSE\n')
    sd = os.path.join(d, 'sim_' + name)
    shutil.rmtree(sd, ignore_errors=True)
    os.makedirs(sd)
    common.run_tlc(os.path.join(d, mc + '.tla'), cfgp, workers=1, simulate='file=%s/tr,num=%d' % (sd, num), depth=depth,
                   seed_=seed, timeout=600)
    behs = []
    for f in sorted(glob.glob(os.path.join(sd, 'tr_*'))):
        evs = []
        for m in re.finditer(r'^/\\ ev = (.*)$', open(f).read(), re.M):
            e = common.parse_tla(m.group(1))
            if e.get('a') != 'Init':
                evs.append(e)
        behs.append(evs)
    shutil.rmtree(sd, ignore_errors=True)
    return behs


# ---------------------------------------------------------------------------------------------
# executing a schedule on real objects (worker process)

def _arr(d_, n):
    return [d_[k] for k in range(1, n + 1)]


def obs_json(o, c):
    nj, ni = len(c['jobs']), c['ninst']
    return dict(now=o['now'], tx=_arr(o['tx'], nj), execAt=_arr(o['execAt'], nj), rowCap=_arr(o['rowCap'], nj),
                invCount=_arr(o['invCount'], nj), invAt=_arr(o['invAt'], nj), invCaps=_arr(o['invCaps'], nj),
                imj=_arr(o['imj'], ni), lcap=[_arr(o['lcap'][i], nj) for i in range(1, ni + 1)],
                alive=_arr(o['alive'], ni), ans=[o['ans'][i] for i in range(1, ni + 1)])


def enabled_steps(w, c):
    """Steps the real objects can take now (used by the random schedules)."""
    out = []
    for j, spec in c['jobs'].items():
        if w.tx[j] == 'none' and w.alive[spec['owner']] and w.now <= c['schedby']:
            out.append({'a': 'Schedule', 'i': spec['owner'], 'j': j, 'c': True})
            out.append({'a': 'Schedule', 'i': spec['owner'], 'j': j, 'c': False})
    for i in range(1, c['ninst'] + 1):
        if not w.alive[i]:
            continue
        if w.kind == 'default':
            s = w.sched[i]
            if any(e[0] <= w.lib_utils.utc_now_sec() for e in s._heap):
                out.append({'a': 'Dispatch', 'i': i})
            elif s._heap:
                # nothing is due: the dispatcher may still be woken (a notify by another schedule() call, a spurious wake-up)
                out.append({'a': 'Wake', 'i': i})
        for (ii, j), g in w.mem.items():
            if ii == i and not g.done and g.at is not None:
                out.append({'a': {'capture': 'MemCapture', 'invoke': 'MemInvoke', 'delete': 'MemDelete'}[g.at[0]], 'i': i, 'j': j})
        at = w.poll_at(i)
        if at is None:
            out.append({'a': 'Poll', 'i': i})
        else:
            out.append({'a': {'invoke': 'PollInvoke', 'delete': 'PollDelete'}[at[0]], 'i': i})
        if i != 1 and w.now <= c['crashby']:
            out.append({'a': 'Crash', 'i': i})
    if w.now < c['maxtime']:
        out.append({'a': 'Tick'})
    return out


def apply_step(w, e):
    """Perform one step on the real objects.  Returns the event actually logged (None if the
    step could not be taken at all)."""
    a = e['a']
    if a == 'Schedule':
        w.schedule(e['i'], e['j'], e['c'])
        return e
    if a == 'Tick':
        w.tick()
        return e
    if a == 'Crash':
        w.crash(e['i'])
        return e
    if a in ('Dispatch', 'Wake'):
        w.dispatch(e['i'])
        return e
    if a in ('MemCapture', 'MemInvoke', 'MemDelete'):
        ok = w.mem_step(e['i'], e['j'], {'MemCapture': 'capture', 'MemInvoke': 'invoke', 'MemDelete': 'delete'}[a])
        return e if ok else None
    if a == 'Poll':
        if w.poll_at(e['i']) is not None:
            return None
        at = w.poll_start(e['i'])
        if at is None:
            return {'a': 'PollNothing', 'i': e['i']}
        return {'a': 'Poll', 'i': e['i']}
    if a in ('PollInvoke', 'PollDelete'):
        at = w.poll_at(e['i'])
        kind = 'invoke' if a == 'PollInvoke' else 'delete'
        if at is None or at[0] != kind:
            return None
        info = at[1]
        w.poll_step(e['i'], kind)
        if w.kind == 'legacy' and kind == 'delete':
            return {'a': 'PollDeleteAll', 'i': e['i']}
        return {'a': a, 'i': e['i'], 'j': info}
    return None


_WORLD_RUN = [0]


def _winit(repo):
    os.environ['VERIF_REPO'] = repo
    from harness import mdb
    mdb.boot()


def run_schedule(args):
    cname, c, evs, mode, seed = args
    from harness import schedworld
    _WORLD_RUN[0] += 1
    w = schedworld.SchedWorld(c['kind'], c['ninst'], c['jobs'], c['pickup'], c['cap'], c['batch'], _WORLD_RUN[0])
    steps = [dict(ev={'a': 'Init'}, obs=obs_json(w.observe(), c))]
    skipped = 0
    rnd = random.Random(seed)
    try:
        if mode == 'replay':
            for e in evs:
                le = apply_step(w, e)
                if le is None:
                    skipped += 1
                    continue
                steps.append(dict(ev=le, obs=obs_json(w.observe(), c)))
        elif mode == 'interfere':
            # random schedule in which, now and then, another scheduler process captures (and invokes) an eligible job right before
            # a capture statement of an observed instance
            for _ in range(evs):
                en = [e for e in enabled_steps(w, c) if e['a'] != 'Crash']
                if not en:
                    break
                wts = [0.3 if (e['a'] == 'Schedule' and not e['c']) else 2.0 if e['a'] == 'Schedule' else 1.5 if e['a'] == 'Tick' else 1.0 for e in en]
                e = rnd.choices(en, wts)[0]
                if e['a'] in ('MemCapture', 'Poll') and rnd.random() < 0.6:
                    w.armed.add(e['i'])
                le = apply_step(w, e)
                w.armed.discard(e.get('i'))
                if le is None:
                    continue
                steps.append(dict(ev=le, obs=obs_json(w.observe(), c)))
        else:
            for _ in range(evs):
                en = enabled_steps(w, c)
                if not en:
                    break
                # bias: fewer crashes / rollbacks, more ticks late
                wts = [0.25 if e['a'] == 'Crash' else 0.5 if (e['a'] == 'Schedule' and not e['c']) else
                       2.0 if e['a'] in ('Schedule',) else 1.0 for e in en]
                e = rnd.choices(en, wts)[0]
                le = apply_step(w, e)
                if le is None:
                    continue
                steps.append(dict(ev=le, obs=obs_json(w.observe(), c)))
        errors = list(w.errors)
    finally:
        w.close()
    return dict(cfg=cname, mode=mode, steps=steps, skipped=skipped, errors=errors)


# ---------------------------------------------------------------------------------------------

def validate(d, cname, c, traces, strict, tag):
    """Run TLC over recorded executions.  Returns dict tid -> info."""
    module = 'SchedulerTrace' if strict else 'SchedulerObsTrace'
    if c['kind'] == 'legacy':
        module = 'LegacySchedulerTrace' if strict else 'SchedulerObsTrace'
    mc, consts = write_model(d, '%s_%s' % (cname, tag), c, module=module)
    if not strict:
        # the observation spec only has the SchedulerProps constants
        consts = '\n'.join(l for l in consts.splitlines()
                           if not re.match(r'^ (Delay|Pickup|Batch|MaxTime|SchedBy|CrashBy|Immortal|Serial|MortalActLate)\b', l)) + '\n'
        txt = open(os.path.join(d, mc + '.tla')).read().replace('MC_Delay ==', 'MC_DelayUnused ==')
        open(os.path.join(d, mc + '.tla'), 'w').write(txt)
    tf = os.path.join(d, 'traces_%s_%s.ndjson' % (cname, tag))
    with open(tf, 'w') as fh:
        for t in traces:
            fh.write(json.dumps({'steps': t['steps']}) + '\n')
    cfgp = os.path.join(d, mc + '.cfg')
    with open(cfgp, 'w') as fh:
        fh.write('SPECIFICATION TSpec\n' + consts + 'CONSTRAINT Report\nCHECK_DEADLOCK FALSE\n')
    r = common.run_tlc(os.path.join(d, mc + '.tla'), cfgp, workers=1, env={'TRACE_FILE': tf}, timeout=3000,
                       metatag='c13%s%s' % (cname, tag))
    if not r.finished:
        raise common.MachineryError('trace validation did not finish:\n' + r.out[-3000:])
    return r


def run(tier):
    t0 = time.time()
    verdict = common.Verdict(PID)
    d = common.builddir('c13', clean=True)
    for f in glob.glob(os.path.join(common.SPEC, 'sched', '*.tla')):
        shutil.copy(f, d)
    states = trans = 0
    model_runs = []
    names = ['q22'] if tier == 'quick' else ['q22', 't22', 't32', 't23']
    kf_reached = 0
    for nm in names:
        c = CONFIGS[nm]
        r = model_check(d, nm, c, serial=True, coverage=(tier == 'thorough'))
        model_runs.append((nm, 'serial', r))
        if tier == 'thorough' or nm == 'q22':
            r2 = model_check(d, nm, dict(c, maxtime=min(c['maxtime'], 5), crashby=min(c['crashby'], 2)), serial=False)
            model_runs.append((nm, 'open-tx', r2))
    live_c = dict(CONFIGS['q22'])
    rl = model_check(d, 'q22', live_c, serial=True, live=True)
    model_runs.append(('q22', 'liveness', rl))
    # legacy scheduler model
    leg = dict(CONFIGS['q22'], kind='legacy')
    rleg = model_check(d, 'leg22', leg, module='LegacyScheduler')
    model_runs.append(('leg22', 'legacy', rleg))
    if tier == 'thorough':
        leg3 = dict(CONFIGS['t23'], kind='legacy')
        model_runs.append(('leg23', 'legacy', model_check(d, 'leg23', leg3, module='LegacyScheduler')))
    for nm, mode, r in model_runs:
        states += r.distinct
        trans += r.generated
        if not r.finished or not r.ok:
            raise common.MachineryError('model %s/%s: TLC reports a violation in the model itself; the model is meant to satisfy the '
                                        'properties modulo known findings - spec defect or unmodelled defect:\n%s' % (nm, mode, r.out[-3500:]))

    # ---- schedules: TLC behaviours (spec -> code) + random real-enabled schedules (code -> spec)
    nsim = 60 if tier == 'quick' else 400
    nrand = 60 if tier == 'quick' else 400
    jobs_ = []
    for nm in (['q22'] if tier == 'quick' else ['q22', 't22', 't32', 't23']):
        c = CONFIGS[nm]
        for b in simulate(d, nm, c, nsim, 40, common.seed() + 11):
            jobs_.append((nm, c, b, 'replay', 0))
        for k in range(nrand):
            jobs_.append((nm, c, 45, 'random', common.seed() * 100003 + k))
        for k in range(nrand):
            jobs_.append((nm, dict(c, cap=2), 60, 'interfere', common.seed() * 100043 + k))
    legc = dict(CONFIGS['q22'], kind='legacy')
    for b in simulate(d, 'leg22', legc, nsim, 40, common.seed() + 13, module='LegacyScheduler'):
        jobs_.append(('leg22', legc, b, 'replay', 0))
    for k in range(nrand):
        jobs_.append(('leg22', legc, 45, 'random', common.seed() * 100019 + k))
    with mp.get_context('spawn').Pool(max(2, common.NCPU - 2), initializer=_winit, initargs=(common.REPO,)) as pool:
        traces = pool.map(run_schedule, jobs_, chunksize=4)
    for t in traces:
        # deleting a row that another instance already deleted raises DBEntityNotFoundError in the
        # real code (a no-op delete in the model): expected, not reported
        errs = [e for e in t['errors'] if 'DBEntityNotFoundError' not in repr(e)]
        if errs:
            verdict.divergence('real scheduler raised inside a step: %s' % (errs[:2],))

    # ---- TLC judges
    by_cfg = {}
    for t in traces:
        by_cfg.setdefault(t['cfg'], []).append(t)
    n_ok = n_div = 0
    nontrivial = set()
    kf_hits = 0
    samples = []
    cfgmap = dict(CONFIGS)
    cfgmap['leg22'] = legc
    for cname, ts in sorted(by_cfg.items()):
        c = cfgmap[cname]
        ro = validate(d, cname, c, ts, strict=False, tag='obs')
        states += ro.distinct
        trans += ro.generated
        done = set(int(m.group(1)) for m in re.finditer(r'<<"done", (\d+)>>', ro.out))
        if len(done) != len(ts):
            raise common.MachineryError('observation spec judged %d of %d executions (%s)' % (len(done), len(ts), cname))
        viols = {}
        for m in re.finditer(r'<<"viol", (\d+), (\d+), "(\w+)">>', ro.out):
            viols.setdefault(int(m.group(1)), []).append((int(m.group(2)), m.group(3)))
        kfs = set(int(m.group(1)) for m in re.finditer(r'<<"kf", (\d+), (\d+), "(\w+)">>', ro.out))
        # (executions with statement-level interference are judged by the property formulas only)
        rs = validate(d, cname, c, [t_ if t_['mode'] != 'interfere' else dict(t_, steps=t_['steps'][:1]) for t_ in ts], strict=True, tag='strict')
        states += rs.distinct
        trans += rs.generated
        acc = set(int(m.group(1)) for m in re.finditer(r'<<"accepted", (\d+)>>', rs.out))
        reached = {}
        for m in re.finditer(r'<<"reached", (\d+), (\d+)>>', rs.out):
            reached[int(m.group(1))] = max(reached.get(int(m.group(1)), 0), int(m.group(2)))
        for k, t in enumerate(ts):
            tid = k + 1
            evs = [s['ev']['a'] for s in t['steps']]
            last = t['steps'][-1]['obs']
            if sum(last['invCount']) > 0:
                nontrivial.add(json.dumps([cname] + [s['ev'] for s in t['steps']], sort_keys=True))
            if tid in kfs:
                kf_hits += 1
                verdict.violation({'clause': 'HasJobsExact', 'situation': 'KF_StaleMemoryCopy'}, 'known', None)
            for (l, clause) in sorted(viols.get(tid, []))[:1]:
                sig = {'clause': clause, 'scheduler': c['kind'], 'event': t['steps'][l - 1]['ev']['a']}
                verdict.violation(sig, 'config %s, step %d (%s): %s false on the real scheduler objects; events so far: %s'
                                  % (cname, l, json.dumps(t['steps'][l - 1]['ev']), clause,
                                     ' '.join('%s%s' % (s['ev']['a'], tuple(v for k2, v in s['ev'].items() if k2 != 'a'))
                                              for s in t['steps'][:l])),
                                  {'config': cname, 'constants': c, 'events': [s['ev'] for s in t['steps']][1:], 'failing_step': l})
            if tid in acc:
                n_ok += 1
            else:
                n_div += 1
                if n_div <= 5:
                    k2 = reached.get(tid, 0)
                    verdict.divergence('config %s: execution not a behaviour of the model; longest matched prefix %d of %d; next event %s'
                                       % (cname, k2, len(t['steps']),
                                          json.dumps(t['steps'][k2]) if k2 < len(t['steps']) else '-'))
            if len(samples) < 3 and len(t['steps']) > 12 and 'Crash' in evs:
                samples.append({'config': cname, 'events': [s['ev'] for s in t['steps']][1:], 'final': last})
    rc = verdict.finish()
    common.write_evidence(PID, tier, 'model_checking', {
        'states': states, 'transitions': trans,
        'traces_validated_against_impl': len(traces), 'traces_accepted_strict': n_ok, 'divergences': n_div,
        'model_runs': [{'config': nm, 'mode': mode, 'distinct_states': r.distinct} for nm, mode, r in model_runs],
        'evaluations': len(traces), 'distinct_nontrivial': len(nontrivial),
        'rule': 'executions of real DefaultScheduler/LegacyScheduler objects: TLC -simulate behaviours replayed + seeded random '
                'schedules over real-enabled steps; non-trivial = distinct event sequences with at least one invocation',
        'known_finding_situations_observed': kf_hits,
        'samples': samples or [{'events': [s['ev'] for s in traces[0]['steps']]}],
        'known_findings_hit': verdict.known_hits,
    }, time.time() - t0, len(verdict.violations),
        ['transactions are serial in one process (tx_lock); the open-transaction mode is model-level only',
         'virtual clock via mistral_lib.utils.utc_now_sec; dispatcher condition variable and thread pool replaced by gates',
         'sqlite stands in for the production database'])
    print('C13 %s: %d model states (incl. trace validation); %d real executions, %d accepted strictly, %d divergences, %d violations, %.1fs'
          % (tier, states, len(traces), n_ok, n_div, len(verdict.violations), time.time() - t0))
    return rc


def replay(path):
    rp = json.load(open(path))['replay']
    _winit(common.REPO)
    t = run_schedule((rp['config'], rp['constants'] if 'constants' in rp else CONFIGS[rp['config']],
                      rp['events'], 'replay', 0))
    c = rp['constants']
    c['jobs'] = {int(k): v for k, v in c['jobs'].items()}
    for s in t['steps']:
        print(json.dumps(s))
    return 0
