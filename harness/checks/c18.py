"""C18 - expiration policy.  Spec: spec/expiry/Expiration.tla (+ ExpirationTrace.tla).

1. TLC checks the algorithm model against the declarative expectation for every population of
   <= MaxRoots roots x every configuration (exhaustive), plus termination.
2. Every case of the replay product is materialised as real rows (real cascade foreign keys, two
   projects, subtrees with tasks / actions / old finished sub-executions), the real
   run_execution_expiration_policy runs once, the committed deletions are observed at SQL level
   (DELETE statements grouped by COMMIT) and the surviving rows of all three tables are read back.
3. TLC evaluates the property formulas on every observation (decisive) and checks that the
   observed batches are a behaviour of Expiration (divergence only).
"""
import datetime
import itertools
import json
import multiprocessing as mp
import os
import re
import shutil
import time

from harness import common

PID = 'C18'
STATES = ['RUNNING', 'PAUSED', 'SUCCESS', 'ERROR', 'CANCELLED']
TERMINAL = ['SUCCESS', 'ERROR', 'CANCELLED']
SHAPES = ['leaf', 'tree']
OLDER_THAN = 60


def configs(tier):
    # (the last one ignores every finished state: nothing at all may be deleted)
    ign = [[], ['ERROR'], ['SUCCESS', 'CANCELLED'], ['SUCCESS', 'ERROR', 'CANCELLED']]
    out = []
    for age in ('unset', 'set'):
        for mfe in (0, 1, 2):
            for batch in (0, 1, 2):
                for ig in ign:
                    out.append(dict(age=age, mfe=mfe, batch=batch, ignored=ig))
    return out


def cfg_tla(c):
    return '[age |-> "%s", mfe |-> %d, batch |-> %d, ignored |-> {%s}]' % (
        c['age'], c['mfe'], c['batch'], ', '.join('"%s"' % s for s in c['ignored']))


def populations(tier, rnd):
    """Replay product: all state vectors x all cut positions, shapes by pattern."""
    maxn = 3
    pops = []
    for n in range(0, maxn + 1):
        for stv in itertools.product(STATES, repeat=n):
            for cut in range(0, n + 1):
                pats = [tuple(SHAPES[(i + k) % 2] for i in range(n)) for k in ((0, 1) if n else (0,))]
                for sh in pats:
                    pops.append(dict(n=n, st=list(stv), oldcut=cut, shape=list(sh)))
    if tier == 'thorough':
        # a sample of 4-root populations on top of the full <=3 product
        allp = []
        for stv in itertools.product(STATES, repeat=4):
            for cut in range(0, 5):
                allp.append(dict(n=4, st=list(stv), oldcut=cut, shape=[SHAPES[(i + cut) % 2] for i in range(4)]))
        rnd.shuffle(allp)
        pops += allp[:1200]
    return pops


# ---------------------------------------------------------------------------------------------
# worker side: materialise + run + observe

_W = {}


def _winit(repo):
    os.environ['VERIF_REPO'] = repo
    from harness import mdb
    CONF = mdb.boot(auth_enable=True)
    from mistral.db.sqlalchemy import base as db_base
    from sqlalchemy import event
    eng = db_base.get_engine()
    log = []

    def before(conn, cursor, statement, parameters, context, executemany):
        s = statement.lstrip().upper()
        if s.startswith('DELETE FROM WORKFLOW_EXECUTIONS_V2'):
            log.append(('del', parameters))

    def commit(conn):
        log.append(('commit', None))

    event.listen(eng, 'before_cursor_execute', before)
    event.listen(eng, 'commit', commit)
    _W['log'] = log
    _W['CONF'] = CONF


def _run_case(case):
    from harness import mdb
    from mistral.db.v2 import api as db_api
    from mistral.services import expiration_policy as ep
    from oslo_utils import timeutils
    CONF = _W['CONF']
    log = _W['log']
    pop, cfg = case['pop'], case['cfg']
    mdb.wipe()
    now = timeutils.utcnow()
    n = pop['n']
    expect_rows = {}
    for i in range(1, n + 1):
        proj = 'proj-A' if i % 2 else 'proj-B'
        mdb.set_ctx(mdb.ctx(proj))
        if i <= pop['oldcut']:
            upd = now - datetime.timedelta(minutes=OLDER_THAN + 10 * (pop['oldcut'] - i + 1))
        else:
            upd = now - datetime.timedelta(minutes=OLDER_THAN - 5 * (i - pop['oldcut']))
        rid = 'r%d' % i
        rows = [('workflow_executions_v2', rid)]
        with db_api.transaction():
            db_api.create_workflow_execution({'id': rid, 'name': rid, 'workflow_name': 'w', 'state': pop['st'][i - 1],
                                              'created_at': upd - datetime.timedelta(minutes=1), 'updated_at': upd})
            if pop['shape'][i - 1] == 'tree':
                db_api.create_task_execution({'id': rid + 't1', 'workflow_execution_id': rid, 'name': 't1', 'state': 'SUCCESS'})
                db_api.create_task_execution({'id': rid + 't2', 'workflow_execution_id': rid, 'name': 't2', 'state': 'SUCCESS'})
                db_api.create_action_execution({'id': rid + 'a1', 'task_execution_id': rid + 't1', 'name': 'a', 'state': 'SUCCESS'})
                db_api.create_action_execution({'id': rid + 'a2', 'task_execution_id': rid + 't1', 'name': 'a', 'state': 'ERROR'})
                # an old, finished sub-execution: must never be deleted on its own
                db_api.create_workflow_execution({'id': rid + 'c', 'name': rid + 'c', 'workflow_name': 'w', 'state': 'SUCCESS',
                                                  'task_execution_id': rid + 't2',
                                                  'created_at': now - datetime.timedelta(days=11),
                                                  'updated_at': now - datetime.timedelta(days=10)})
                db_api.create_task_execution({'id': rid + 'ct', 'workflow_execution_id': rid + 'c', 'name': 'ct', 'state': 'SUCCESS'})
                db_api.create_action_execution({'id': rid + 'ca', 'task_execution_id': rid + 'ct', 'name': 'a', 'state': 'SUCCESS'})
                rows += [('task_executions_v2', rid + 't1'), ('task_executions_v2', rid + 't2'),
                         ('action_executions_v2', rid + 'a1'), ('action_executions_v2', rid + 'a2'),
                         ('workflow_executions_v2', rid + 'c'), ('task_executions_v2', rid + 'ct'),
                         ('action_executions_v2', rid + 'ca')]
        expect_rows[i] = rows
    mdb.set_ctx(None)
    grp = 'execution_expiration_policy'
    if cfg['age'] == 'set':
        CONF.set_override('older_than', OLDER_THAN, grp)
    else:
        CONF.clear_override('older_than', grp)
    CONF.set_override('max_finished_executions', cfg['mfe'], grp)
    CONF.set_override('batch_size', cfg['batch'], grp)
    CONF.set_override('ignored_states', cfg['ignored'], grp)
    del log[:]
    error = 'none'
    terminated = True
    # step budget on the transaction loop: count commits through the listener
    budget = {'n': 0}
    real_tx = db_api.transaction

    class Budget(Exception):
        pass

    def counted_tx(*a, **kw):
        budget['n'] += 1
        if budget['n'] > 40:
            raise Budget()
        return real_tx(*a, **kw)

    db_api.transaction = counted_tx
    try:
        ep.run_execution_expiration_policy(None, None)
    except Budget:
        terminated = False
    except Exception as e:
        error = type(e).__name__
    finally:
        db_api.transaction = real_tx
        mdb.set_ctx(None)
    batches = []
    cur = set()
    for kind, params in log:
        if kind == 'del':
            for p in (params if isinstance(params, (list, tuple)) else [params]):
                m = re.match(r'^r(\d+)$', str(p))
                if m:
                    cur.add(int(m.group(1)))
        else:
            if cur:
                batches.append(sorted(cur))
            cur = set()
    present = set()
    for t in mdb.ALL_TABLES:
        for (rid,) in mdb.raw_rows('select id from %s' % t):
            present.add((t, rid))
    survivors = [i for i in range(1, n + 1) if ('workflow_executions_v2', 'r%d' % i) in present]
    # batches whose deletion did not survive (rolled back) are not deletions
    batches = [[r for r in b if r not in survivors] for b in batches]
    batches = [b for b in batches if b]
    incomplete = 0
    orphans = 0
    for i in range(1, n + 1):
        rows = expect_rows[i]
        if i in survivors:
            incomplete += sum(1 for r in rows if r not in present)
        else:
            orphans += sum(1 for r in rows if r in present)
    rec = dict(n=n, st=pop['st'], shape=pop['shape'], oldcut=pop['oldcut'], cfg=cfg, batches=batches, error=error,
               survivors=survivors, orphans=orphans, incomplete=incomplete, terminated=terminated)
    return rec


def run(tier):
    import random
    t0 = time.time()
    rnd = random.Random(common.seed())
    verdict = common.Verdict(PID)
    d = common.builddir('c18', clean=True)
    common.put_spec(d, *[os.path.join('expiry', f_) for f_ in ('Expiration.tla', 'ExpirationTrace.tla')])
    cfgs = configs(tier)
    maxroots = 3 if tier == 'quick' else 4
    consts = ('CONSTANTS\n  MaxRoots = %d\n  AllStates = {%s}\n  Terminal = {%s}\n  Shapes = {%s}\n  Configs <- MC_Configs\n'
              % (maxroots, ', '.join('"%s"' % s for s in STATES), ', '.join('"%s"' % s for s in TERMINAL),
                 ', '.join('"%s"' % s for s in SHAPES)))
    mcdefs = 'MC_Configs == {%s}\n' % ',\n  '.join(cfg_tla(c) for c in cfgs)
    with open(os.path.join(d, 'MC_Expiration.tla'), 'w') as fh:
        fh.write('---- MODULE MC_Expiration ----\nEXTENDS Expiration\n' + mcdefs + '====\n')
    # model level: shapes are data only -> fix one shape in the exhaustive run to keep it small
    with open(os.path.join(d, 'MC_Expiration.cfg'), 'w') as fh:
        fh.write('SPECIFICATION Spec\n' + consts.replace('Shapes = {"leaf", "tree"}', 'Shapes = {"tree"}') +
                 'INVARIANT OnlyExpected\nINVARIANT NeverUnfinished\nINVARIANT ExactWhenDone\nINVARIANT NoNewerWhileOlder\n'
                 'PROPERTY Terminates\nCHECK_DEADLOCK FALSE\n')
    r = common.run_tlc(os.path.join(d, 'MC_Expiration.tla'), os.path.join(d, 'MC_Expiration.cfg'),
                       coverage=(tier == 'thorough'), timeout=3400)
    if not r.finished or not r.ok:
        raise common.MachineryError('Expiration model: TLC reports a violation of the model itself (spec defect):\n' + r.out[-3000:])
    model_states, model_trans = r.distinct, r.generated

    pops = populations(tier, rnd)
    cases = [dict(pop=p, cfg=c) for p in pops for c in cfgs]
    if tier == 'quick':
        # full product for n <= 2, every third case for n = 3 (rotating with the seed)
        k = common.seed() % 3
        cases = [c for i, c in enumerate(cases) if c['pop']['n'] <= 2 or i % 3 == k]
    with mp.get_context('spawn').Pool(common.NCPU - 2 if common.NCPU > 4 else 2, initializer=_winit,
                                      initargs=(common.REPO,)) as pool:
        recs = pool.map(_run_case, cases, chunksize=64)
    for i, rec in enumerate(recs):
        rec['tid'] = i + 1

    # ---- TLC judges the observations
    CH = 20000
    nch = (len(recs) + CH - 1) // CH
    import concurrent.futures as cf

    def validate(k):
        part = recs[k * CH:(k + 1) * CH]
        tf = os.path.join(d, 'trace_%d.ndjson' % k)
        with open(tf, 'w') as fh:
            for t in part:
                fh.write(json.dumps(t) + '\n')
        modp = os.path.join(d, 'MC_ExpirationTrace_%d.tla' % k)
        with open(modp, 'w') as fh:
            fh.write('---- MODULE MC_ExpirationTrace_%d ----\nEXTENDS ExpirationTrace\n' % k + mcdefs + '====\n')
        cfgp = os.path.join(d, 'MC_ExpirationTrace_%d.cfg' % k)
        with open(cfgp, 'w') as fh:
            fh.write('SPECIFICATION TSpec\n' + consts + 'CONSTRAINT Report\nCHECK_DEADLOCK FALSE\n')
        rr = common.run_tlc(modp, cfgp, workers=1, env={'TRACE_FILE': tf}, timeout=3000, metatag='ext%d' % k)
        if not rr.finished:
            raise common.MachineryError('trace validation did not finish:\n' + rr.out[-2000:])
        acc = set(k * CH + int(m.group(1)) for m in re.finditer(r'<<"accepted", (\d+)>>', rr.out))
        verd = {}
        for m in re.finditer(r'<<"case", (\d+), (TRUE|FALSE), (TRUE|FALSE), (TRUE|FALSE), (TRUE|FALSE), (TRUE|FALSE), (TRUE|FALSE)>>', rr.out):
            verd[k * CH + int(m.group(1))] = [x == 'TRUE' for x in m.groups()[1:]]
        return acc, verd, rr.distinct, rr.generated

    accepted, verds = set(), {}
    tstates = ttrans = 0
    with cf.ThreadPoolExecutor(max_workers=min(common.NCPU, max(1, nch))) as ex:
        for acc, verd, ds, gs in ex.map(validate, range(nch)):
            accepted |= acc
            verds.update(verd)
            tstates += ds
            ttrans += gs
    if len(verds) != len(recs):
        raise common.MachineryError('TLC judged %d observations, expected %d' % (len(verds), len(recs)))
    names = ['OnlyExpected', 'NeverUnfinished', 'NoNewerWhileOlder', 'TreesComplete', 'Terminated']
    nontrivial = set()
    divergences = 0
    samples = []
    for rec in recs:
        v = verds[rec['tid']]
        if rec['batches']:
            nontrivial.add(json.dumps([rec['st'], rec['oldcut'], rec['cfg'], rec['shape']], sort_keys=True))
        for nm, okv in zip(names, v[:5]):
            if not okv:
                sig = {'clause': nm, 'age': rec['cfg']['age'], 'mfe_set': rec['cfg']['mfe'] > 0,
                       'batched': rec['cfg']['batch'] > 0, 'ignored': bool(rec['cfg']['ignored'])}
                verdict.violation(sig, 'population st=%s oldcut=%d shape=%s cfg=%s: deleted batches %s survivors %s orphans=%d incomplete=%d error=%s'
                                  % (rec['st'], rec['oldcut'], rec['shape'], rec['cfg'], rec['batches'], rec['survivors'],
                                     rec['orphans'], rec['incomplete'], rec['error']), rec)
        if all(v[:5]) and rec['tid'] not in accepted:
            divergences += 1
            if divergences <= 5:
                verdict.divergence('observation is not a behaviour of Expiration (exact=%s): %s' % (v[5], json.dumps(rec)))
        if len(samples) < 3 and len(rec['batches']) >= 2:
            samples.append(rec)
    rc = verdict.finish()
    common.write_evidence(PID, tier, 'model_checking', {
        'states': model_states + tstates, 'transitions': model_trans + ttrans,
        'traces_validated_against_impl': len(recs), 'traces_accepted': len(accepted), 'divergences': divergences,
        'evaluations': len(recs), 'distinct_nontrivial': len(nontrivial),
        'rule': 'model: all populations of <=%d roots (state vector x age cut) x %d configurations, exhaustive; replay: product of state '
                'vectors x cuts x shape patterns x configurations materialised as real rows; non-trivial = distinct cases in which '
                'the real policy deleted at least one root' % (maxroots, len(cfgs)),
        'exhaustive': True, 'model_states': model_states,
        'samples': samples or recs[:1], 'known_findings_hit': verdict.known_hits,
    }, time.time() - t0, len(verdict.violations),
        ['sqlite stands in for the production database (cascade through real foreign keys)',
         'update times are distinct (ties in updated_at are not explored)'])
    print('C18 %s: model %d states; %d evaluations on real rows, %d accepted by the strict trace spec, %d divergences, %d violations, %.1fs'
          % (tier, model_states, len(recs), len(accepted), divergences, len(verdict.violations), time.time() - t0))
    return rc


def replay(path):
    rp = json.load(open(path))['replay']
    _winit(common.REPO)
    rec = _run_case(dict(pop=dict(n=rp['n'], st=rp['st'], oldcut=rp['oldcut'], shape=rp['shape']), cfg=rp['cfg']))
    print(json.dumps(rec))
    return 0
