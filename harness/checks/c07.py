"""C07 - with-items: one run per item, within the concurrency limit, results in order."""
import random

from harness import common
from harness.checks import engine_common as ec

PID = 'C07'


def _nontrivial(t):
    items = [n for n, d in t['prog']['tasks'].items() if d['items'] >= 1]
    ran = [x for x in t['steps'][-1]['obs']['tk'] if x['name'] in items]
    return [x['sid'] for x in ran] or None


def run(tier):
    from harness import gen, engrun
    rnd = random.Random(common.seed() + 7)
    n = 140 if tier == 'quick' else 3000
    jobs = ec.random_jobs(rnd, n, label='items', gen_kw=dict(partial_joins=False, p_items=0.45, p_sub=0.1, p_cmd=0.03, p_guard=0.15))
    for k, j in enumerate(jobs):
        if k % 7 == 3:
            j['ops'] = [dict(at=80, op='rerun', reset=bool(k % 2))]
    # with-items over sub-workflows whose task fails for every item; the failed tasks inside ALL item sub-workflows are rerun
    # back to back: the parent task has to wait for every re-running item
    for n_items in (2, 3):
        for k, pol in enumerate(engrun.POLICIES[1:]):
            P = gen.items_over_subworkflows(n_items, conc=(None if k % 2 else n_items))
            ops = [dict(at=300, op='rerun', reset=True, target='r/t0#0@0.0/sub1x0#0')]
            ops += [dict(rel=0, op='rerun', reset=True, target='r/t0#0@%d.0/sub1x0#0' % i) for i in range(1, n_items)]
            jobs.append(dict(prog=P, scheduler=('default', 'legacy')[k % 2], policy=pol, seed=k + 1, label='itemsub%d' % n_items, ops=ops, max_steps=900))
    # the fixed with-items shapes (gen.items_catalogue: 0 / 2 / 3 items, concurrency absent / 1 / 2 / 3, a failing item, a with-items
    # join, two with-items tasks feeding a join) under every schedule policy and both schedulers, alone and paused / resumed early
    shapes = gen.items_catalogue()
    for nm, P in shapes:
        for k, pol in enumerate(engrun.POLICIES[1:]):
            sch = ('default', 'legacy')[(k + len(nm)) % 2]
            jobs.append(dict(prog=P, scheduler=sch, policy=pol, seed=k + 1, label=nm))
            if k % 2 == 0 or tier == 'thorough':
                at = 1 + (k // 2) % 4
                jobs.append(dict(prog=P, scheduler=sch, policy=pol, seed=k + 1, label=nm + '_pr', ops=[dict(at=at, op='pause'), dict(at=at + 1 + k % 3, op='resume')]))
    # action-only with-items programs with pause / resume / redelivery / stop histories (the part of with-items MistralEngine.tla covers)
    acts = ec.random_jobs(rnd, n // 2, schedulers=('default', 'legacy'), label='itemsact',
                          gen_kw=dict(partial_joins=True, p_join=0.7, p_items=0.45, p_cmd=0.1, p_err=0.3, cmds=['fail', 'succeed', 'noop', 'pause']))
    for k, j in enumerate(acts):
        at = rnd.randint(1, 25)
        if k % 4 == 1:
            j['ops'] = [dict(at=at, op='pause'), dict(at=at + rnd.randint(1, 12), op='resume')]
        elif k % 4 == 2:
            j['dups'] = 2
        elif k % 8 == 3:
            j['ops'] = [dict(at=at, op='stop', state=rnd.choice(['ERROR', 'CANCELLED', 'SUCCESS']))]
    jobs += acts
    # with-items x retry: every attempt executes every index again; failing items succeed the second time; concurrency absent / below /
    # equal to the item count
    fam = [(n_it, conc, bad, 1) for (n_it, conc, bad) in ((3, 1, (1, 2)), (3, 2, (0,)), (3, None, (1,)), (4, 2, (0, 3)), (3, 1, (2,)), (2, 2, (0, 1)), (3, 3, (1,)))]
    # ... and items that fail AGAIN when they are re-executed (two failures, retry count 2)
    fam += [(3, 1, (1,), 2), (3, 2, (0, 2), 2), (4, 1, (1, 2), 2)]
    for n_it, conc, bad, nfail in fam:
        Pr = gen.Program()
        Pr.order = ['a', 'z']
        Pr.tasks = {'a': {'kind': 'action', 'with_items': n_it, 'retry': {'count': max(nfail, 1 + (n_it % 2)), 'delay': n_it % 2}, 'succ': [{'to': 'z'}], 'err': [], 'comp': []},
                    'z': {'kind': 'action', 'succ': [], 'err': [], 'comp': []}}
        if conc:
            Pr.tasks['a']['concurrency'] = conc
        Pr.oracle = {'a': {i: (['err'] * nfail + ['ok'] if i in bad else ['ok']) for i in range(n_it)}}
        Pr.flags = {'items': True, 'retry': True}
        for k, pol in enumerate(engrun.POLICIES[1:]):
            jobs.append(dict(prog=Pr, scheduler=('default', 'legacy')[k % 2], policy=pol, seed=k + 1, label='items_retry_%d_c%s_f%d' % (n_it, conc or 0, nfail)))
    # the same shapes without the retry policy, rerun by the operator (reset off / on) once the run has failed - twice for the
    # items that fail again
    for n_it, conc, bad, nfail in fam[::2] + fam[-3:]:
        Pr = gen.Program()
        Pr.order = ['a', 'z']
        Pr.tasks = {'a': {'kind': 'action', 'with_items': n_it, 'succ': [{'to': 'z'}], 'err': [], 'comp': []}, 'z': {'kind': 'action', 'succ': [], 'err': [], 'comp': []}}
        if conc:
            Pr.tasks['a']['concurrency'] = conc
        Pr.oracle = {'a': {i: (['err'] * nfail + ['ok'] if i in bad else ['ok']) for i in range(n_it)}}
        Pr.flags = {'items': True}
        for k, pol in enumerate(engrun.POLICIES[1:5]):
            jobs.append(dict(prog=Pr, scheduler=('default', 'legacy')[k % 2], policy=pol, seed=k + 1, label='items_rerun_%d_c%s_f%d' % (n_it, conc or 0, nfail), max_steps=900,
                             ops=[dict(at=300 * (r + 1), op='rerun', reset=bool((k + r) % 2), pick=0) for r in range(nfail)]))
    small = ('items2_c0_ok', 'items2_c1_ok', 'items2_c1_err1', 'items0_c1_ok')
    mid = small + ('items3_c1_ok', 'items3_c1_err1', 'items3_c2_err1', 'items2_c3_ok')
    quick_shapes = [x for x in shapes if x[0] != 'items_pair_join']

    def model_runs(d):
        out = ec.catalogue_model_runs(d, tier, shapes=(shapes if tier == 'thorough' else quick_shapes), liveness_for=('items3_c1_err1', 'items2_c3_ok', 'items_join_c1'))
        out += ec.catalogue_model_runs(d, tier, shapes=shapes, ops=2, kinds=('pause', 'resume', 'stop'), tag='_o2', only=(mid if tier == 'thorough' else small),
                                       schedulers=('default', 'legacy'))
        out += ec.catalogue_model_runs(d, tier, shapes=shapes, ops=0, dups=1, tag='_d1', only=(mid if tier == 'thorough' else small[1:]), schedulers=('default', 'legacy'))
        if tier == 'thorough':
            out += ec.catalogue_model_runs(d, tier, shapes=shapes, ops=3, kinds=('pause', 'resume'), tag='_o3', only=small)
            out += ec.catalogue_model_runs(d, tier, shapes=shapes, ops=2, kinds=('pause', 'resume'), tag='_o2b', only=('items3_c0_ok', 'items3_c0_err1', 'items3_c2_ok'))
        return out

    return ec.run_property(PID, tier, jobs,
                           'generated programs whose tasks iterate over 0..4 items (actions and sub-workflows, concurrency absent / 1..n+1, '
                           'per-item outcomes from the oracle) under 8 schedule policies that interleave item completions with the keyed '
                           'accounting jobs, some followed by a rerun with reset on/off; fixed with-items shapes under every policy and both schedulers, '
                           'alone and paused / resumed early; with-items x retry (every index executed again by the next attempt, concurrency absent / below / equal to the item count); action-only with-items programs with pause / resume / redelivery / stop histories; '
                           'non-trivial = distinct runs in which a with-items task with >= 1 item ran',
                           _nontrivial, strict=True, model_runs=model_runs,
                           model_behaviours=lambda d: ec.model_jobs(
                               d, tier, shapes=shapes,
                               sims=[(None, 2 if tier == 'quick' else 8, 0, 0, ()), (mid, 2 if tier == 'quick' else 8, 2, 0, ('pause', 'resume'))],
                               probes=[('items_task_restarted_by_resume_hangs', 'items2_c0_ok',
                                        'Quiet /\\ wf = "RUNNING" /\\ KF_ItemsRestart /\\ Len(ax["a"]) > 2', 2, 0, ('pause', 'resume')),
                                       ('items_task_restarted_by_resume_completes_early', 'items2_c1_ok',
                                        'tk["a"].state = "SUCCESS" /\\ \\E k \\in 1..Len(ax["a"]) : ax["a"][k].s = "RUNNING"', 2, 0, ('pause', 'resume')),
                                       ('index_started_twice_through_retry', 'items3_c2_retry', 'hist.idxTwice /\\ Quiet', 0, 0, ()),
                                       ('concurrency_limit_reached', 'items3_c2_ok',
                                        'Cardinality({k \\in 1..Len(ax["a"]) : ax["a"][k].s = "RUNNING"}) = 2 /\\ Len(ax["a"]) = 3', 0, 0, ())]))


def replay(path):
    return ec.replay(PID, path)
