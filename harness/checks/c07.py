"""C07 - with-items: one run per item, within the concurrency limit, results in order."""
import random

from harness import common
from harness.checks import engine_common as ec

PID = 'C07'


def _nontrivial(t):
    items = [n for n, d in t['prog']['tasks'].items() if d['items'] >= 1]
    ran = [x for x in t['steps'][-1]['obs']['tk'] if x['name'] in items]
    return [x['sid'] for x in ran] or None


def run(tier):
    rnd = random.Random(common.seed() + 7)
    n = 140 if tier == 'quick' else 3000
    jobs = ec.random_jobs(rnd, n, label='items', gen_kw=dict(partial_joins=False, p_items=0.45, p_sub=0.1, p_cmd=0.03, p_guard=0.15))
    for k, j in enumerate(jobs):
        if k % 7 == 3:
            j['ops'] = [dict(at=80, op='rerun', reset=bool(k % 2))]
    # with-items over sub-workflows whose task fails for every item; the failed tasks inside ALL item sub-workflows are rerun
    # back to back: the parent task has to wait for every re-running item
    from harness import gen, engrun
    for n_items in (2, 3):
        for k, pol in enumerate(engrun.POLICIES[1:]):
            P = gen.items_over_subworkflows(n_items, conc=(None if k % 2 else n_items))
            ops = [dict(at=300, op='rerun', reset=True, target='r/t0#0@0.0/sub1x0#0')]
            ops += [dict(rel=0, op='rerun', reset=True, target='r/t0#0@%d.0/sub1x0#0' % i) for i in range(1, n_items)]
            jobs.append(dict(prog=P, scheduler=('default', 'legacy')[k % 2], policy=pol, seed=k + 1, label='itemsub%d' % n_items, ops=ops, max_steps=900))
    return ec.run_property(PID, tier, jobs,
                           'generated programs whose tasks iterate over 0..4 items (actions and sub-workflows, concurrency absent / 1..n+1, '
                           'per-item outcomes from the oracle) under 8 schedule policies that interleave item completions with the keyed '
                           'accounting jobs, some followed by a rerun with reset on/off; non-trivial = distinct runs in which a with-items task with >= 1 item ran',
                           _nontrivial)


def replay(path):
    return ec.replay(PID, path)
