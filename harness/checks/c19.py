"""C19 - egress policy.  Spec: spec/egress/Egress.tla (+ EgressTrace.tla).

1. The catalogue below (text forms of addresses, names with a scripted resolver, schemes,
   userinfo, ports, paths, operator configurations) is turned into the constants of Egress.tla;
   the denotation of every text form is computed with the standard library only (inet_aton /
   ipaddress), never with mistral code.
2. TLC checks the model exhaustively (pipeline == policy, default deny-list covers the
   sensitive regions in every family, every request is decided).
3. Every case of the same product is concretised and run through the real validate_url (and
   the HTTP action classes / webhook publisher with the HTTP client replaced by a recorder);
   the recorded events are validated by TLC against EgressTrace.tla.
Decisive: a case the policy refuses is accepted by the code, or the HTTP client is invoked for
a refused URL.  Over-refusal / other error classes are divergences.
"""
import ipaddress
import itertools
import json
import os
import re
import shutil
import socket
import struct
import time

from harness import common
from harness.common import tla

PID = 'C19'

REPS4 = {
    'loop': ['127.0.0.1', '127.8.9.10', '127.255.255.254'],
    'metadata': ['169.254.169.254'],
    'linklocal': ['169.254.0.1', '169.254.200.7'],
    'priv10': ['10.0.0.5'],
    'public': ['93.184.216.34'],
    'unspec': ['0.0.0.0'],
}
REPS6 = {
    'loop': ['::1'],
    'linklocal': ['fe80::1', 'febf::a:5'],
    'ula': ['fd00::1'],
    'public': ['2001:db8::1'],
}

NETS = {   # abstract network id -> cidr text ("garbage" is an invalid entry the code must ignore)
    'loop4': '127.0.0.0/8', 'll4': '169.254.0.0/16', 'meta32': '169.254.169.254/32',
    'priv10': '10.0.0.0/8', 'loop6': '::1/128', 'll6': 'fe80::/10', 'all4': '0.0.0.0/0',
    'all6': '::/0', 'garbage': 'not-a-cidr',
}

NAMES = {   # scripted resolver (lower-cased key) -> addresses ; None = unresolvable
    'good.example.com': ['93.184.216.34'],
    'evil.example.com': ['93.184.216.34', '127.0.0.1'],
    'meta.example.com.': ['169.254.169.254'],
    'v6loop.example.com': ['::1'],
    'mixed.example.com': ['2001:db8::1', '10.0.0.5'],
    'mapped.example.com': ['::ffff:169.254.169.254'],
    'nx.example.com': None,
    'localhost': ['127.0.0.1', '::1'],
}
NAME_TEXTS = ['good.example.com', 'Evil.Example.COM', 'meta.example.com.', 'v6loop.example.com',
              'mixed.example.com', 'mapped.example.com', 'nx.example.com', 'LocalHost']


def classify(a):
    """Region of an address object - standard library only."""
    out = set()
    if a.version == 4:
        for reg, cidr in (('metadata', '169.254.169.254/32'), ('loop', '127.0.0.0/8'),
                          ('linklocal', '169.254.0.0/16'), ('priv10', '10.0.0.0/8'),
                          ('unspec', '0.0.0.0/32')):
            if a in ipaddress.ip_network(cidr):
                out.add((4, reg))
                break
        else:
            out.add((4, 'public'))
    else:
        if a.ipv4_mapped is not None:
            out.add((6, 'mapped'))
            out |= classify(a.ipv4_mapped)     # the text denotes the embedded IPv4 address too
        elif a == ipaddress.ip_address('::1'):
            out.add((6, 'loop'))
        elif a in ipaddress.ip_network('fe80::/10'):
            out.add((6, 'linklocal'))
        elif a in ipaddress.ip_network('fc00::/7'):
            out.add((6, 'ula'))
        else:
            out.add((6, 'public'))
    return out


def v4_forms(addr):
    a = ipaddress.IPv4Address(addr)
    n = int(a)
    o = addr.split('.')
    forms = {
        'dotted': addr,
        'decimal': str(n),
        'hexint': hex(n),
        'octint': '0%o' % n,
        'octdot': '.'.join('0%o' % int(x) for x in o),
        'hexdot': '.'.join(hex(int(x)) for x in o),
        'short2': '%s.%d' % (o[0], n & 0xFFFFFF),
        'short3': '%s.%s.%d' % (o[0], o[1], n & 0xFFFF),
        'mapped_dotted': '::ffff:' + addr,
        'mapped_hex': '::ffff:%x:%x' % (n >> 16, n & 0xFFFF),
        'mapped_expanded': '0:0:0:0:0:ffff:%x:%x' % (n >> 16, n & 0xFFFF),
        'mapped_upper': '::FFFF:' + addr,
    }
    return forms


def v6_forms(addr):
    a = ipaddress.IPv6Address(addr)
    return {'compressed': a.compressed, 'exploded': a.exploded, 'upper': a.compressed.upper()}


def denote_text(text):
    """Addresses denoted by a numeric host text, by inet_aton / inet_pton (libc semantics)."""
    try:
        return [ipaddress.IPv4Address(socket.inet_aton(text))]
    except (OSError, ValueError):
        pass
    try:
        return [ipaddress.IPv6Address(socket.inet_pton(socket.AF_INET6, text))]
    except (OSError, ValueError):
        return None


def build_catalogue(tier):
    hostforms = []   # dict(id, text, kind, denotes(set of (fam,region)), resolvable)
    nrep = 1 if tier == 'quick' else 3
    for reg, reps in REPS4.items():
        for ri, addr in enumerate(reps[:nrep]):
            for fid, text in v4_forms(addr).items():
                den = denote_text(text)
                assert den is not None, text
                regs = set()
                for d in den:
                    regs |= classify(d)
                assert (4, reg) in regs, (text, regs)
                hostforms.append(dict(id='v4_%s%d_%s' % (reg, ri, fid), text=text,
                                      kind='v4mapped' if fid.startswith('mapped') else 'v4text',
                                      denotes=regs, resolvable=True))
    for reg, reps in REPS6.items():
        for ri, addr in enumerate(reps[:nrep]):
            for fid, text in v6_forms(addr).items():
                den = denote_text(text)
                regs = set()
                for d in den:
                    regs |= classify(d)
                hostforms.append(dict(id='v6_%s%d_%s' % (reg, ri, fid), text=text, kind='v6text',
                                      denotes=regs, resolvable=True))
    for i, text in enumerate(NAME_TEXTS):
        addrs = NAMES[text.lower()]
        regs = set()
        for ad in addrs or []:
            regs |= classify(ipaddress.ip_address(ad))
        hostforms.append(dict(id='name%d' % i, text=text, kind='name', denotes=regs,
                              resolvable=addrs is not None))
    schemes = [('http', 'http'), ('https', 'https'), ('HTTP', 'http'), ('HttpS', 'https'),
               ('ftp', 'ftp'), ('file', 'file'), ('gopher', 'gopher'), ('', '')]
    if tier == 'quick':
        users, ports, paths = ['none', 'cred'], [0, 8080], ['/']
    else:
        users, ports, paths = ['none', 'cred', 'hostlike'], [0, 80, 8080], ['/', '/latest/meta-data/?u=http://good.example.com/']
    return hostforms, schemes, users, ports, paths


def net_regions():
    """abstract network -> set of (fam, region) it fully contains (by the representatives)."""
    out = {}
    for nid, cidr in NETS.items():
        regs = set()
        try:
            net = ipaddress.ip_network(cidr, strict=False)
        except ValueError:
            out[nid] = regs
            continue
        for fam, reps in ((4, REPS4), (6, REPS6)):
            for reg, addrs in reps.items():
                if all(ipaddress.ip_address(a) in net for a in addrs if ipaddress.ip_address(a).version == net.version) \
                        and net.version == fam:
                    regs.add((fam, reg))
        out[nid] = regs
    return out


def abstract_default(default_cidrs):
    """Map the code's default denied_cidrs to abstract network ids (exact text match of the
    normalised network); anything else becomes its own id with the regions it fully covers."""
    ids = []
    extra = {}
    norm = {}
    for nid, cidr in NETS.items():
        try:
            norm[str(ipaddress.ip_network(cidr, strict=False))] = nid
        except ValueError:
            pass
    for i, c in enumerate(default_cidrs):
        try:
            n = ipaddress.ip_network(c, strict=False)
        except ValueError:
            continue
        if str(n) in norm:
            ids.append(norm[str(n)])
        else:
            regs = set()
            for fam, reps in ((4, REPS4), (6, REPS6)):
                for reg, addrs in reps.items():
                    if n.version == fam and all(ipaddress.ip_address(a) in n for a in addrs):
                        regs.add((fam, reg))
            nid = 'dflt%d' % i
            extra[nid] = (c, regs)
            ids.append(nid)
    return ids, extra


def reg_tla(regs):
    return '{' + ', '.join('[fam |-> %d, region |-> "%s"]' % r for r in sorted(regs)) + '}'


def run(tier):
    t0 = time.time()
    common.use_repo()
    from oslo_config import cfg as ocfg
    from mistral import config as mconfig  # noqa  registers options
    from mistral import exceptions as mexc
    from mistral.db.v2 import api as _db_api  # noqa (import order: avoids a circular import)
    from mistral.utils import egress
    from mistral.actions import std_actions
    from mistral.notifiers.publishers import webhook
    CONF = ocfg.CONF
    try:
        CONF(args=[], default_config_files=[])
    except Exception:
        pass
    verdict = common.Verdict(PID)
    default_cidrs = list(CONF.action_std_http.denied_cidrs)
    default_ids, extra_nets = abstract_default(default_cidrs)
    hostforms, schemes, users, ports, paths = build_catalogue(tier)
    nregs = net_regions()
    nets_cidr = dict(NETS)
    for nid, (c, regs) in extra_nets.items():
        nregs[nid] = regs
        nets_cidr[nid] = c
    denied_sets = [('default', default_ids), ('empty', []), ('default_priv10', default_ids + ['priv10']),
                   ('metaonly', ['meta32']), ('default_garbage', default_ids + ['garbage']),
                   ('all', ['all4', 'all6'])]
    allows = ['none', 'lists_host', 'lists_other']
    configs = [dict(id='%s__%s' % (d, a), denied=ids, allow=a) for d, ids in denied_sets for a in allows]

    # ---- 1. model checking
    d = common.builddir('c19', clean=True)
    common.put_spec(d, *[os.path.join('egress', f_) for f_ in ('Egress.tla', 'EgressTrace.tla')])
    consts = []
    consts.append('MC_Schemes == {%s}' % ', '.join('[id |-> "s%d", norm |-> "%s"]' % (i, n) for i, (t, n) in enumerate(schemes)))
    consts.append('MC_HostForms == {%s}' % ',\n  '.join(
        '[id |-> "%s", kind |-> "%s", denotes |-> %s, resolvable |-> %s]' % (h['id'], h['kind'], reg_tla(h['denotes']), tla(h['resolvable']))
        for h in hostforms))
    consts.append('MC_Ports == {%s}' % ', '.join(str(p) for p in ports))
    consts.append('MC_Paths == {%s}' % ', '.join('"p%d"' % i for i in range(len(paths))))
    consts.append('MC_UserInfos == {%s}' % ', '.join('"%s"' % u for u in users))
    consts.append('MC_Configs == {%s}' % ',\n  '.join(
        '[id |-> "%s", denied |-> {%s}, allow |-> "%s"]' % (c['id'], ', '.join('"%s"' % x for x in sorted(set(c['denied']))), c['allow'])
        for c in configs))
    consts.append('MC_DefaultDenied == {%s}' % ', '.join('"%s"' % x for x in sorted(set(default_ids))))
    consts.append('MC_NetRegions == %s' % ' @@ '.join('("%s" :> %s)' % (n, reg_tla(r)) for n, r in sorted(nregs.items())))
    cfgtxt = '\n'.join('  %s <- MC_%s' % (k, k) for k in
                       ('Schemes', 'HostForms', 'Ports', 'Paths', 'UserInfos', 'Configs', 'DefaultDenied', 'NetRegions'))
    with open(os.path.join(d, 'MC_Egress.tla'), 'w') as fh:
        fh.write('---- MODULE MC_Egress ----\nEXTENDS Egress\n' + '\n'.join(consts) + '\n====\n')
    with open(os.path.join(d, 'MC_Egress.cfg'), 'w') as fh:
        fh.write('SPECIFICATION Spec\nCONSTANTS\n' + cfgtxt +
                 '\nINVARIANT PipelineMatchesPolicy\nINVARIANT ClientOnlyIfAllowed\nINVARIANT DefaultCoversSensitive\n'
                 'PROPERTY Decides\nCHECK_DEADLOCK FALSE\n')
    r = common.run_tlc(os.path.join(d, 'MC_Egress.tla'), os.path.join(d, 'MC_Egress.cfg'), coverage=(tier == 'thorough'),
                       timeout=3000)
    model_states, model_trans = r.distinct, r.generated
    if not r.finished:
        raise common.MachineryError('TLC did not finish on Egress:\n' + r.out[-2000:])
    if 'DefaultCoversSensitive' in r.inv_violations:
        verdict.violation({'clause': 'DefaultCoversSensitive', 'default_denied': default_cidrs},
                          'the default [action_std_http] denied_cidrs %r does not cover loopback/link-local/metadata in every family' % default_cidrs,
                          {'default_denied_cidrs': default_cidrs})
    elif not r.ok:
        raise common.MachineryError('Egress model violates its own invariants (spec defect):\n' + r.out[-3000:])

    # ---- 2. concretise every case, run the real code, record events
    real_gai = socket.getaddrinfo
    events = []

    def scripted_gai(host, port, *a, **kw):
        events.append('resolve')
        key = (host or '').lower()
        if key in NAMES:
            addrs = NAMES[key]
            if addrs is None:
                raise socket.gaierror(-2, 'Name or service not known')
            return [(socket.AF_INET6 if ':' in x else socket.AF_INET, socket.SOCK_STREAM, 6, '', (x, port or 0))
                    for x in addrs]
        return real_gai(host, port, *a, **kw)

    class FakeResp(object):
        status_code = 200
        headers = {}
        content = b'{}'
        text = '{}'
        url = ''
        history = []
        encoding = 'utf-8'
        reason = 'OK'
        cookies = {}

        class elapsed(object):
            @staticmethod
            def total_seconds():
                return 0.0

        def json(self):
            return {}

    class FakeRequests(object):
        def request(self, *a, **kw):
            events.append('client')
            return FakeResp()

        def post(self, *a, **kw):
            events.append('client')
            return FakeResp()

    class FakeSock(object):
        def __getattr__(self, n):
            return getattr(socket, n)
    fs = FakeSock()
    fs.getaddrinfo = scripted_gai
    egress.socket = fs
    std_actions.requests = FakeRequests()
    webhook.requests = FakeRequests()

    class Ctx(object):
        class execution(object):
            action_execution_id = 'a'
            workflow_name = 'w'
            workflow_execution_id = 'we'
            task_execution_id = 't'
            callback_url = 'cb'

    def concretise(s, u, h, p, pa):
        host = h['text'] if h is not None else ''
        if ':' in host:
            host = '[' + host + ']'
        ui = {'none': '', 'cred': 'user:pw@', 'hostlike': 'good.example.com@'}[u]
        url = (s + '://' if s else '//') + ui + host + (':%d' % p if p else '') + pa
        return url

    from urllib import parse as uparse
    traces = []
    cases = []
    hf_all = hostforms + [None]
    logdir = common.builddir('c19')
    for ci, c in enumerate(configs):
        cidrs = [nets_cidr[n] for n in c['denied']]
        CONF.set_override('denied_cidrs', cidrs, 'action_std_http')
        for (si, (stext, snorm)), u, h, p, (pi, pa) in itertools.product(
                enumerate(schemes), users, hf_all, ports, enumerate(paths)):
            url = concretise(stext, u, h, p, pa)
            try:
                hostname = uparse.urlsplit(url).hostname
            except ValueError:
                hostname = None
            if c['allow'] == 'none':
                al = []
            elif c['allow'] == 'lists_host':
                al = ['other.example.com'] + ([hostname] if hostname else [])
            else:
                al = ['other.example.com']
            CONF.set_override('allowed_hosts', al, 'action_std_http')
            callers = ['validate_url']
            if u == users[0] and p == ports[0] and pi == 0:
                callers += ['http_action', 'mistral_http_action', 'webhook']
            for caller in callers:
                del events[:]
                outcome = None
                try:
                    if caller == 'validate_url':
                        egress.validate_url(url)
                    elif caller == 'http_action':
                        std_actions.HTTPAction(url).run(Ctx)
                    elif caller == 'mistral_http_action':
                        std_actions.MistralHTTPAction(url).run(Ctx)
                    else:
                        webhook.WebhookPublisher().publish(None, 'ex', {}, 'ev', 0, url=url)
                    outcome = 'accepted'
                except mexc.UrlNotAllowedException:
                    outcome = 'refused'
                except Exception as e:   # any other failure before the client = not sent
                    outcome = 'error:' + type(e).__name__
                ev = list(events)
                if outcome == 'accepted':
                    # place "accepted" before "client"
                    ev = [x for x in ev if x != 'client'] + ['accepted'] + [x for x in ev if x == 'client']
                elif outcome == 'refused':
                    ev = ev + ['refused']
                else:
                    ev = ev + [outcome]
                tid = len(traces) + 1
                traces.append(dict(tid=tid, scheme='s%d' % si, user=u, host=h['id'] if h else 'nohost', port=p,
                                   path='p%d' % pi, cfg=c['id'], events=ev))
                cases.append(dict(url=url, caller=caller, denied_cidrs=cidrs, allowed_hosts=al, events=ev,
                                  host_kind=h['kind'] if h else 'none', host_id=h['id'] if h else 'nohost',
                                  cfg=c['id']))
    CONF.clear_override('denied_cidrs', 'action_std_http')
    CONF.clear_override('allowed_hosts', 'action_std_http')

    # ---- 3. validate the recorded requests against the specification
    accepted = set()
    expected = {}
    CH = 60000
    nchunks = (len(traces) + CH - 1) // CH
    import concurrent.futures as cf

    def validate_chunk(k):
        part = traces[k * CH:(k + 1) * CH]
        tf = os.path.join(d, 'trace_%d.ndjson' % k)
        with open(tf, 'w') as fh:
            for i, t in enumerate(part):
                fh.write(json.dumps(t) + '\n')
        cfgp = os.path.join(d, 'EgressTrace_%d.cfg' % k)
        with open(cfgp, 'w') as fh:
            fh.write('SPECIFICATION TSpec\nCONSTANTS\n' + cfgtxt + '\nCONSTRAINT Report\nCHECK_DEADLOCK FALSE\n')
        modp = os.path.join(d, 'MC_EgressTrace_%d.tla' % k)
        with open(modp, 'w') as fh:
            fh.write('---- MODULE MC_EgressTrace_%d ----\nEXTENDS EgressTrace\n' % k + '\n'.join(consts) + '\n====\n')
        rr = common.run_tlc(modp, cfgp, workers=1, env={'TRACE_FILE': tf}, timeout=3000, metatag='egt%d' % k)
        if not rr.finished:
            raise common.MachineryError('trace validation did not finish:\n' + rr.out[-2000:])
        acc, exp = set(), {}
        for m in re.finditer(r'<<"accepted", (\d+)>>', rr.out):
            acc.add(k * CH + int(m.group(1)))
        for m in re.finditer(r'<<"case", (\d+), (TRUE|FALSE)>>', rr.out):
            exp[k * CH + int(m.group(1))] = (m.group(2) == 'TRUE')
        return acc, exp, rr.distinct, rr.generated

    tstates = ttrans = 0
    with cf.ThreadPoolExecutor(max_workers=min(common.NCPU, max(1, nchunks))) as ex:
        for acc, exp, ds, gs in ex.map(validate_chunk, range(nchunks)):
            accepted |= acc
            expected.update(exp)
            tstates += ds
            ttrans += gs
    if len(expected) != len(traces):
        raise common.MachineryError('trace validation reported %d cases, expected %d' % (len(expected), len(traces)))

    nontrivial = set()
    divergences = 0
    samples = []
    for i, (t, c) in enumerate(zip(traces, cases)):
        tid = i + 1
        exp_allowed = expected[tid]
        if not exp_allowed:
            nontrivial.add((c['host_id'], c['cfg'], t['scheme']))
        if tid in accepted:
            if len(samples) < 4 and (not exp_allowed) and c['host_kind'] != 'none' and 'resolve' in c['events']:
                samples.append({'url': c['url'], 'denied_cidrs': c['denied_cidrs'], 'allowed_hosts': c['allowed_hosts'],
                                'caller': c['caller'], 'events': c['events'], 'policy_allows': exp_allowed})
            continue
        got_accept = 'accepted' in c['events']
        got_client = 'client' in c['events']
        if (not exp_allowed) and (got_accept or got_client):
            clause = 'ClientOnlyIfAllowed' if got_client else 'RefusedWhenDenied'
            sig = {'clause': clause, 'host_kind': c['host_kind']}
            verdict.violation(sig, 'policy refuses %s under denied_cidrs=%s allowed_hosts=%s but %s produced events %s'
                              % (c['url'], c['denied_cidrs'], c['allowed_hosts'], c['caller'], c['events']),
                              {'url': c['url'], 'denied_cidrs': c['denied_cidrs'], 'allowed_hosts': c['allowed_hosts'],
                               'caller': c['caller'], 'events': c['events']})
        else:
            divergences += 1
            if divergences <= 10:
                verdict.divergence('%s %s: events %s, policy_allows=%s (not a behaviour of Egress, but not a refusal the property demands)'
                                   % (c['caller'], c['url'], c['events'], exp_allowed))
    samples.append({'url': cases[0]['url'], 'events': cases[0]['events']})
    rc = verdict.finish()
    common.write_evidence(PID, tier, 'model_checking', {
        'states': model_states + tstates, 'transitions': model_trans + ttrans,
        'traces_validated_against_impl': len(traces),
        'traces_accepted': len(accepted),
        'divergences': divergences,
        'evaluations': len(traces),
        'distinct_nontrivial': len(nontrivial),
        'rule': 'full product schemes x userinfo x host forms x ports x paths x configurations (TLC explores the same product: '
                '%d model states); non-trivial = distinct (host form, configuration, scheme) for which the policy demands refusal' % model_states,
        'exhaustive': True,
        'host_forms': len(hostforms), 'configs': len(configs),
        'samples': samples,
        'known_findings_hit': verdict.known_hits,
    }, time.time() - t0, len(verdict.violations),
        ['text->address denotation by socket.inet_aton/inet_pton + ipaddress (standard library)',
         'names resolved by a scripted resolver; numeric forms by the real getaddrinfo',
         'HTTP client (requests) replaced by a recorder'])
    print('C19 %s: model %d states; %d requests validated, %d accepted by the trace spec, %d divergences, %d violations, %.1fs'
          % (tier, model_states, len(traces), len(accepted), divergences, len(verdict.violations), time.time() - t0))
    return rc


def replay(path):
    common.use_repo()
    from oslo_config import cfg as ocfg
    from mistral import config as mconfig  # noqa
    from mistral import exceptions as mexc
    from mistral.utils import egress
    CONF = ocfg.CONF
    CONF(args=[], default_config_files=[])
    rp = json.load(open(path))['replay']
    if 'url' not in rp:
        print('default denied_cidrs now:', list(CONF.action_std_http.denied_cidrs))
        return 0
    CONF.set_override('denied_cidrs', rp['denied_cidrs'], 'action_std_http')
    CONF.set_override('allowed_hosts', rp['allowed_hosts'], 'action_std_http')
    try:
        egress.validate_url(rp['url'])
        print('validate_url accepted', rp['url'])
        print('VIOLATION property=C19 replay=%s' % path)
        return 1
    except mexc.UrlNotAllowedException as e:
        print('refused:', e)
        return 0
