"""C20 - lost executors and stuck tasks are detected and the run moves on exactly once."""
import random

from harness import common
from harness.checks import engine_common as ec

PID = 'C20'


def _nontrivial(t):
    hb = any(s['ev']['kind'] == 'hb' and any(w['to'] == 'ERROR' and w['kind'] == 'ax' for w in s['ev']['writes']) for s in t['steps'])
    drop = any(s['ev']['kind'] == 'dropjob' and s['ev']['n'] for s in t['steps'])
    return ('expired' if hb else '') + ('dropped' if drop else '') or None


def _vacuity(d, traces, verdict):
    """The situations the clauses talk about must occur: actions expired by a checker pass, late genuine results for expired
    actions, a lost accounting job, a checker pass under a configured batch size with expired actions that belong to no task."""
    seen = dict(expired=0, late_result_after_expiry=0, dropped=0, batch_pass_with_orphans=0, fresh_kept=0)
    for t in traces:
        if 'error' in t:
            continue
        exp = set()
        for s in t['steps']:
            e = s['ev']
            if e['kind'] == 'hb':
                for w in e['writes']:
                    if w['kind'] == 'ax' and w['to'] == 'ERROR':
                        exp.add(w['sid'])
                if any(a['state'] == 'RUNNING' for a in s['obs']['ax']):
                    seen['fresh_kept'] += 1
                c = t['meta'].get('c20') or {}
                if c.get('batch') and c.get('broken') and any(w['kind'] == 'ax' and w['to'] == 'ERROR' for w in e['writes']):
                    seen['batch_pass_with_orphans'] += 1
            if e['kind'] == 'msg' and e['what'] == 'on_action_complete' and exp and any(a['sid'] in exp for a in s['obs']['ax']) and not e['writes']:
                seen['late_result_after_expiry'] += 1
            if e['kind'] == 'dropjob' and e.get('n'):
                seen['dropped'] += 1
        seen['expired'] += len(exp)
    missing = [k for k, v in seen.items() if not v]
    if missing:
        raise common.MachineryError('C20 is vacuous: never observed %s (observed: %s)' % (missing, seen))
    return {'situations_observed': seen}


def run(tier):
    rnd = random.Random(common.seed() + 20)
    n = 160 if tier == 'quick' else 3000
    jobs = ec.random_jobs(rnd, n, label='hb', gen_kw=dict(partial_joins=False, p_items=0.25, p_cmd=0.03, p_retry=0.1))
    for k, j in enumerate(jobs):
        names = list(j['prog'].order)
        rnd.shuffle(names)
        ns = rnd.randint(0, min(2, len(names)))
        nl = rnd.randint(0, min(1, len(names) - ns))
        j['c20'] = dict(silent=names[:ns], slow=names[ns:ns + nl], first=rnd.choice([2, 4]), missed=rnd.choice([1, 2]),
                        interval=2, integrity=3, ticks=rnd.randint(3, 8), drop=(k % 3 == 0))
        # a configured batch size, and expired actions that belong to no task (the checker can only skip them) already in the table
        if k % 4 == 1:
            j['c20']['batch'] = rnd.choice([1, 2])
            j['c20']['broken'] = rnd.choice([0, 1, 2, 3])
        j['max_steps'] = 700
    # fixed histories: the first integrity pass (10 s after the start) finds no RUNNING task - the only task is DELAYED by
    # wait-before, or a join is WAITING - and only afterwards a with-items task loses its accounting job: the periodic check
    # must still be alive to recover it
    from harness import engrun, gen
    for k, pol in enumerate(engrun.POLICIES[1:]):
        P = gen.Program()
        P.order = ['t0', 't1', 't2']
        P.tasks = {'t0': {'kind': 'action', 'wait-before': 11 + k % 2, 'succ': [{'to': 't1'}], 'err': [], 'comp': []},
                   't1': {'kind': 'action', 'with_items': 2, 'succ': [{'to': 't2'}], 'err': [], 'comp': []},
                   't2': {'kind': 'action', 'succ': [], 'err': [], 'comp': []}}
        P.oracle = {'t0': ['ok'], 't1': {0: ['ok'], 1: ['ok']}, 't2': ['ok']}
        P.flags = {'items': True, 'policy': True}
        jobs.append(dict(prog=P, scheduler=('default', 'legacy')[k % 2], policy=pol, seed=k + 1, label='late_stuck%d' % k, max_steps=700,
                         c20=dict(silent=[], slow=[], first=4, missed=2, interval=2, integrity=3, ticks=8, drop='last')))
    return ec.run_property(PID, tier, jobs,
                           'generated programs in which a subset of the actions goes silent (request never served, no heartbeat), another '
                           'subset is slow but alive (heartbeats sent), the clock advances by check intervals with a checker pass after each, the '
                           'genuine results are released late, and in a third of the runs a with-items accounting job is lost (stuck task, to '
                           'be recovered by the integrity check); a quarter of the runs with a configured checker batch size of 1-2 and 0-3 expired actions without a task already in the table; fixed histories in which the first integrity pass finds nothing RUNNING and a task gets '
                           'stuck only later; non-trivial = distinct runs in which an action was expired or a job was lost',
                           _nontrivial, post=_vacuity)


def replay(path):
    return ec.replay(PID, path)
