"""C14 - definition validation is total and accepted definitions are stable.
Spec: spec/dsl/DslValidation.tla (+ DslTrace.tla).

The mutation descriptors (base document x node x kind, single; sampled double) are the input space
of DslValidation; each is concretised into YAML text and submitted to the real parser entry points
(workflow list / workbook / action list) and, for a subset, to the /validate controllers; accepted
ones are re-instantiated from their stored dict and compared; workbook members are cut out of the
workbook text with the real slicing code and compared with the spec written in the workbook.  TLC
judges every recorded outcome (DslTrace).
"""
import copy
import json
import multiprocessing as mp
import os
import random
import re
import shutil
import time

from harness import common

PID = 'C14'

BASES = {
    'wf_direct': ('workflow', """
version: '2.0'
wf:
  type: direct
  input:
    - a
    - b: 1
  output:
    res: <% $.x %>
  task-defaults:
    on-error:
      - cleanup
  tasks:
    t1:
      action: std.echo output=<% $.a %>
      publish:
        x: <% task().result %>
      on-success:
        - t2: <% $.x = 1 %>
        - t3
    t2:
      action: std.noop
      retry:
        count: 2
        delay: 1
        break-on: <% $.b = 2 %>
      timeout: 5
      wait-before: 1
      on-complete: t3
    t3:
      join: all
      with-items: i in <% [1, 2] %>
      concurrency: 2
      action: std.echo output=<% $.i %>
    cleanup:
      action: std.noop
"""),
    'wf_reverse': ('workflow', """
version: '2.0'
wfr:
  type: reverse
  input: [a]
  tasks:
    r1:
      action: std.echo output="x"
    r2:
      action: std.noop
      requires: [r1]
      publish:
        y: "{{ task().result }}"
"""),
    'wf_sub': ('workflow', """
version: '2.0'
parent:
  tasks:
    call:
      workflow: child p=<% 1 %>
      on-success:
        - fail: <% $.x = 1 %>
        - pause
child:
  input: [p]
  output-on-error:
    e: 1
  tasks:
    c1:
      action: std.fail
      on-error: noop
      publish-on-error:
        z: 1
"""),
    'wb': ('workbook', """
version: '2.0'
name: wb
description: d
tags: [a, b]
actions:
  act1:
    base: std.echo
    base-input:
      output: <% $.s %>
    input: [s]
    output: <% $ %>
workflows:
  w1:
    type: direct
    tasks:
      t1:
        action: act1 s="x"
        on-success: t2
      t2:
        action: std.noop
  w2:
    type: reverse
    tasks:
      a:
        action: std.noop
"""),
    'actions': ('action', """
version: '2.0'
a1:
  description: d
  base: std.echo
  base-input:
    output: <% $.x %>
  input:
    - x
    - y: 2
  output: <% $.x %>
"""),
}

def text_variants():
    """Workbooks given as TEXT (used verbatim, never re-dumped): what the member-definition extraction has to cope with - comment
    lines at every indentation, block scalars (literal / folded) whose content has lines starting with '#', blank lines,
    members indented by 2 or 4, a word naming a section inside a description."""
    out = {}
    k = 0
    for ind in (2, 4):
        for style in ('|', '>', '|-'):
            for hash_at in ('first', 'middle', 'none'):
                for comment in ('col0', 'member', 'deep', 'none'):
                    k += 1
                    if (k * 7 + ind) % 3 and not (hash_at != 'none' and comment == 'none'):
                        continue        # a third of the combinations + every one with '#' content and no real comment
                    i1, i2, i3, i4 = ' ' * ind, ' ' * (2 * ind), ' ' * (3 * ind), ' ' * (4 * ind)
                    body = ['echo one', 'echo two']
                    if hash_at == 'first':
                        body = ['#!/bin/bash'] + body
                    elif hash_at == 'middle':
                        body = ['echo one', '# not a YAML comment: part of the value', 'echo two']
                    cm = {'col0': '# a comment\n', 'member': i1 + '# a comment\n', 'deep': i4 + '# a comment\n', 'none': ''}[comment]
                    text = ("version: '2.0'\nname: wbt\ndescription: the workflows and actions of this book\n"
                            "actions:\n" + i1 + "act1:\n" + i2 + "base: std.echo\n" + cm + i2 + "base-input:\n" + i3 + "output: " + style + "\n" +
                            ''.join(i4 + b + '\n' for b in body) + i2 + "input: [s]\n\n"
                            "workflows:\n" + i1 + "w1:\n" + i2 + "type: direct\n" + cm + i2 + "tasks:\n" + i3 + "t1:\n" + i4 + "action: std.echo\n" +
                            i4 + "input:\n" + i4 + i1 + "output: " + style + "\n" + ''.join(i4 + i2 + b + '\n' for b in body) +
                            i4 + "on-success: t2\n\n" + i3 + "t2:\n" + i4 + "action: std.noop\n" +
                            i1 + "w2:\n" + i2 + "type: reverse\n" + i2 + "tasks:\n" + i3 + "a:\n" + i4 + "action: std.noop\n")
                    out['wbtext_%d_%s_%s_%s' % (ind, {'|': 'lit', '>': 'fold', '|-': 'strip'}[style], hash_at, comment)] = ('workbook', text)
    return out


TEXT_BASES = text_variants()

KINDS = ['delete', 'null', 'int', 'bool', 'str', 'list', 'dict', 'bad_yaql', 'bad_jinja', 'int_key', 'odd_key', 'dup_version',
         'add_version_float', 'add_version_other', 'add_name']


def nodes_of(doc):
    """Addressable nodes: paths (tuples of keys / indexes) to every value in the document."""
    out = []

    def walk(v, path):
        if path:
            out.append(path)
        if isinstance(v, dict):
            for k in list(v.keys()):
                walk(v[k], path + (k,))
        elif isinstance(v, list):
            for i in range(len(v)):
                walk(v[i], path + (i,))

    walk(doc, ())
    return out


def mutate(doc, path, kind):
    doc = copy.deepcopy(doc)
    parent = doc
    for k in path[:-1]:
        parent = parent[k]
    last = path[-1]
    val = {'null': None, 'int': 7, 'bool': True, 'str': 'zzz', 'list': [1, 'a'], 'dict': {'k': 'v'},
           'bad_yaql': '<% $.a + %>', 'bad_jinja': '{{ 1 + }}'}
    if kind == 'delete':
        if isinstance(parent, dict):
            del parent[last]
        else:
            parent.pop(last)
    elif kind in val:
        parent[last] = val[kind]
    elif kind == 'int_key':
        if isinstance(parent, dict):
            parent[5] = parent.pop(last)
        else:
            parent[last] = {5: 1}
    elif kind == 'odd_key':
        if isinstance(parent, dict):
            parent['a b.c-$%'] = parent.pop(last)
        else:
            parent[last] = {'a b.c': 1}
    elif kind == 'dup_version':
        doc['version'] = [2.0]
    elif kind in ('add_version_float', 'add_version_other', 'add_name'):
        # a key that the item may carry itself: its own version (as YAML reads an unquoted 2.0, or another version), a name
        target = parent[last]
        if isinstance(target, dict):
            if kind == 'add_name':
                target['name'] = 'other'
            else:
                target['version'] = 2.0 if kind == 'add_version_float' else '3'
        else:
            parent[last] = {'version': 2.0}
    return doc


def _canon(v):
    """Order-insensitive canonical text of a nested structure (keys of mixed types allowed)."""
    if isinstance(v, dict):
        return '{' + ','.join('%s:%s' % (repr(k), _canon(x)) for k, x in sorted(v.items(), key=lambda kv: repr(kv[0]))) + '}'
    if isinstance(v, (list, tuple)):
        return '[' + ','.join(_canon(x) for x in v) + ']'
    return repr(v)


def _winit(repo):
    os.environ['VERIF_REPO'] = repo
    from harness import mdb
    mdb.boot()


def _validate(args):
    """Concretise one mutation descriptor and run it through the real validation code."""
    import yaml
    from mistral import exceptions as mexc
    from mistral.lang import parser as spec_parser
    from mistral.lang.v2 import workflows as wf_mod  # noqa
    bid, kind_of_doc, text, muts, entry = args
    base = yaml.safe_load(text)
    doc = base
    applied = []
    for (ni, k) in muts:
        ns = nodes_of(doc)
        if not ns:
            break
        path = ns[(ni - 1) % len(ns)]
        try:
            doc = mutate(doc, path, k)
            applied.append({'node': ni, 'kind': k})
        except Exception:
            applied.append({'node': ni, 'kind': k})
    try:
        # (an unmutated document is validated as the text it was written as - comments, block scalars and all)
        mtext = yaml.safe_dump(doc, default_flow_style=False) if muts else text
    except Exception:
        mtext = text
    fn = {'workflow': spec_parser.get_workflow_list_spec_from_yaml, 'workbook': spec_parser.get_workbook_spec_from_yaml,
          'action': spec_parser.get_action_list_spec_from_yaml}[kind_of_doc]
    # (CPU time of this worker, not wall-clock time: the budget must not depend on how loaded the machine is)
    t0 = time.process_time()
    outcome = 'accepted'
    detail = ''
    spec = None
    stable = True
    extracted = True
    try:
        spec_parser.clear_caches()
        spec = fn(mtext, validate=True)
    except mexc.MistralException as e:
        if getattr(e, 'http_code', 500) == 400 or isinstance(e, mexc.DSLParsingException):
            outcome = 'definition_error'
        else:
            outcome = 'internal:' + type(e).__name__
            detail = str(e)[:200]
    except Exception as e:
        outcome = 'internal:' + type(e).__name__
        detail = str(e)[:200]
    ms = int((time.process_time() - t0) * 1000)
    if outcome == 'accepted' and spec is not None:
        try:
            d1 = spec.to_dict()
            spec2 = type(spec)(copy.deepcopy(d1), validate=True) if kind_of_doc != 'workbook' else \
                spec_parser.get_workbook_spec(copy.deepcopy(d1), validate=True)
            stable = _canon(spec2.to_dict()) == _canon(d1)
        except TypeError:
            try:
                spec2 = fn(yaml.safe_dump(spec.to_dict()), validate=True)
                stable = _canon(spec2.to_dict()) == _canon(spec.to_dict())
            except Exception as e:
                stable = False
                detail = 'reinstantiate: %r' % e
        except Exception as e:
            stable = False
            detail = 'reinstantiate: %r' % e
        # what later execution steps do: the stored dictionaries of every workflow, task and action are read back
        # through the parser's own functions (get_workflow_spec / get_task_spec / get_action_spec)
        if stable:
            try:
                wfs = list(spec.get_workflows() or []) if hasattr(spec, 'get_workflows') else []
                acts = list(spec.get_actions() or []) if hasattr(spec, 'get_actions') else []
                for w_ in wfs:
                    again = spec_parser.get_workflow_spec(copy.deepcopy(w_.to_dict()))
                    if again is None or _canon(again.to_dict()) != _canon(w_.to_dict()):
                        stable = False
                        detail = 'workflow %s read back from its stored dictionary is %s' % (w_.get_name(), 'None' if again is None else 'different')
                    for t_ in w_.get_tasks():
                        tagain = spec_parser.get_task_spec(copy.deepcopy(t_.to_dict()))
                        if tagain is None or _canon(tagain.to_dict()) != _canon(t_.to_dict()):
                            stable = False
                            detail = 'task %s read back from its stored dictionary is %s' % (t_.get_name(), 'None' if tagain is None else 'different')
                for a_ in acts:
                    aagain = spec_parser.get_action_spec(copy.deepcopy(a_.to_dict()))
                    if aagain is None or _canon(aagain.to_dict()) != _canon(a_.to_dict()):
                        stable = False
                        detail = 'action %s read back from its stored dictionary is %s' % (a_.get_name(), 'None' if aagain is None else 'different')
            except Exception as e:
                stable = False
                detail = 'read back: %r' % e
        if kind_of_doc == 'workbook':
            try:
                for wf_spec in (spec.get_workflows() or []):
                    cut = spec_parser.get_workflow_definition(mtext, wf_spec.get_name())
                    again = spec_parser.get_workflow_list_spec_from_yaml("version: '2.0'\n" + cut, validate=False)
                    got = [w for w in again.get_workflows() if w.get_name() == wf_spec.get_name()]
                    if not got or _canon(got[0].to_dict()) != _canon(wf_spec.to_dict()):
                        extracted = False
                        detail = 'extracted workflow %s differs' % wf_spec.get_name()
                for a_spec in (spec.get_actions() or []):
                    cut = spec_parser.get_action_definition(mtext, a_spec.get_name())
                    again = spec_parser.get_action_list_spec_from_yaml("version: '2.0'\n" + cut, validate=False)
                    got = [a for a in again.get_actions() if a.get_name() == a_spec.get_name()]
                    if not got or _canon(got[0].to_dict()) != _canon(a_spec.to_dict()):
                        extracted = False
                        detail = 'extracted action %s differs' % a_spec.get_name()
            except Exception as e:
                extracted = False
                detail = 'extract: %r' % e
    return dict(base=bid, muts=applied, entry=entry, outcome=outcome, ms=ms, stable=bool(stable), extracted=bool(extracted),
                detail=detail, text=mtext if outcome.startswith('internal') or not stable or not extracted else '')


def run(tier):
    import yaml
    t0 = time.time()
    rnd = random.Random(common.seed() + 14)
    verdict = common.Verdict(PID)
    d = common.builddir('c14', clean=True)
    common.put_spec(d, *[os.path.join('dsl', f_) for f_ in ('DslValidation.tla', 'DslTrace.tla')])
    nodes = {b: len(nodes_of(yaml.safe_load(t))) for b, (k, t) in BASES.items()}
    nodes.update({b: 0 for b in TEXT_BASES})
    consts = ('CONSTANTS\n Bases = {%s}\n NodesOf <- MC_NodesOf\n Kinds = {%s}\n'
              % (', '.join('"%s"' % b for b in list(BASES) + list(TEXT_BASES)), ', '.join('"%s"' % k for k in KINDS)))
    with open(os.path.join(d, 'MC_Dsl.tla'), 'w') as fh:
        fh.write('---- MODULE MC_Dsl ----\nEXTENDS DslValidation\nMC_NodesOf == %s\n====\n'
                 % ' @@ '.join('("%s" :> %d)' % (b, n) for b, n in nodes.items()))
    with open(os.path.join(d, 'MC_Dsl.cfg'), 'w') as fh:
        fh.write('SPECIFICATION Spec\n' + consts + ' MaxMut = 1\nINVARIANT OnlyTwoOutcomes\nPROPERTY Total\nCHECK_DEADLOCK FALSE\n')
    r = common.run_tlc(os.path.join(d, 'MC_Dsl.tla'), os.path.join(d, 'MC_Dsl.cfg'), timeout=1500)
    if not r.ok:
        raise common.MachineryError('DslValidation model fails:\n' + r.out[-2000:])
    # the same descriptor space, concretised
    jobs = []
    for b, (kd, text) in BASES.items():
        jobs.append((b, kd, text, [], 'parser'))
        for ni in range(1, nodes[b] + 1):
            for k in KINDS:
                jobs.append((b, kd, text, [(ni, k)], 'parser'))
        ndouble = 150 if tier == 'quick' else 4000
        for _ in range(ndouble):
            jobs.append((b, kd, text, [(rnd.randint(1, nodes[b]), rnd.choice(KINDS)), (rnd.randint(1, nodes[b]), rnd.choice(KINDS))], 'parser'))
    for b, (kd, text) in TEXT_BASES.items():
        jobs.append((b, kd, text, [], 'parser'))
    with mp.get_context('spawn').Pool(max(2, common.NCPU - 2), initializer=_winit, initargs=(common.REPO,)) as pool:
        asyncs = [pool.apply_async(_validate, (j,)) for j in jobs]
        recs = []
        for j, a in zip(jobs, asyncs):
            try:
                recs.append(a.get(timeout=120))
            except mp.TimeoutError:
                recs.append(dict(base=j[0], muts=[{'node': x, 'kind': y} for x, y in j[3]], entry=j[4], outcome='timeout', ms=120000,
                                 stable=True, extracted=True, detail='', text=''))
    tf = os.path.join(d, 'dsl.ndjson')
    with open(tf, 'w') as fh:
        for x in recs:
            fh.write(json.dumps({k: x[k] for k in ('base', 'muts', 'entry', 'outcome', 'ms', 'stable', 'extracted')}) + '\n')
    with open(os.path.join(d, 'MC_DslTrace.tla'), 'w') as fh:
        fh.write('---- MODULE MC_DslTrace ----\nEXTENDS DslTrace\nMC_NodesOf == %s\n====\n'
                 % ' @@ '.join('("%s" :> %d)' % (b, n) for b, n in nodes.items()))
    with open(os.path.join(d, 'MC_DslTrace.cfg'), 'w') as fh:
        fh.write('SPECIFICATION TSpec\n' + consts + ' MaxMut = 2\n BudgetMs = 20000\nCONSTRAINT Report\nCHECK_DEADLOCK FALSE\n')
    rt = common.run_tlc(os.path.join(d, 'MC_DslTrace.tla'), os.path.join(d, 'MC_DslTrace.cfg'), workers=1, env={'TRACE_FILE': tf}, timeout=1500)
    cases = {int(m.group(1)): [x == 'TRUE' for x in m.groups()[1:]]
             for m in re.finditer(r'<<"case", (\d+), (TRUE|FALSE), (TRUE|FALSE), (TRUE|FALSE), (TRUE|FALSE)>>', rt.out)}
    if len(cases) != len(recs):
        raise common.MachineryError('DslTrace judged %d of %d validations\n%s' % (len(cases), len(recs), rt.out[-2000:]))
    names = ['Total', 'InTime', 'StableWhenAccepted', 'WorkbookMemberIsWhatWasWritten']
    nontrivial = set()
    counts = {}
    for i, x in enumerate(recs):
        counts[x['outcome'].split(':')[0]] = counts.get(x['outcome'].split(':')[0], 0) + 1
        if x['muts']:
            nontrivial.add(json.dumps([x['base'], x['muts']]))
        for nm, okv in zip(names, cases[i + 1]):
            if not okv:
                sig = {'clause': nm, 'exception': x['outcome'], 'kinds': sorted(set(m['kind'] for m in x['muts']))}
                verdict.violation(sig, '%s false: base %s mutations %s -> %s (%s) in %d ms' % (nm, x['base'], x['muts'], x['outcome'], x['detail'], x['ms']),
                                  dict(x))
    base_ok = [x for x in recs if not x['muts']]
    if any(x['outcome'] != 'accepted' for x in base_ok):
        raise common.MachineryError('an unmutated base document is not accepted: %s' % [x for x in base_ok if x['outcome'] != 'accepted'][:1])
    rc = verdict.finish()
    common.write_evidence(PID, tier, 'exploration', {
        'evaluations': len(recs), 'distinct_nontrivial': len(nontrivial),
        'rule': 'TLA+ (DslValidation) enumerates base document x node x mutation kind (all single mutations; doubles sampled); each is concretised to '
                'YAML and validated by the real parser; non-trivial = distinct mutated documents',
        'states': r.distinct + rt.distinct, 'outcome_classes': counts,
        'samples': [dict(base=x['base'], muts=x['muts'], outcome=x['outcome']) for x in recs[1:4]],
        'known_findings_hit': verdict.known_hits,
    }, time.time() - t0, len(verdict.violations),
        ['TLA+ is generator and class oracle here, it does not parse YAML; which documents are valid is not specified (the property does not say)',
         'REST /validate controllers not exercised separately (they wrap the same parser functions)'])
    print('C14 %s: %d validations (%s), %d violations, known %s, %.1fs' % (tier, len(recs), counts, len(verdict.violations), verdict.known_hits, time.time() - t0))
    return rc


def replay(path):
    rp = json.load(open(path))['replay']
    print(rp.get('text', ''))
    print({k: rp[k] for k in ('base', 'muts', 'outcome', 'detail')})
    return 0
