"""Common body of the engine property checks: build jobs, run them on the real engine, let TLC
judge (EngineObsTrace + EngineProps), model-check the specification side, write evidence."""
import json
import os
import random
import time

from harness import common, engcheck, engrun, gen

LEVEL_ASSUME = ['transactions are serial in one process (tx_lock); statement-level races between engine processes are model-level only',
                'sqlite stands in for the production database; RPC transport, post-commit thread spawning, scheduler threads and '
                'action bodies are replaced by the deterministic world (harness/world.py)',
                'reliable messaging: no message loss (duplicates and reordering are explored)']


def known_sig(t, l, clause):
    """Situation attributes used to match known findings narrowly (see known_findings.jsonl)."""
    out = {}
    # (the with-items version of "no task left RUNNING at rest" shares the situations of the general clause)
    ck = 'NoStuckTaskAtRest' if clause == 'ItemsTaskCompletes' else clause
    # a started / finished join re-armed (set back to WAITING) by Task.defer on a later trigger
    # (a join with a retry policy that its own completion step sets back to WAITING is the retry policy at work, not this)
    rearmed = False
    rearmed_names = set()
    retry_waits = {}        # join sid -> (time its retry policy set it WAITING, delay)
    early = False
    for s in t['steps'][:l]:
        ws = s['ev'].get('writes', [])
        for wr in ws:
            if wr['kind'] == 'tk' and wr['to'] == 'WAITING' and wr['frm'] in ('RUNNING', 'SUCCESS', 'ERROR', 'DELAYED'):
                nm = wr['sid'].split('/')[-1].split('#')[0]
                by_retry = t['prog']['tasks'].get(nm, {}).get('retry', 0) > 0 and \
                    any(w2['kind'] == 'tk' and w2['sid'] == wr['sid'] and w2['to'] in ('ERROR', 'SUCCESS') for w2 in ws)
                if by_retry:
                    retry_waits[wr['sid']] = (s['ev'].get('now', 0), t['prog']['tasks'][nm].get('delay', 0))
                else:
                    rearmed = True
                    rearmed_names.add(nm)
            if wr['kind'] == 'tk' and wr['frm'] == 'WAITING' and wr['to'] == 'RUNNING' and wr['sid'] in retry_waits \
                    and s['ev']['what'] == '_refresh_task_state':
                t0, dl = retry_waits.pop(wr['sid'])
                if s['ev'].get('now', 0) < t0 + dl:
                    early = True
    out['join_rearmed'] = rearmed
    # KF-C06-1: a start_task(first_run=False) message (sent by a rerun or by resume) was REDELIVERED: _run_existing runs once more
    if ck in ('DupNoEffect', 'StartOnce', 'AttemptBound', 'JoinOnce', 'OnePerIndex', 'NoDoubleDispatch'):
        out['existing_start_redelivered'] = any(st['ev']['kind'] == 'msg' and st['ev']['what'] == 'start_task' and st['ev'].get('dup') and not st['ev'].get('fr', True)
                                                for st in t['steps'][:l])
    # KF-C10-5: a start_task(first_run=False) sent by resume_workflow for an IDLE task was delivered (the task may start twice)
    if ck in ('AttemptBound', 'StopAtFirstSuccess', 'RetryStopsWhenTold', 'RetryExhausted', 'FinalIffLast', 'DelayRespected', 'WaitBeforeRespected', 'WaitAfterRespected'):
        out['resume_sent_start_delivered'] = (not any(st['ev']['kind'] == 'op' and st['ev']['what'] == 'rerun' for st in t['steps'][:l])) and any(
            st['ev']['kind'] == 'msg' and st['ev']['what'] == 'start_task' and not st['ev'].get('fr', True) and not st['ev'].get('dup')
            for st in t['steps'][:l])
    if ck == 'Prescribed' and rearmed:
        # a join that had finished was re-armed (KF-C04-1) and the execution ended (a fail / succeed command, an unhandled error) before
        # its refresh job ran: it is left WAITING in a finished execution
        o_ = t['steps'][l - 1]['obs']
        root_ = [w for w in o_['wf'] if w['sid'] == 'r']
        wt = [x['name'] for x in o_['tk'] if x['wf'] == 'r' and x['state'] == 'WAITING']
        out['rearmed_joins_left_waiting_in_finished_execution'] = bool(wt) and bool(root_) and root_[0]['state'] in ('SUCCESS', 'ERROR', 'CANCELLED') \
            and all(n_ in rearmed_names for n_ in wt)
    # a re-armed join had FAILED before and its on-error / on-complete targets had been started already (they stay as they are)
    routed = False
    for k_, st_ in enumerate(t['steps'][:l]):
        for wr in st_['ev'].get('writes', []):
            if wr['kind'] == 'tk' and wr['frm'] == 'ERROR' and wr['to'] == 'WAITING' and k_ >= 1:
                prev = [x for x in t['steps'][k_ - 1]['obs']['tk'] if x['sid'] == wr['sid']]
                if prev and prev[0]['next']:
                    routed = True
    out['rearmed_join_had_failed_and_routed'] = routed
    # resume of a parent whose sub-workflow fails inside the resume transaction: the parent task is moved PAUSED -> ERROR by
    # Task.update() (no routing, next_tasks left NULL)
    out['parent_task_failed_by_update_at_resume'] = any(
        st['ev']['kind'] == 'op' and st['ev']['what'] == 'resume' and any(wr['kind'] == 'tk' and wr['frm'] == 'PAUSED' and wr['to'] == 'ERROR'
                                                                          for wr in st['ev'].get('writes', []))
        for st in t['steps'][:l])
    # a join that is DELAYED (wait-after running, or waiting for its retry) is restarted by a _refresh_task_state job
    out['delayed_join_restarted_by_refresh'] = any(
        wr['kind'] == 'tk' and wr['frm'] == 'DELAYED' and wr['to'] == 'RUNNING' and st['ev']['what'] == '_refresh_task_state'
        for st in t['steps'][:l] for wr in st['ev'].get('writes', []))
    # a join with a retry policy waits for its next attempt in WAITING with a delayed refresh job; an older refresh job
    # (one is scheduled per completing inbound task) that runs in between starts the next attempt before the delay is over
    out['retry_join_woken_by_stale_refresh'] = early
    # a result delivered late (after the timeout policy failed the attempt) completes a task that is DELAYED for its retry
    out['late_result_completed_delayed_task'] = any(
        wr['kind'] == 'tk' and wr['frm'] == 'DELAYED' and wr['to'] in ('SUCCESS', 'ERROR') and st['ev']['what'] == 'on_action_complete'
        for st in t['steps'][:l] for wr in st['ev'].get('writes', []))
    ev = t['steps'][l - 1]['ev']
    if ck in ('NoHang', 'NoWaitingAtRest', 'Prescribed'):
        # KF_ResumeJoinNoRefresh: a join still WAITING at rest whose row was created by a resume step
        first = {}
        for k, s in enumerate(t['steps'][:l]):
            for x in s['obs']['tk']:
                first.setdefault(x['sid'], s['ev']['what'])
        waiting = [x for x in t['steps'][l - 1]['obs']['tk'] if x['state'] == 'WAITING' and x['isJoin']]
        out['waiting_join_created_by_resume'] = any(first.get(x['sid']) == 'resume' for x in waiting)
        # ... or whose existing (finished) row was set back to WAITING by the resume step itself
        armed = {}
        for s in t['steps'][:l]:
            for wr in s['ev'].get('writes', []):
                if wr['kind'] == 'tk' and wr['to'] == 'WAITING':
                    armed[wr['sid']] = s['ev']['what']
        out['waiting_join_rearmed_by_resume'] = any(armed.get(x['sid']) == 'resume' for x in waiting)
        # resume found only engine commands without effect (noop) to dispatch: every task is complete, nothing checks completion
        o = t['steps'][l - 1]['obs']
        root = [w for w in o['wf'] if w['sid'] == 'r']
        rs = [k for k, s in enumerate(t['steps'][:l]) if s['ev']['kind'] == 'op' and s['ev']['what'] == 'resume']
        noop_only = False
        if root and root[0]['state'] == 'RUNNING' and rs and all(x['state'] in ('SUCCESS', 'ERROR', 'CANCELLED') for x in o['tk'] if x['wf'] == 'r'):
            k0 = rs[-1]
            same = [x['sid'] for x in t['steps'][k0 - 1]['obs']['tk']] == [x['sid'] for x in o['tk']] if k0 >= 1 else False
            fired_noop = False
            for x in o['tk']:
                d = t['prog']['tasks'].get(x['name'])
                if not d or x['wf'] != 'r':
                    continue
                cl = (d['err'] if x['state'] == 'ERROR' else d['succ']) + d['comp']
                tg = [e['to'] for e in cl if e.get('fires')]
                if tg and all(g == 'noop' for g in tg):
                    fired_noop = True
            noop_only = same and fired_noop
        out['resume_dispatched_only_noop'] = noop_only
    # the timeout timer fires on a task that is DELAYED between two retry attempts
    out['timeout_fired_during_retry_delay'] = any(
        wr['kind'] == 'tk' and wr['frm'] == 'DELAYED' and wr['to'] == 'ERROR' and st['ev']['what'] == '_fail_task_if_incomplete'
        for st in t['steps'][:l] for wr in st['ev'].get('writes', []))
    # the timeout timer fails a task with a retry policy while its action is still running (the late result arrives afterwards)
    tfr = False
    for st in t['steps'][:l]:
        if st['ev']['what'] == '_fail_task_if_incomplete':
            for wr in st['ev'].get('writes', []):
                if wr['kind'] == 'tk' and wr['frm'] == 'RUNNING' and wr['to'] == 'ERROR':
                    nm = wr['sid'].split('/')[-1].split('#')[0]
                    if t['prog']['tasks'].get(nm, {}).get('retry', 0) > 0 and \
                            any(a['task'] == wr['sid'] and a['state'] == 'RUNNING' for a in st['obs']['ax']):
                        tfr = True
    out['timeout_beat_running_action_of_retry_task'] = tfr
    rr_all = [k for k, st in enumerate(t['steps'][:l]) if st['ev']['kind'] == 'op' and st['ev']['what'] == 'rerun' and st['ev']['exc'] == 'none']
    if ck in ('NoHang', 'NoWaitingAtRest', 'NoStuckTaskAtRest', 'Prescribed') and rr_all:
        # rerun / skip of a finished execution in which a join was still WAITING: its refresh jobs ran while the execution was
        # finished (no effect) and nothing schedules another one
        o = t['steps'][l - 1]['obs']
        k0 = rr_all[0]
        before = t['steps'][k0 - 1]['obs'] if k0 >= 1 else {'tk': [], 'wf': []}
        was_waiting = set(x['sid'] for x in before['tk'] if x['state'] == 'WAITING')
        root_before = [w for w in before['wf'] if w['sid'] == 'r']
        unfinished = [x for x in o['tk'] if x['state'] not in ('SUCCESS', 'ERROR', 'CANCELLED', 'SKIPPED')]
        out['unfinished_are_joins_waiting_since_the_finished_execution_was_rerun'] = bool(unfinished) and bool(root_before) and \
            root_before[0]['state'] in ('ERROR', 'CANCELLED') and all(x['state'] == 'WAITING' and x['sid'] in was_waiting for x in unfinished)
    if ck in ('Prescribed', 'NoHang', 'RerunRestores') and rr_all:
        # a rerun issued while the execution is still RUNNING - the failed task's deferred completion check has not run yet; that
        # check then fails the execution before the task's new start is delivered
        stale = False
        for k0 in rr_all:
            tgt = t['steps'][k0]['ev'].get('t', '')
            for st in t['steps'][k0 + 1:l]:
                e_ = st['ev']
                if e_['kind'] == 'msg' and e_['what'] == 'start_task' and e_.get('t') == tgt and not e_.get('fr', True):
                    break
                if e_['what'] == 'check' and any(wr['kind'] == 'wf' and wr['sid'] == 'r' and wr['frm'] == 'RUNNING' and wr['to'] == 'ERROR' for wr in e_.get('writes', [])):
                    stale = True
        out['stale_completion_check_failed_the_execution_after_rerun'] = stale
    noreset = [k for k, st in enumerate(t['steps'][:l]) if st['ev']['kind'] == 'op' and st['ev']['what'] == 'rerun' and st['ev'].get('arg') == 'noreset']
    if ck in ('NoHang', 'NoWaitingAtRest', 'NoStuckTaskAtRest', 'Prescribed') and noreset:
        o = t['steps'][l - 1]['obs']
        stuck = []
        for x in o['tk']:
            if x['wiCount'] >= 0 and x['state'] == 'RUNNING':
                kids = [a for a in o['ax'] if a['task'] == x['sid']] + [w for w in o['wf'] if w['parent'] == x['sid']]
                if kids and all(a['state'] in ('SUCCESS', 'ERROR', 'CANCELLED') for a in kids):
                    stuck.append(x['sid'])
        out['items_task_stuck_after_noreset_rerun'] = bool(stuck)
    reruns = [k for k, st in enumerate(t['steps'][:l]) if st['ev']['kind'] == 'op' and st['ev']['what'] == 'rerun' and st['ev']['exc'] == 'none']
    if ck in ('OnePerIndex', 'CompleteAfterAll', 'WithItemsFinalState', 'WithinLimit', 'NoHang', 'NoStuckTaskAtRest', 'Prescribed') and reruns:
        # rerun of a with-items task with concurrency: an index is started again while its re-execution is still running
        dup_running = False
        for k0 in reruns:
            target = t['steps'][k0]['ev'].get('target', '')
            before_sids = set(a['sid'] for a in (t['steps'][k0 - 1]['obs']['ax'] if k0 >= 1 else []))
            seen = {}
            for st in t['steps'][k0:l]:
                for a in st['obs']['ax']:
                    if a['task'] == target and a['sid'] not in before_sids and a['sid'] not in seen:
                        sib = [b for b in st['obs']['ax'] if b['task'] == target and b['idx'] == a['idx'] and b['sid'] in seen]
                        if any(b['state'] in ('RUNNING', 'IDLE') for b in sib):
                            dup_running = True
                        seen[a['sid']] = a['idx']
        out['rerun_started_index_twice_while_running'] = dup_running
    if ck in ('OnePerIndex', 'CompleteAfterAll', 'WithItemsFinalState', 'NoHang', 'NoStuckTaskAtRest', 'Prescribed') and not reruns:
        # the same through the retry policy: another attempt of a with-items task with a concurrency limit starts an index a second
        # time while its re-execution is still running (and leaves a later index out)
        dup_retry = False
        seen_ax = {}
        for st in t['steps'][:l]:
            for a in st['obs']['ax']:
                if a['sid'] in seen_ax:
                    continue
                d_ = t['prog']['tasks'].get(a['task'].split('/')[-1].split('#')[0], {})
                if d_.get('items', -1) >= 0 and d_.get('retry', 0) > 0 and d_.get('conc', 0) > 0:
                    sib = [b for b in st['obs']['ax'] if b['task'] == a['task'] and b['idx'] == a['idx'] and b['sid'] in seen_ax]
                    if any(b['state'] in ('RUNNING', 'IDLE') for b in sib):
                        dup_retry = True
                seen_ax[a['sid']] = 1
        out['retry_started_index_twice_while_running'] = dup_retry
    if ck in ('PartialRerunOnlyFailed', 'OnePerIndex', 'CompleteAfterAll', 'WithItemsFinalState', 'Prescribed') and noreset:
        k = noreset[-1]
        before = t['steps'][k - 1]['obs'] if k >= 1 else {'ax': [], 'wf': []}
        target = t['steps'][k]['ev'].get('target', '')
        o = t['steps'][l - 1]['obs']
        kb = [a for a in before['ax'] if a['task'] == target] + [w for w in before['wf'] if w['parent'] == target]
        ko = [a for a in o['ax'] if a['task'] == target] + [w for w in o['wf'] if w['parent'] == target]
        failed = [a['idx'] for a in kb if a['accepted'] and a['state'] in ('ERROR', 'CANCELLED')]
        new = [a['idx'] for a in ko if a['sid'] not in set(b['sid'] for b in kb)]
        out['extra_indexes_all_after_first_failed'] = bool(failed) and all(i >= min(failed) for i in new)
    if ck in ('OnePerIndex', 'CompleteAfterAll', 'WithItemsFinalState', 'WithinLimit', 'NoHang', 'NoStuckTaskAtRest', 'Prescribed'):
        # KF-C07-7: a start_task(first_run=False) message sent by resume_workflow (KF-C10-5) reached a with-items task; `hit` = the
        # with-items tasks that got one (restarted on top of their running items, or started by it without their policies);
        # `bad` = the with-items tasks the clause can be about at this step
        o = t['steps'][l - 1]['obs']
        hit = set()
        for st in t['steps'][:l]:
            e_ = st['ev']
            if e_['kind'] == 'msg' and e_['what'] == 'start_task' and not e_.get('fr', True) and not e_.get('dup') and \
                    t['prog']['tasks'].get(e_.get('t', ''), {}).get('items', -1) >= 0:
                hit.add(e_['t'])
        bad = set()
        fin = ('SUCCESS', 'ERROR', 'CANCELLED')
        live = ('RUNNING', 'IDLE', 'PAUSED', 'DELAYED', 'WAITING')
        for x in o['tk']:
            d_ = t['prog']['tasks'].get(x['name'])
            if not d_ or d_['items'] < 0 or x['wf'] != 'r':
                continue
            kids = [a for a in o['ax'] if a['task'] == x['sid']]
            acc = [a for a in kids if a['accepted']]
            idxs = [a['idx'] for a in kids]
            want = 'ERROR' if any(a['state'] == 'ERROR' for a in acc) else 'SUCCESS'
            pres = (ck == 'Prescribed')      # (the outcome clause: any of the with-items symptoms explains a wrong outcome)
            if (clause == 'OnePerIndex' or pres) and len(idxs) != len(set(idxs)):
                bad.add(x['name'])
            if (clause == 'CompleteAfterAll' or pres) and x['state'] in fin and x['wiCount'] >= 0 and \
                    (any(a['state'] in live for a in acc) or len(set(a['idx'] for a in acc)) != d_['items']):
                bad.add(x['name'])
            if (clause == 'WithItemsFinalState' or pres) and x['state'] in fin and x['wiCount'] >= 0 and x['state'] != want:
                bad.add(x['name'])
            if clause == 'WithinLimit' and d_['conc'] > 0 and sum(1 for a in kids if a['state'] in live) > d_['conc']:
                bad.add(x['name'])
            if ck in ('NoHang', 'NoStuckTaskAtRest', 'Prescribed') and x['state'] == 'RUNNING' and kids and all(a['state'] in fin for a in kids):
                bad.add(x['name'])
        out['offending_items_tasks_all_got_a_resume_start'] = bool(bad) and bad <= hit
        # ... or are with-items JOINS that were re-armed (KF-C04-1) after they had started their items
        out['offending_items_tasks_all_rearmed_joins'] = bool(bad) and bad <= rearmed_names
    if clause == 'WithinLimit':
        o = t['steps'][l - 1]['obs']
        over = []
        for x in o['tk']:
            conc = t['prog']['tasks'][x['name']]['conc']
            if conc > 0:
                live = sum(1 for a in o['ax'] if a['task'] == x['sid'] and a['state'] in ('RUNNING', 'IDLE', 'PAUSED', 'DELAYED', 'WAITING'))
                live += sum(1 for w in o['wf'] if w['parent'] == x['sid'] and w['state'] in ('RUNNING', 'IDLE', 'PAUSED'))
                if live > conc:
                    over.append(x)
        out['over_limit_tasks_all_joins'] = bool(over) and all(x['isJoin'] for x in over)
    if clause == 'WaitBeforeRespected':
        # which tasks started their action earlier than wait-before allows ?
        born, kid0 = {}, {}
        for st in t['steps'][:l]:
            now = st['ev'].get('now', 0)
            for x in st['obs']['tk']:
                born.setdefault(x['sid'], now)
            for a in st['obs']['ax']:
                kid0.setdefault(a['task'], now)
            for w in st['obs']['wf']:
                if w.get('parent'):
                    kid0.setdefault(w['parent'], now)
        viol = []
        for x in t['steps'][l - 1]['obs']['tk']:
            d = t['prog']['tasks'].get(x['name'], {})
            if d.get('waitBefore', 0) > 0 and not x['isJoin'] and x['sid'] in kid0 and kid0[x['sid']] < born[x['sid']] + d['waitBefore']:
                viol.append(d)
        out['early_tasks_all_have_pause_before'] = bool(viol) and all(d.get('pauseBefore') for d in viol)
    if ck in ('NoHang', 'NoStuckTaskAtRest', 'NoWaitingAtRest', 'Prescribed') and rearmed:
        # a join that was re-armed (set back to WAITING after it had started / finished) is what is left unfinished at rest
        arm = set()
        for s in t['steps'][:l]:
            for wr in s['ev'].get('writes', []):
                if wr['kind'] == 'tk' and wr['to'] == 'WAITING' and wr['frm'] in ('RUNNING', 'SUCCESS', 'ERROR', 'DELAYED'):
                    arm.add(wr['sid'])
        o = t['steps'][l - 1]['obs']
        unfinished = [x['sid'] for x in o['tk'] if x['state'] in ('RUNNING', 'WAITING', 'IDLE', 'DELAYED')]
        out['unfinished_tasks_are_rearmed_joins'] = bool(unfinished) and all(u in arm for u in unfinished)
    if clause == 'Prescribed':
        # the execution had been failed by a `fail` command (not by the completion check) before a task of it was rerun / skipped
        k_rr = [k for k, st in enumerate(t['steps'][:l]) if st['ev']['kind'] == 'op' and st['ev']['what'] == 'rerun' and st['ev']['exc'] == 'none']
        by_cmd = False
        if k_rr:
            for st in t['steps'][:k_rr[0]]:
                if st['ev']['kind'] != 'ptq' and any(wr['kind'] == 'wf' and wr['sid'] == 'r' and wr['frm'] == 'RUNNING' and wr['to'] == 'ERROR'
                                                     for wr in st['ev'].get('writes', [])):
                    by_cmd = any(e.get('to') == 'fail' for d_ in t['prog']['tasks'].values() for kk in ('succ', 'err', 'comp') for e in d_[kk])
        out['wf_failed_by_command_before_rerun'] = by_cmd
        # a task whose fired transitions contain fail / succeed completed while the execution was PAUSED: the command takes
        # effect only at resume, and whatever resolves in between (a join that fails, another branch) differs from the unpaused run
        delayed = False
        want = set()
        for k, st in enumerate(t['steps'][:l]):
            if k == 0:
                continue
            prevwf = [w['state'] for w in t['steps'][k - 1]['obs']['wf'] if w['sid'] == 'r']
            if prevwf and prevwf[0] == 'PAUSED':
                for wr in st['ev'].get('writes', []):
                    if wr['kind'] == 'tk' and wr['to'] in ('SUCCESS', 'ERROR') and wr['sid'].startswith('r/') and wr['sid'].count('/') == 1:
                        d_ = t['prog']['tasks'].get(wr['sid'].split('/')[-1].split('#')[0], {})
                        cl = (d_.get('err', []) if wr['to'] == 'ERROR' else d_.get('succ', [])) + d_.get('comp', [])
                        if any(e.get('fires') and e.get('to') in ('fail', 'succeed') for e in cl):
                            delayed = True
                            want |= {'ERROR' if e['to'] == 'fail' else 'SUCCESS' for e in cl if e.get('fires') and e.get('to') in ('fail', 'succeed')}
        # ... and the command DID take effect when the execution was resumed (the finding is about what resolves in between, not about
        # a command that gets lost)
        took = any(st['ev']['kind'] == 'op' and st['ev']['what'] == 'resume' and
                   any(wr['kind'] == 'wf' and wr['sid'] == 'r' and wr['to'] in want for wr in st['ev'].get('writes', []))
                   for st in t['steps'][:l])
        out['terminating_command_delayed_by_pause'] = delayed and took
    if clause == 'PauseBeforeRespected':
        # which pause-before tasks started an action / sub-workflow without a PAUSED period followed by a resume ?
        born, first_kid = {}, {}
        for k, st in enumerate(t['steps'][:l]):
            for x in st['obs']['tk']:
                born.setdefault(x['sid'], k)
            for a in st['obs']['ax']:
                first_kid.setdefault(a['task'], k)
            for w in st['obs']['wf']:
                if w.get('parent'):
                    first_kid.setdefault(w['parent'], k)
        viol = []
        for x in t['steps'][l - 1]['obs']['tk']:
            d = t['prog']['tasks'].get(x['name'], {})
            if not d.get('pauseBefore') or x['isJoin'] or x['sid'] not in first_kid:
                continue
            b0, f0 = born[x['sid']], first_kid[x['sid']]
            ok = False
            for kp in range(b0, f0):
                wst = [w['state'] for w in t['steps'][kp]['obs']['wf'] if w['sid'] == x['wf']]
                if wst and wst[0] == 'PAUSED' and any(t['steps'][kr]['ev']['kind'] == 'op' and t['steps'][kr]['ev']['what'] == 'resume'
                                                        for kr in range(kp + 1, f0 + 1)):
                    ok = True
            if not ok:
                viol.append(d)
        out['unresumed_starts_all_have_timeout_and_retry'] = bool(viol) and all(d.get('timeout', 0) > 0 and d.get('retry', 0) > 0 for d in viol)
    if clause == 'StopAck' and l >= 2:
        prev = {w['sid']: w['state'] for w in t['steps'][l - 2]['obs']['wf']}
        out['stop_state'] = ev.get('arg', '')
        out['prev_state'] = prev.get(ev.get('target', ''), '')
    return out


def random_jobs(rnd, n, schedulers=('default', 'legacy'), gen_kw=None, label='rand', **job_kw):
    jobs = []
    for k in range(n):
        seed = rnd.randrange(1 << 30)
        P = gen.gen_direct(random.Random(seed), **(gen_kw or {}))
        jobs.append(dict(prog=P, scheduler=schedulers[k % len(schedulers)], policy=engrun.POLICIES[k % len(engrun.POLICIES)],
                         seed=seed, label='%s%d' % (label, k), **job_kw))
    return jobs


def catalogue_jobs(schedulers=('default', 'legacy'), policies=tuple(engrun.POLICIES[1:]), seeds=(1, 2), **job_kw):
    jobs = []
    for nm, P in gen.catalogue():
        for s in schedulers:
            for pol in policies:
                for sd in seeds:
                    jobs.append(dict(prog=P, scheduler=s, policy=pol, seed=sd, label=nm, **job_kw))
    return jobs


def reverse_jobs(rnd, n, schedulers=('default', 'legacy'), **job_kw):
    jobs = []
    for k in range(n):
        seed = rnd.randrange(1 << 30)
        P = gen.gen_reverse(random.Random(seed))
        jobs.append(dict(prog=P, scheduler=schedulers[k % len(schedulers)], policy=engrun.POLICIES[k % len(engrun.POLICIES)],
                         seed=seed, label='rev%d' % k, **job_kw))
    return jobs


def catalogue_model_runs(d, tier, liveness_for=('diamond_j-1_ok', 'nested_join_inner_uncreated_err', 'diamond_j1_ok'),
                         ops=0, dups=0, kinds=('pause', 'resume', 'stop'), only=None, tag='', schedulers=None, shapes=None):
    """Exhaustive TLC runs of MistralEngine on catalogue shapes (all delivery orders of messages,
    post-commit operations and job sub-steps; with `ops` operator commands of the given kinds issued at any
    point and `dups` redeliveries of any delivered message), liveness (Terminates under weak fairness) on a few."""
    import concurrent.futures as cf
    from harness import engmodel
    shapes = [x for x in (shapes or gen.catalogue()) if only is None or x[0] in only]
    out = []

    # both scheduler implementations without budgets (and in the thorough tier); the default scheduler under budgets
    if schedulers is None:
        schedulers = ('default', 'legacy') if (tier == 'thorough' or (not ops and not dups)) else ('default',)

    def one(item):
        nm, P = item
        res = []
        for sch in schedulers:
            r = engmodel.model_check(d, nm + tag + ('_' + sch[0]), P.abstract(), liveness=False, ops=ops, dups=dups, kinds=kinds, scheduler=sch)
            res.append(('MistralEngine/%s%s %s scheduler ops=%d%s dups=%d' % (nm, tag, sch, ops, '(%s)' % ','.join(kinds) if ops else '', dups), r))
        if nm in liveness_for and not ops and not dups:
            res.append(('MistralEngine/%s/liveness' % nm, engmodel.model_check(d, nm + '_live', P.abstract(), liveness=True)))
        return res

    with cf.ThreadPoolExecutor(max_workers=6) as ex:
        for res in ex.map(one, shapes):
            out += res
    return out


def model_jobs(d, tier, sims=(), probes=(), shapes=None):
    """Spec -> code: behaviours of MistralEngine.tla to be stepped through the real engine (harness/modelreplay.py).
    sims:   (shape names | None = all, behaviours per shape, ops, dups, kinds) - TLC simulation
    probes: (label, shape, TLA+ state formula, ops, dups, kinds) - TLC is asked for a behaviour reaching the formula"""
    import concurrent.futures as cf
    from harness import modelreplay as mr
    shapes = shapes or gen.catalogue()
    byname = dict(shapes)
    jobs, info = [], {'simulated': 0, 'probes': {}}

    def sim(item):
        (nm, P), (num, ops, dups, kinds, k) = item
        sd = common.builddir(os.path.basename(d), 'sim%d' % k)
        behs, r = mr.simulate(sd, nm, P.abstract(), num, ops=ops, dups=dups, kinds=kinds, seed=common.seed() + 11 * k + 1)
        return [dict(prog=P, states=b, label='model:%s#%d' % (nm, i), seed=i) for i, b in enumerate(behs)]

    items = []
    for k, (names, num, ops, dups, kinds) in enumerate(sims):
        for nm, P in shapes:
            if names is None or nm in names:
                items.append(((nm, P), (num, ops, dups, kinds, len(items))))
    with cf.ThreadPoolExecutor(max_workers=8) as ex:
        for js in ex.map(sim, items):
            jobs += js
            info['simulated'] += len(js)

    def prb(item):
        k, (label, nm, formula, ops, dups, kinds) = item
        pd = common.builddir(os.path.basename(d), 'probe%d' % k)
        beh, r = mr.probe(pd, nm, byname[nm].abstract(), formula, ops=ops, dups=dups, kinds=kinds)
        return label, nm, beh

    with cf.ThreadPoolExecutor(max_workers=4) as ex:
        for label, nm, beh in ex.map(prb, list(enumerate(probes))):
            info['probes'][label] = bool(beh)
            if beh:
                jobs.append(dict(prog=byname[nm], states=beh, label='probe:%s:%s' % (label, nm), seed=0))
    return jobs, info


def run_property(pid, tier, jobs, nontrivial_rule, nontrivial_fn, model_runs=None, extra=None, strict=False, prescribed=False, model_behaviours=None, post=None):
    t0 = time.time()
    verdict = common.Verdict(pid)
    d = common.builddir(pid.lower(), clean=True)
    states = trans = 0
    model_info = []
    for (name, r) in (model_runs(d) if model_runs else []):
        states += r.distinct
        trans += r.generated
        model_info.append({'config': name, 'distinct_states': r.distinct, 'ok': r.ok})
        if not r.finished or not r.ok:
            raise common.MachineryError('model %s violates a property of the specification itself (spec defect or unmodelled defect):\n%s'
                                        % (name, r.out[-3500:]))
    if pid == 'C06':
        from harness.checks import c06_executor
        er = c06_executor.EXECUTOR_RESULT
        for nm, x in er.get('violations', []):
            verdict.violation({'clause': 'Executor.' + nm, 'redelivered': x['redelivered'], 'safe': x['safe'], 'outcome': x['outcome']},
                              'executor request %s: %s false' % (json.dumps(x), nm), x)
        for x in er.get('divergent', [])[:5]:
            verdict.divergence('executor request not a behaviour of Executor.tla: %s' % json.dumps(x))
        extra = dict(extra or {}, executor_requests=er.get('requests', 0), executor_requests_accepted=er.get('accepted', 0))
    traces = engcheck.run_jobs(jobs)
    mb_info = {}
    if model_behaviours:
        from harness import modelreplay as mr
        mjobs, mb_info = model_behaviours(d)
        mtraces = mr.run_behaviours(mjobs)
        traces = traces + mtraces
    errs = [t for t in traces if 'error' in t]
    if errs:
        raise common.MachineryError('%d runs failed inside the harness, first:\n%s' % (len(errs), errs[0]['error']))
    if model_behaviours:
        full = order = 0
        for t in mtraces:
            m = t['meta']['model']
            if m['mismatch']:
                verdict.divergence('model behaviour [%s] could not be followed by the real engine: %s' % (t['meta']['label'], m['mismatch']))
            elif m['order_choice']:
                order += 1
            else:
                full += 1
        mb_info.update({'behaviours_replayed_into_real_engine': len(mtraces), 'followed_to_the_end': full,
                        'not_imposable_order_of_commands_left_open_by_model': order,
                        'not_followed_divergence': len(mtraces) - full - order})
        # a behaviour that stopped early is a partial run: its last state is not a state of rest
        traces = [t for t in traces if t['steps']]
    viols, st, tr = engcheck.judge(d, traces)
    states += st
    trans += tr
    mine, other = engcheck.report(pid, verdict, traces, viols, extra_sig=known_sig)
    strict_info = {}
    if prescribed:
        from harness import prescribed as presc
        bad, njudged, st3, tr3 = presc.judge(d, traces)
        states += st3
        trans += tr3
        for i in sorted(bad):
            t = traces[i]
            fin = presc.final_of(t)
            sig = {'clause': 'Prescribed', 'shape': engcheck.shape_sig(t['prog']), 'ops': [o['op'] for o in t['meta'].get('ops', [])]}
            sig.update(known_sig(t, len(t['steps']), 'Prescribed'))
            verdict.violation(sig, 'Prescribed false: the final outcome of run [%s scheduler=%s policy=%s seed=%s] - execution %s, tasks %s - is not an '
                                   'outcome the language semantics (WfSemantics) prescribes for this definition and these action results %s'
                              % (t['meta'].get('label'), t['meta']['scheduler'], t['meta']['policy'], t['meta']['seed'], fin['wf'],
                                 sorted(map(tuple, fin['tasks'])), presc.effective_outcomes(t)),
                              {'yaml': t['meta'].get('yaml'), 'meta': {k: v for k, v in t['meta'].items() if k not in ('yaml',)},
                               'final': fin, 'effective_outcomes': presc.effective_outcomes(t), 'events': [s_['ev'] for s_ in t['steps']], 'job': t.get('job'),
                               'failing_step': len(t['steps']), 'obs_at_failure': t['steps'][-1]['obs'],
                               'oracle': {k: v['outcome'] for k, v in t['prog']['tasks'].items()}})
        strict_info['outcomes_judged_by_WfSemantics'] = njudged
        strict_info['outcomes_not_prescribed'] = len(bad)
    if strict:
        from harness import engmodel
        scope = [t for t in traces if t['meta']['policy'] != 'model' and engmodel.in_scope(t)]
        if scope:
            acc, reached, st2, tr2 = engmodel.strict_validate(d, scope)
            states += st2
            trans += tr2
            ndiv = 0
            und = set(engmodel.UNDECIDED)
            engmodel.UNDECIDED.clear()
            for i, t in enumerate(scope):
                if i not in acc and i not in und:
                    ndiv += 1
                    if ndiv <= 5:
                        k = reached.get(i, 0)
                        nxt = t['steps'][k]['ev'] if k < len(t['steps']) else {}
                        verdict.divergence('run [%s policy=%s seed=%s] is not a behaviour of MistralEngine: matched %d of %d steps, next event %s:%s%s'
                                           % (t['meta'].get('label'), t['meta']['policy'], t['meta']['seed'], k, len(t['steps']),
                                              nxt.get('kind'), nxt.get('what'), ('/' + nxt.get('phase')) if nxt.get('phase') else ''))
            strict_info.update({'traces_in_model_scope': len(scope), 'traces_accepted_strict': len(acc), 'divergences': ndiv,
                                'traces_undecided_search_too_large': len(und)})
    post_info = post(d, traces, verdict) if post else {}
    nontrivial = set()
    for t in traces:
        k = nontrivial_fn(t)
        if k:
            nontrivial.add(json.dumps([t['meta']['yaml'], t['meta']['scheduler'], t['meta']['policy'], t['meta']['seed'], k], sort_keys=True))
    samples = []
    for t in traces[:400]:
        if nontrivial_fn(t) and len(samples) < 2:
            samples.append({'yaml': t['meta']['yaml'], 'scheduler': t['meta']['scheduler'], 'policy': t['meta']['policy'],
                            'ops': t['meta'].get('ops'), 'events': ['%s:%s%s' % (s['ev']['kind'], s['ev']['what'], ('/' + s['ev']['phase']) if s['ev']['phase'] else '')
                                                                    for s in t['steps']],
                            'final': {'wf': [(w['sid'], w['state']) for w in t['steps'][-1]['obs']['wf']],
                                      'tk': [(x['sid'], x['state']) for x in t['steps'][-1]['obs']['tk']]}})
    for nline in verdict.notes[:3]:
        print('NOTE ' + nline)
    if verdict.other_clauses:
        print('NOTE clauses of other properties false in these runs: %s' % verdict.other_clauses)
    rc = verdict.finish()
    cov = {
        'states': max(1, states), 'transitions': max(1, trans),
        'traces_validated_against_impl': len(traces),
        'evaluations': len(traces), 'distinct_nontrivial': len(nontrivial), 'rule': nontrivial_rule,
        'steps_judged': sum(len(t['steps']) for t in traces),
        'model_runs': model_info, 'clauses_false_for_other_properties': other,
        'samples': samples or [{'yaml': traces[0]['meta']['yaml']}],
        'known_findings_hit': verdict.known_hits,
    }
    cov.update(strict_info)
    if mb_info:
        cov['model_behaviours'] = mb_info
    if post_info:
        cov.update(post_info)
    if extra:
        cov.update(extra)
    common.write_evidence(pid, tier, 'model_checking', cov, time.time() - t0, len(verdict.violations), LEVEL_ASSUME)
    print('%s %s: %d runs of the real engine (%d steps) judged by TLC, %d non-trivial, %d violations (+%d clause failures of other '
          'properties), known findings %s, %.1fs'
          % (pid, tier, len(traces), cov['steps_judged'], len(nontrivial), len(verdict.violations), other, verdict.known_hits,
             time.time() - t0))
    return rc


def replay(pid, path):
    """Re-execute the stored definition under the stored schedule parameters (scheduler, policy, seed, operator
    commands, duplicates, id order) against the current tree, let TLC judge the new run with the same formulas, and
    say whether the stored clause fails again.  Exit 1 (with a VIOLATION line) if it does, 0 if the run is clean."""
    import pickle
    doc = json.load(open(path))
    rp = doc['replay']
    meta = rp.get('meta', {})
    clause = doc['signature'].get('clause')
    print('replaying %s: clause %s, run [%s scheduler=%s policy=%s seed=%s ops=%s]' % (path, clause, meta.get('label'), meta.get('scheduler'),
                                                                                    meta.get('policy'), meta.get('seed'), meta.get('ops')))
    job = rp.get('job')
    if not job:
        print(rp.get('yaml', ''))
        print('this replay file carries no executable job description (written by an older version); nothing re-executed')
        return 2
    import base64
    job = pickle.loads(base64.b64decode(job))
    d = common.builddir(pid.lower() + '_replay', clean=True)
    traces = engcheck.run_jobs([job])
    if 'error' in traces[0]:
        raise common.MachineryError(traces[0]['error'])
    viols, st, tr = engcheck.judge(d, traces)
    failed = sorted(set(c for lst in viols.values() for (l, c) in lst))
    bad_presc = False
    if clause == 'Prescribed':
        from harness import prescribed as presc
        bad, nj, _, _ = presc.judge(d, traces)
        bad_presc = bool(bad)
    t = traces[0]
    print('events: ' + ' '.join('%s:%s%s' % (s_['ev']['kind'], s_['ev']['what'], ('/' + s_['ev']['phase']) if s_['ev']['phase'] else '') for s_ in t['steps']))
    print('final: wf %s tasks %s' % ([(w['sid'], w['state']) for w in t['steps'][-1]['obs']['wf']], [(x['sid'], x['state']) for x in t['steps'][-1]['obs']['tk']]))
    print('clauses false in the re-executed run: %s' % (failed + (['Prescribed'] if bad_presc else [])))
    if clause in failed or bad_presc:
        print('VIOLATION property=%s replay=%s' % (pid, path))
        return 1
    print('the stored clause holds in the re-executed run')
    return 0
