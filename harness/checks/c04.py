"""C04 - no task before its prerequisites; a join runs exactly once (direct), requires (reverse)."""
import random

from harness import common
from harness.checks import engine_common as ec

PID = 'C04'


def _nontrivial(t):
    last = t['steps'][-1]['obs']
    joins = [x for x in last['tk'] if x['isJoin'] and x['state'] in ('SUCCESS', 'ERROR', 'RUNNING')]
    return [x['sid'] for x in joins] or None


def _statement_level(tier):
    """The part of C04 that lives between two engine processes: JoinRace.tla model-checked with every protecting primitive
    switched on and off, and the recorded transactions of the real engine checked (PrimTrace.tla) to use the primitives in
    the order the model assumes.  A primitive found missing in the real transactions is a VIOLATION only if the model
    without it violates a property (level = model: the replay is the model's counterexample)."""
    def post(d, traces, verdict):
        from harness import joinrace, mdb
        info, broken, cex = joinrace.model_results(d, tier)
        withp = [t for t in traces if any('prims' in s_ for s_ in t['steps'])]
        viol, seen, st = joinrace.conformance(d, withp)
        for k in ('join_created', 'join_moved', 'dedupe'):
            if not seen.get(k):
                raise common.MachineryError('primitive-usage conformance is vacuous: no transaction of kind %s was recorded' % k)
        missing = dict((rule, hits) for rule, hits in viol.items() if hits)
        if not joinrace.unique_key_present():
            missing['UseUniqueKey'] = [(-1, 0)]
        # the model decides whether what is missing matters (e.g. the defer lock alone is covered by the unique key)
        key = '+'.join(sorted(set(missing) & set(joinrace.PRIMS)))
        if missing:
            offs = sorted(set(missing) & set(joinrace.PRIMS))
            r = joinrace._run(d, 'observed_missing', 2, 2, off=offs)
            bad = sorted(set(r.inv_violations))
            for rule, hits in sorted(missing.items()):
                ti, l = hits[0]
                where = ('run [%s scheduler=%s] step %d (%s)' % (withp[ti]['meta'].get('label'), withp[ti]['meta']['scheduler'], l,
                                                                 withp[ti]['steps'][l - 1]['ev']['what'])) if ti >= 0 else 'database schema'
                if bad:
                    verdict.violation({'clause': 'Primitive:' + rule, 'level': 'model', 'model_properties_violated': bad},
                                      'the real transactions do not use the protecting primitive %s (%d places, first: %s); JoinRace.tla without '
                                      '%s violates %s: two engine processes can break the property (statement-level race, model counterexample)'
                                      % (rule, len(hits), where, '+'.join(offs), bad),
                                      {'level': 'model', 'missing': offs, 'model_counterexample': r.out[-5000:],
                                       'yaml': withp[ti]['meta'].get('yaml') if ti >= 0 else '', 'job': withp[ti].get('job') if ti >= 0 else None})
                else:
                    verdict.divergence('the real transactions do not use the primitive %s as JoinRace.tla assumes (%d places, first: %s); the model '
                                       'without it still satisfies every property' % (rule, len(hits), where))
        return {'statement_level_model': info, 'primitives_load_bearing_in_model': broken,
                'primitive_usage': {'runs_checked': len(withp), 'transactions_creating_a_join': seen.get('join_created', 0),
                                    'transactions_moving_a_join': seen.get('join_moved', 0), 'dedupe_queries': seen.get('dedupe', 0),
                                    'rules_violated': {k_: len(v) for k_, v in viol.items()}}}
    return post


def run(tier):
    rnd = random.Random(common.seed() + 4)
    n = 60 if tier == 'quick' else 1500
    jobs = ec.catalogue_jobs(seeds=(1, 2) if tier == 'quick' else (1, 2, 3, 4, 5, 6))
    jobs += ec.random_jobs(rnd, n, gen_kw=dict(p_join=0.95, p_cmd=0.05), label='join')
    jobs += ec.reverse_jobs(rnd, 20 if tier == 'quick' else 300)
    # shapes in which ONE completion affects two existing joins (too wide for the exhaustive budgets: real engine under every policy)
    from harness import gen as _gen, engrun as _engrun
    for _nm, _P in _gen.wide_shapes():
        for _sch in ('default', 'legacy'):
            for _pol in _engrun.POLICIES[1:]:
                jobs.append(dict(prog=_P, scheduler=_sch, policy=_pol, seed=1 + len(_nm), label=_nm))
    # a join whose long inbound branch breaks at every distance from the join
    from harness import gen, engrun
    for k, (nm, P) in enumerate(gen.long_branch_shapes()):
        for sch in ('default', 'legacy'):
            jobs.append(dict(prog=P, scheduler=sch, policy=engrun.POLICIES[1:][(k + (sch == 'legacy')) % 7], seed=k + 1, label=nm))
    # a join behind the pause command: resumed at every point after the pause
    pj = dict(gen.catalogue())['cmd_pause_join']
    for sch in ('default', 'legacy'):
        for at in range(3, 15):
            jobs.append(dict(prog=pj, scheduler=sch, policy=('random', 'starve_ptq', 'results_first', 'fifo', 'lifo')[at % 5], seed=at, label='pause_join',
                             ops=[dict(at=at, op='resume'), dict(at=10 ** 6, op='resume')]))
    for k, j in enumerate(jobs):
        j['prims'] = (k % 2 == 0)
    return ec.run_property(PID, tier, jobs,
                           'generated direct DAGs with all/one/N joins (incl. nested joins, joins fed by on-error/on-complete and by '
                           'guards that do not fire) and reverse requires-graphs, run on the real engine under both schedulers and 8 '
                           'schedule policies; joins fed by a 6-task branch that breaks at every distance; non-trivial = distinct runs in which at least one join with >= 2 inbound branches started or failed',
                           _nontrivial, model_runs=lambda d: ec.catalogue_model_runs(d, tier) +
                           # reverse workflows (ReqGateM: only tasks of the target's closure, only after what they require succeeded), also with
                           # pause / resume / stop at any two points
                           ec.catalogue_model_runs(d, tier, shapes=gen.reverse_catalogue(), liveness_for=(), tag='_rev', schedulers=('default', 'legacy')) +
                           ec.catalogue_model_runs(d, tier, shapes=gen.reverse_catalogue(), ops=2, liveness_for=(), tag='_rev_o2', schedulers=('default',)) +
                           # (two_joins: 18.6 M states / 15 min under the default scheduler, 5.9 M states under the legacy one: the legacy
                           #  configuration in the thorough tier only)
                           (ec.catalogue_model_runs(d, tier, shapes=gen.wide_shapes()[:1], liveness_for=(), tag='_wide', schedulers=('legacy',)) if tier == 'thorough' else []),
                           strict=True, prescribed=True, post=_statement_level(tier),
                           model_behaviours=lambda d: ec.model_jobs(d, tier, sims=[(None, 2 if tier == 'quick' else 10, 0, 0, ())],
                                                                    probes=[('join_started_twice', 'diamond_j1_ok', '\\E x \\in Names : IsJoin(x) /\\ Len(ax[x]) > 1', 0, 0, ())]))


def replay(path):
    return ec.replay(PID, path)
