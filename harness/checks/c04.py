"""C04 - no task before its prerequisites; a join runs exactly once (direct), requires (reverse)."""
import random

from harness import common
from harness.checks import engine_common as ec

PID = 'C04'


def _nontrivial(t):
    last = t['steps'][-1]['obs']
    joins = [x for x in last['tk'] if x['isJoin'] and x['state'] in ('SUCCESS', 'ERROR', 'RUNNING')]
    return [x['sid'] for x in joins] or None


def run(tier):
    rnd = random.Random(common.seed() + 4)
    n = 60 if tier == 'quick' else 1500
    jobs = ec.catalogue_jobs(seeds=(1, 2) if tier == 'quick' else (1, 2, 3, 4, 5, 6))
    jobs += ec.random_jobs(rnd, n, gen_kw=dict(p_join=0.95, p_cmd=0.05), label='join')
    jobs += ec.reverse_jobs(rnd, 20 if tier == 'quick' else 300)
    return ec.run_property(PID, tier, jobs,
                           'generated direct DAGs with all/one/N joins (incl. nested joins, joins fed by on-error/on-complete and by '
                           'guards that do not fire) and reverse requires-graphs, run on the real engine under both schedulers and 8 '
                           'schedule policies; non-trivial = distinct runs in which at least one join with >= 2 inbound branches started or failed',
                           _nontrivial, model_runs=lambda d: ec.catalogue_model_runs(d, tier), strict=True, prescribed=True,
                           model_behaviours=lambda d: ec.model_jobs(d, tier, sims=[(None, 2 if tier == 'quick' else 10, 0, 0, ())],
                                                                    probes=[('join_started_twice', 'diamond_j1_ok', '\\E x \\in Names : IsJoin(x) /\\ Len(ax[x]) > 1', 0, 0, ())]))


def replay(path):
    return ec.replay(PID, path)
