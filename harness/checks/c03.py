"""C03 - execution lifecycle respected, finished results final (operator commands at every point)."""
import random

from harness import common
from harness.checks import engine_common as ec

PID = 'C03'


def _nontrivial(t):
    return bool(t['meta'].get('ops')) or t['meta'].get('dups', 0) > 0 or None


def run(tier):
    rnd = random.Random(common.seed() + 3)
    n = 70 if tier == 'quick' else 1500
    jobs = []
    base = ec.random_jobs(rnd, n, label='ops')
    for k, j in enumerate(base):
        at = rnd.randint(1, 25)
        kind = k % 8
        if kind == 0:
            j['ops'] = [dict(at=at, op='pause'), dict(at=at + rnd.randint(1, 10), op='resume')]
        elif kind == 1:
            j['ops'] = [dict(at=at, op='stop', state=rnd.choice(['ERROR', 'CANCELLED', 'SUCCESS']))]
        elif kind == 2:
            j['ops'] = [dict(at=at, op='stop', state='CANCELLED'), dict(at=at + 3, op='resume')]
        elif kind == 3:
            j['dups'] = 2
        elif kind == 4:
            j['ops'] = [dict(at=at, op='pause'), dict(at=at + 2, op='stop', state=rnd.choice(['ERROR', 'CANCELLED']))]
        elif kind in (6, 7):
            # a finished (stopped) execution receives a pause and then a resume: nothing may move
            j['ops'] = [dict(at=at, op='stop', state=('CANCELLED', 'ERROR', 'SUCCESS')[(k // 8) % 3]), dict(at=at + 1 + k % 3, op='pause'),
                        dict(at=at + 5, op='resume')]
        else:
            j['ops'] = [dict(at=60, op='rerun', reset=True), dict(at=61, op='stop', state='ERROR')]
        jobs.append(j)
    return ec.run_property(PID, tier, jobs,
                           'generated programs with operator commands (pause, resume, stop with each state, rerun; pause + resume of a stopped execution) and duplicate deliveries '
                           'issued at random points of the run; every individual state write (SQL level) and every committed state is judged; '
                           'non-trivial = distinct runs with at least one operator command or duplicate',
                           _nontrivial, strict=True,
                           model_behaviours=lambda d: ec.model_jobs(d, tier, sims=[(None, 2 if tier == 'quick' else 8, 1, 1, ('pause', 'resume', 'stop'))]),
                           model_runs=lambda d: ec.catalogue_model_runs(d, tier, ops=1, dups=1, tag='_o1d1') +
                           ec.catalogue_model_runs(d, tier, ops=3 if tier == 'thorough' else 2, only=('chain2', 'linear_handled', 'cmd_fail_first'), tag='_o3'))


def replay(path):
    return ec.replay(PID, path)
