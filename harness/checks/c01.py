"""C01 - every run finishes with the outcome its definition prescribes."""
import random

from harness import common
from harness.checks import engine_common as ec

PID = 'C01'


def _nontrivial(t):
    return len(t['steps'][-1]['obs']['tk']) >= 2 or None


def run(tier):
    rnd = random.Random(common.seed() + 1)
    n = 90 if tier == 'quick' else 2500
    jobs = ec.catalogue_jobs(seeds=(1, 2) if tier == 'quick' else (1, 2, 3, 4, 5, 6))
    jobs += ec.random_jobs(rnd, n, label='dag')
    jobs += ec.reverse_jobs(rnd, 20 if tier == 'quick' else 300)
    # shapes in which ONE completion affects two existing joins (too wide for the exhaustive budgets: real engine under every policy)
    from harness import gen as _gen, engrun as _engrun
    for _nm, _P in _gen.wide_shapes():
        for _sch in ('default', 'legacy'):
            for _pol in _engrun.POLICIES[1:]:
                jobs.append(dict(prog=_P, scheduler=_sch, policy=_pol, seed=1 + len(_nm), label=_nm))
    return ec.run_property(PID, tier, jobs,
                           'generated direct DAGs (forks, joins, guards, error routes, fail/succeed commands) and reverse graphs x action-result '
                           'assignments x schedule policies x both schedulers; non-trivial = distinct runs with at least two task executions',
                           _nontrivial, model_runs=lambda d: ec.catalogue_model_runs(d, tier) +
                           ec.catalogue_model_runs(d, tier, shapes=_gen.reverse_catalogue(), liveness_for=('rev_diamond', 'rev_diamond_err'), tag='_rev', schedulers=('default', 'legacy')),
                           strict=True, prescribed=True,
                           model_behaviours=lambda d: ec.model_jobs(d, tier, shapes=_gen.catalogue() + _gen.reverse_catalogue(), sims=[(None, 3 if tier == 'quick' else 12, 0, 0, ())]))


def replay(path):
    return ec.replay(PID, path)
