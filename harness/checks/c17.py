"""C17 - cron triggers.  Specs: spec/cron/{CronProps,CronTrigger,CronObsTrace,CronTrace}.tla.

TLC checks CronTrigger.tla exhaustively (2..3 processors, 2 triggers with pattern / first time /
count combinations, lag jumps, a processor dying between any two steps), plus liveness under
fairness.  The real process_cron_triggers_v2 is run by 2..3 gated 'processes' along TLC-simulated
behaviours and along seeded random schedules; every recorded execution is judged by TLC with the
CronProps formulas (decisive) and validated as a behaviour of the model (divergence).
"""
import glob
import json
import multiprocessing as mp
import os
import random
import re
import shutil
import time

from harness import common

PID = 'C17'

TRIGS = {
    'a': {1: dict(period=1, first=-1, count=2, project='A'), 2: dict(period=5, first=2, count=-1, project='B')},
    'b': {1: dict(period=0, first=1, count=-1, project='A'), 2: dict(period=1, first=-1, count=-1, project='B')},
    'c': {1: dict(period=1, first=-1, count=1, project='A'), 2: dict(period=5, first=1, count=2, project='A', name='trig2')},
}
CONFIGS = {
    'a2': dict(trigs=TRIGS['a'], nproc=2, maxtime=8, jumps=[1, 6], createby=1),
    'b2': dict(trigs=TRIGS['b'], nproc=2, maxtime=5, jumps=[1, 4], createby=1),
    'l2': dict(trigs=TRIGS['b'], nproc=2, maxtime=4, jumps=[1, 3], createby=0),
    'c2': dict(trigs=TRIGS['c'], nproc=2, maxtime=6, jumps=[1, 5], createby=1),
    'a3': dict(trigs=TRIGS['a'], nproc=3, maxtime=6, jumps=[1, 5], createby=0),
}
INVS = ['OncePerOccurrence', 'OnlyDueOccurrences', 'CountBound', 'FirstTimeOnlyOnce', 'RemainingConsistent',
        'RemovedWhenExhausted', 'OnBehalfOfOwner', 'NextMonotone', 'ExactlyOnceAtRest', 'TypeOK']


def write_model(d, name, c, module):
    tr = c['trigs']
    fn = lambda f: ' @@ '.join('(%d :> %s)' % (t, common.tla(f(v))) for t, v in sorted(tr.items()))
    mc = 'MC_%s_%s' % (module, name)
    with open(os.path.join(d, mc + '.tla'), 'w') as fh:
        fh.write('---- MODULE %s ----\nEXTENDS %s\nMC_Period == %s\nMC_First == %s\nMC_Count == %s\nMC_Project == %s\n====\n'
                 % (mc, module, fn(lambda v: v['period']), fn(lambda v: v['first']), fn(lambda v: v['count']),
                    fn(lambda v: v['project'])))
    consts = ('CONSTANTS\n Trig = {%s}\n Proc = {%s}\n Period <- MC_Period\n First <- MC_First\n Count <- MC_Count\n Project <- MC_Project\n'
              % (', '.join(str(t) for t in sorted(tr)), ', '.join(str(p) for p in range(1, c['nproc'] + 1))))
    full = consts + ' MaxTime = %d\n Jumps = {%s}\n Immortal = {1}\n CreateBy = %d\n' % (
        c['maxtime'], ', '.join(str(j) for j in c['jumps']), c['createby'])
    return mc, consts, full


def model_check(d, name, c, live=False, coverage=False):
    mc, _, full = write_model(d, name + ('_live' if live else ''), c, 'CronTrigger')
    cfgp = os.path.join(d, mc + '.cfg')
    with open(cfgp, 'w') as fh:
        fh.write('SPECIFICATION %s\n' % ('FairSpec' if live else 'Spec') + full + 'VIEW view\n' +
                 ''.join('INVARIANT %s\n' % i for i in INVS) + ('PROPERTY DueEventuallyHandled\n' if live else '') +
                 'CHECK_DEADLOCK FALSE\n')
    return common.run_tlc(os.path.join(d, mc + '.tla'), cfgp, timeout=3000, coverage=coverage)


def simulate(d, name, c, num, depth, seed):
    mc, _, full = write_model(d, name + '_sim', c, 'CronTrigger')
    cfgp = os.path.join(d, mc + '.cfg')
    with open(cfgp, 'w') as fh:
        fh.write('SPECIFICATION Spec\n' + full + 'CHECK_DEADLOCK FALSE\n')
    sd = os.path.join(d, 'sim_' + name)
    shutil.rmtree(sd, ignore_errors=True)
    os.makedirs(sd)
    common.run_tlc(os.path.join(d, mc + '.tla'), cfgp, workers=1, simulate='file=%s/tr,num=%d' % (sd, num), depth=depth,
                   seed_=seed, timeout=600)
    behs = []
    for f in sorted(glob.glob(os.path.join(sd, 'tr_*'))):
        evs = []
        for m in re.finditer(r'^/\\ ev = (.*)$', open(f).read(), re.M):
            e = common.parse_tla(m.group(1))
            if e.get('a') != 'Init':
                evs.append(e)
        behs.append(evs)
    shutil.rmtree(sd, ignore_errors=True)
    return behs


def enabled_steps(w, c):
    out = []
    for t in c['trigs']:
        first = c['trigs'][t]['first']
        if not w.created[t] and w.now <= c['createby'] and (first == -1 or first >= w.now + 1):
            out.append({'a': 'Create', 't': t})
    for p in range(1, c['nproc'] + 1):
        if not w.alive[p]:
            continue
        at = w.at(p)
        if at is None:
            out.append({'a': 'List', 'p': p})
        else:
            out.append({'a': {'adv': 'Advance', 'start': 'Start'}[at[0]], 'p': p})
        if p != 1:
            out.append({'a': 'Crash', 'p': p})
    for dd in c['jumps']:
        if w.now + dd <= c['maxtime']:
            out.append({'a': 'Tick', 'd': dd})
    return out


def apply_step(w, e):
    a = e['a']
    if a == 'Create':
        if w.created[e['t']]:
            return None
        return {'a': 'Create', 't': e['t']} if w.create(e['t']) else None
    if a == 'Tick':
        w.tick(e['d'])
        return {'a': 'Tick', 'd': e['d']}
    if a == 'Crash':
        if not w.alive[e['p']]:
            return None
        w.crash(e['p'])
        return {'a': 'Crash', 'p': e['p']}
    if a == 'List':
        if not w.alive[e['p']] or w.at(e['p']) is not None:
            return None
        n = w.list_(e['p'])
        return {'a': 'List', 'p': e['p'], 'n': n}
    if a == 'Interfere':
        # arm: the next advance of processor p is interfered with (see cronworld)
        w.armed.add(e['p'])
        return None
    if a in ('Advance', 'Start'):
        p = e['p']
        at = w.at(p)
        kind = 'adv' if a == 'Advance' else 'start'
        if not w.alive[p] or at is None or at[0] != kind:
            return None
        t = at[1]
        nstarts = len(w.starts)
        w.step(p, kind)
        if a == 'Advance':
            return {'a': 'Advance', 'p': p, 't': t}
        return {'a': 'Start', 'p': p, 't': t, 'started': len(w.starts) > nstarts}
    return None


def _winit(repo):
    os.environ['VERIF_REPO'] = repo
    from harness import mdb
    mdb.boot(auth_enable=True)


def run_schedule(args):
    cname, c, evs, mode, seed = args
    from harness import cronworld
    w = cronworld.CronWorld(c['trigs'], c['nproc'])
    steps = [dict(ev={'a': 'Init'}, obs=w.observe())]
    rnd = random.Random(seed)
    skipped = 0
    try:
        if mode == 'replay':
            for e in evs:
                le = apply_step(w, e)
                if le is None:
                    skipped += 1
                    continue
                steps.append(dict(ev=le, obs=w.observe()))
        elif mode == 'interfere':
            # one processor works through its passes; every now and then another processor's committed advance lands inside
            # its advance_cron_trigger, between the SELECT and the conditional write
            for _ in range(evs):
                en = [e for e in enabled_steps(w, c) if e.get('p', 1) == 1 and e['a'] != 'Crash']
                if not en:
                    break
                e = rnd.choices(en, [3.0 if x['a'] == 'Create' else 0.6 if x['a'] == 'Tick' else 1.0 for x in en])[0]
                if e['a'] == 'Advance' and rnd.random() < 0.6:
                    w.armed.add(1)
                le = apply_step(w, e)
                if le is not None:
                    steps.append(dict(ev=le, obs=w.observe()))
        else:
            for _ in range(evs):
                en = enabled_steps(w, c)
                if not en:
                    break
                wts = [0.2 if e['a'] == 'Crash' else 3.0 if e['a'] == 'Create' else 0.7 if e['a'] == 'Tick' else 1.0 for e in en]
                le = apply_step(w, rnd.choices(en, wts)[0])
                if le is not None:
                    steps.append(dict(ev=le, obs=w.observe()))
        errors = list(w.errors)
    finally:
        w.close()
    return dict(cfg=cname, mode=mode, steps=steps, skipped=skipped, errors=errors)


def validate(d, cname, c, traces, strict):
    module = 'CronTrace' if strict else 'CronObsTrace'
    mc, consts, full = write_model(d, cname + ('_s' if strict else '_o'), c, module)
    tf = os.path.join(d, 'traces_%s_%s.ndjson' % (cname, 's' if strict else 'o'))
    with open(tf, 'w') as fh:
        for t in traces:
            fh.write(json.dumps({'steps': t['steps']}) + '\n')
    cfgp = os.path.join(d, mc + '.cfg')
    with open(cfgp, 'w') as fh:
        fh.write('SPECIFICATION TSpec\n' + (full if strict else consts) + 'CONSTRAINT Report\nCHECK_DEADLOCK FALSE\n')
    r = common.run_tlc(os.path.join(d, mc + '.tla'), cfgp, workers=1, env={'TRACE_FILE': tf}, timeout=3000,
                       metatag='c17' + cname + module)
    if not r.finished:
        raise common.MachineryError('trace validation did not finish:\n' + r.out[-3000:])
    return r


def run(tier):
    t0 = time.time()
    verdict = common.Verdict(PID)
    d = common.builddir('c17', clean=True)
    for f in glob.glob(os.path.join(common.SPEC, 'cron', '*.tla')):
        shutil.copy(f, d)
    states = trans = 0
    model_runs = []
    names = ['a2', 'b2'] if tier == 'quick' else ['a2', 'b2', 'c2', 'a3']
    for nm in names:
        model_runs.append((nm, 'safety', model_check(d, nm, CONFIGS[nm], coverage=(tier == 'thorough'))))
    model_runs.append(('l2', 'liveness', model_check(d, 'l2', CONFIGS['l2'], live=True)))
    for nm, mode, r in model_runs:
        states += r.distinct
        trans += r.generated
        if not r.finished or not r.ok:
            raise common.MachineryError('model %s/%s violates its own properties (spec defect or unmodelled defect):\n%s'
                                        % (nm, mode, r.out[-3500:]))
    nsim = 40 if tier == 'quick' else 300
    nrand = 40 if tier == 'quick' else 300
    jobs_ = []
    for nm in names:
        c = CONFIGS[nm]
        for b in simulate(d, nm, c, nsim, 40, common.seed() + 17):
            jobs_.append((nm, c, b, 'replay', 0))
        for k in range(nrand):
            jobs_.append((nm, c, 40, 'random', common.seed() * 7919 + k))
        for k in range(nrand // 2):
            jobs_.append((nm, c, 40, 'interfere', common.seed() * 104729 + k))
    with mp.get_context('spawn').Pool(max(2, common.NCPU - 2), initializer=_winit, initargs=(common.REPO,)) as pool:
        traces = pool.map(run_schedule, jobs_, chunksize=4)
    by_cfg = {}
    for t in traces:
        by_cfg.setdefault(t['cfg'], []).append(t)
        errs = [e for e in t['errors']]
        if errs:
            verdict.divergence('real code raised inside a step: %s' % (errs[:2],))
    n_ok = n_div = 0
    nontrivial = set()
    samples = []
    for cname, ts in sorted(by_cfg.items()):
        c = CONFIGS[cname]
        ro = validate(d, cname, c, ts, strict=False)
        states += ro.distinct
        trans += ro.generated
        done = set(int(m.group(1)) for m in re.finditer(r'<<"done", (\d+)>>', ro.out))
        if len(done) != len(ts):
            raise common.MachineryError('observation spec judged %d of %d executions (%s)\n%s' % (len(done), len(ts), cname, ro.out[-2000:]))
        viols = {}
        for m in re.finditer(r'<<"viol", (\d+), (\d+), "(\w+)">>', ro.out):
            viols.setdefault(int(m.group(1)), []).append((int(m.group(2)), m.group(3)))
        # (executions with statement-level interference are judged by the property formulas only: the other processor's
        #  steps happen inside a step of the observed one)
        rs = validate(d, cname, c, [t_ if t_['mode'] != 'interfere' else dict(t_, steps=t_['steps'][:1]) for t_ in ts], strict=True)
        states += rs.distinct
        trans += rs.generated
        acc = set(int(m.group(1)) for m in re.finditer(r'<<"accepted", (\d+)>>', rs.out))
        reached = {}
        for m in re.finditer(r'<<"reached", (\d+), (\d+)>>', rs.out):
            reached[int(m.group(1))] = max(reached.get(int(m.group(1)), 0), int(m.group(2)))
        for k, t in enumerate(ts):
            tid = k + 1
            last = t['steps'][-1]['obs']
            if last['starts']:
                nontrivial.add(json.dumps([cname] + [s['ev'] for s in t['steps']], sort_keys=True))
            for (l, clause) in sorted(viols.get(tid, []))[:1]:
                sig = {'clause': clause, 'event': t['steps'][l - 1]['ev']['a']}
                verdict.violation(sig, 'config %s, step %d (%s): %s false on the real cron processing; events: %s; obs: %s'
                                  % (cname, l, json.dumps(t['steps'][l - 1]['ev']), clause,
                                     ' '.join('%s%s' % (s['ev']['a'], tuple(v for k2, v in s['ev'].items() if k2 != 'a'))
                                              for s in t['steps'][:l]), json.dumps(t['steps'][l - 1]['obs'])),
                                  {'config': cname, 'events': [s['ev'] for s in t['steps']][1:], 'failing_step': l})
            if tid in acc:
                n_ok += 1
            else:
                n_div += 1
                if n_div <= 5:
                    k2 = reached.get(tid, 0)
                    verdict.divergence('config %s: execution not a behaviour of CronTrigger; matched prefix %d of %d; next %s; prev obs %s'
                                       % (cname, k2, len(t['steps']),
                                          json.dumps(t['steps'][k2]) if k2 < len(t['steps']) else '-',
                                          json.dumps(t['steps'][k2 - 1]['obs']) if k2 >= 1 else '-'))
            if len(samples) < 3 and len(last['starts']) >= 2:
                samples.append({'config': cname, 'events': [s['ev'] for s in t['steps']][1:], 'final': last})
    rc = verdict.finish()
    common.write_evidence(PID, tier, 'model_checking', {
        'states': states, 'transitions': trans,
        'traces_validated_against_impl': len(traces), 'traces_accepted_strict': n_ok, 'divergences': n_div,
        'model_runs': [{'config': nm, 'mode': mode, 'distinct_states': r.distinct} for nm, mode, r in model_runs],
        'evaluations': len(traces), 'distinct_nontrivial': len(nontrivial),
        'rule': 'executions of the real process_cron_triggers_v2 by gated processors (TLC -simulate behaviours + seeded random '
                'schedules); non-trivial = distinct event sequences in which at least one workflow was started',
        'samples': samples or [{'events': [s['ev'] for s in traces[0]['steps']]}],
        'known_findings_hit': verdict.known_hits,
    }, time.time() - t0, len(verdict.violations),
        ['time in whole minutes, patterns "* * * * *" and "*/5 * * * *"; keystone and the engine RPC client are fakes',
         'transactions are serial in one process; sqlite'])
    print('C17 %s: %d states; %d real executions, %d accepted strictly, %d divergences, %d violations, %.1fs'
          % (tier, states, len(traces), n_ok, n_div, len(verdict.violations), time.time() - t0))
    return rc


def replay(path):
    rp = json.load(open(path))['replay']
    _winit(common.REPO)
    t = run_schedule((rp['config'], CONFIGS[rp['config']], rp['events'], 'replay', 0))
    for s in t['steps']:
        print(json.dumps(s))
    return 0
