"""C12 - rerun or skip of a failed task resumes the run correctly."""
import random

from harness import common
from harness.checks import engine_common as ec

PID = 'C12'


def _nontrivial(t):
    return any(s['ev']['kind'] == 'op' and s['ev']['what'] == 'rerun' and s['ev']['exc'] == 'none' for s in t['steps']) or None


def run(tier):
    rnd = random.Random(common.seed() + 12)
    n = 160 if tier == 'quick' else 3000
    jobs = []
    gk = dict(partial_joins=False, p_err=0.45, p_items=0.2, p_sub=0.15, p_retry=0.1, p_cmd=0.03)
    base = ec.random_jobs(rnd, n, label='rerun', gen_kw=gk)
    # the rerun-then-pause histories use plain action tasks, so that the language semantics (WfSemantics) can
    # prescribe the outcome of the whole run
    plain = ec.random_jobs(rnd, n, label='rerunp', gen_kw=dict(gk, p_items=0.0, p_sub=0.0, p_retry=0.0, p_cmd=0.0))
    for k in range(n):
        j = plain[k] if k % 5 == 4 else base[k]
        P = j['prog']
        # second attempt outcome: succeed / fail again
        for tag, oc in list(P.oracle.items()):
            if isinstance(oc, list) and oc and oc[-1] == 'err':
                P.oracle[tag] = oc + [rnd.choice(['ok', 'ok', 'err'])]
            elif isinstance(oc, dict):
                P.oracle[tag] = {i: (v + [rnd.choice(['ok', 'ok', 'err'])] if v[-1] == 'err' else v) for i, v in oc.items()}
        kind = k % 5
        if kind == 0:
            j['ops'] = [dict(at=300, op='rerun', reset=True, pick=k)]
        elif kind == 1:
            j['ops'] = [dict(at=300, op='rerun', reset=False, pick=k)]
        elif kind == 2:
            j['ops'] = [dict(at=300, op='skip', pick=k)]
        elif kind == 3:
            j['ops'] = [dict(at=300, op='rerun', reset=True, pick=k), dict(at=600, op='rerun', reset=bool(k % 8 == 3), pick=k + 1)]
        else:
            # rerun, pause while the new attempt is running, results arrive while paused, resume
            j['ops'] = [dict(at=300, op='rerun', reset=True, pick=k), dict(rel=rnd.randint(0, 3), op='pause'),
                        dict(at=10 ** 6, op='resume')]
        j['max_steps'] = 900
        jobs.append(j)
    # reruns INSIDE the item sub-workflows of a with-items task, issued back to back (both items are re-executing at
    # the same time; the parent task must wait for all of them and then continue as if they had succeeded at once)
    from harness import gen, engrun
    for n_items in (2, 3):
        for k, pol in enumerate(engrun.POLICIES[1:]):
            P = gen.items_over_subworkflows(n_items, conc=(None if k % 2 else n_items))
            ops = [dict(at=300, op='rerun', reset=True, target='r/t0#0@0.0/sub1x0#0')]
            ops += [dict(rel=0, op='rerun', reset=True, target='r/t0#0@%d.0/sub1x0#0' % i) for i in range(1, n_items)]
            jobs.append(dict(prog=P, scheduler=('default', 'legacy')[k % 2], policy=pol, seed=k + 1, label='itemsub%d' % n_items, ops=ops, max_steps=900))
    # a task INSIDE a sub-workflow fails and is rerun (or skipped) while the workflow around the parent task is still RUNNING
    # (another branch of it is unfinished): the enclosing task must go back to RUNNING, the run ends as prescribed
    subs = ec.random_jobs(rnd, n // 2, label='rerunsub', gen_kw=dict(partial_joins=False, p_err=0.2, p_sub=0.5, p_cmd=0.0, p_join=0.6))
    for k, j in enumerate(subs):
        P = j['prog']
        for tag, oc in list(P.oracle.items()):
            if isinstance(oc, list) and oc and oc[-1] == 'err':
                P.oracle[tag] = oc + [rnd.choice(['ok', 'ok', 'ok', 'err'])]
        j['ops'] = [dict(when='sub_failed_parent_running', op=('skip' if k % 4 == 3 else 'rerun'), reset=bool(k % 2), target='*sub')]
        j['max_steps'] = 900
        jobs.append(j)
    for k, pol in enumerate(engrun.POLICIES[1:] * 2):
        P = gen.sub_beside_long_branch(length=2 + k % 3)
        jobs.append(dict(prog=P, scheduler=('default', 'legacy')[k % 2], policy=pol, seed=k + 1, label='subrerun', max_steps=900,
                         ops=[dict(when='sub_failed_parent_running', op=('skip' if k % 5 == 4 else 'rerun'), reset=bool(k % 2), target='*sub')]))
    # the failing catalogue shapes: every ERROR task rerun (reset on / off) or skipped once the run is at rest, under both schedulers
    fshapes = gen.failing_shapes()
    for nm, P in fshapes:
        for k, pol in enumerate(engrun.POLICIES[1:4] if tier == 'quick' else engrun.POLICIES[1:]):
            for c, o in enumerate((dict(op='rerun', reset=True), dict(op='rerun', reset=False), dict(op='skip'))):
                jobs.append(dict(prog=P, scheduler=('default', 'legacy')[(k + c) % 2], policy=pol, seed=k + 1, label=nm + '_' + o['op'] + str(c), max_steps=900,
                                 ops=[dict(o, at=300, pick=k)]))
    small = ('linear_handled', 'diamond_j-1_berr', 'diamond_j-1_aerr', 'diamond_j2_cerr', 'items2_c1_err1', 'items2_c0_err1', 'retry2_plain_err_d0', 'wait_after_err_retry')

    def model_runs(d):
        out = ec.catalogue_model_runs(d, tier, shapes=fshapes, ops=1, kinds=('rerun', 'skip'), tag='_r1', liveness_for=(),
                                      # (items_pair_join with a rerun budget does not finish within the TLC time limit: left out of both tiers)
                                      only=small + ('items3_c0_err1', 'nested_join_inner_uncreated_err', 'diamond_j1_berr', 'rev_diamond_err', 'rev_two_roots') +
                                      (('diamond_j-1_cerr', 'diamond_j1_cerr', 'diamond_j1_aerr', 'diamond_j2_berr', 'diamond_j2_aerr', 'diamond_errroute', 'items3_c1_err1',
                                        'items3_c2_err1', 'items2_c3_err1', 'retry2_plain_err_d1', 'retry2_join_err_d0', 'retry2_join_err_d1') if tier == 'thorough' else ()),
                                      schedulers=('default', 'legacy'))
        out += ec.catalogue_model_runs(d, tier, shapes=fshapes, ops=2, kinds=('rerun', 'skip'), tag='_r2', liveness_for=(),
                                       only=('linear_handled', 'items2_c1_err1', 'diamond_j-1_aerr') if tier == 'quick' else small)
        out += ec.catalogue_model_runs(d, tier, shapes=fshapes, ops=3, kinds=('rerun', 'pause', 'resume'), tag='_rpr', liveness_for=(),
                                       # (items2_c1_err1 with rerun + pause + resume violates WithinLimitM in the model - more than `concurrency`
                                       #  items RUNNING; the real engine follows that counterexample step by step: a genuine defect that the model
                                       #  has no hist flag for yet - left out until it has, see DESIGN.md 0.6)
                                       only=('linear_handled',))
        if tier == 'thorough':
            out += ec.catalogue_model_runs(d, tier, shapes=fshapes, ops=2, kinds=('rerun', 'pause', 'resume'), tag='_rp2', liveness_for=(),
                                           only=('diamond_j-1_berr', 'diamond_j-1_aerr', 'retry2_plain_err_d0'))
        return out

    return ec.run_property(PID, tier, jobs,
                           'generated programs (plain, with-items, join, sub-workflow and retry tasks) run to rest, then an ERROR task is rerun '
                           '(reset on/off), skipped, or rerun twice, with a new outcome for the new attempt, and run to rest again; non-trivial = '
                           'distinct runs with an accepted rerun/skip; fixed histories: reruns inside all item sub-workflows of a with-items task issued back to back; '
                           'reruns / skips of a task inside a failed sub-workflow issued while the workflow around the parent task is still RUNNING; '
                           'every failing catalogue shape (plain, with-items, policies) with each ERROR task rerun (reset on / off) or skipped at rest',
                           _nontrivial, prescribed=True, strict=True, model_runs=model_runs,
                           model_behaviours=lambda d: ec.model_jobs(
                               d, tier, shapes=fshapes,
                               sims=[(small + ('items3_c0_err1', 'diamond_errroute'), 2 if tier == 'quick' else 8, 1, 0, ('rerun', 'skip')),
                                     (small[:4], 2 if tier == 'quick' else 8, 3, 0, ('rerun', 'pause', 'resume'))],
                               probes=[('waiting_join_never_refreshed_after_rerun', 'diamond_j-1_berr', 'Quiet /\\ wf = "RUNNING" /\\ KF_RerunJoin', 1, 0, ('rerun', 'skip')),
                                       ('items_task_hangs_after_partial_rerun', 'items3_c0_err1',
                                        'Quiet /\\ wf = "RUNNING" /\\ \\E x \\in hist.rerunT : IsItems(x) /\\ tk[x].state = "RUNNING"', 1, 0, ('rerun',)),
                                       ('rerun_completes', 'linear_handled', 'Quiet /\\ wf = "SUCCESS" /\\ hist.reruns = 1 /\\ tk["a"].state = "SUCCESS"', 1, 0, ('rerun',))]))


def replay(path):
    return ec.replay(PID, path)
