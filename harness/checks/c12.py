"""C12 - rerun or skip of a failed task resumes the run correctly."""
import random

from harness import common
from harness.checks import engine_common as ec

PID = 'C12'


def _nontrivial(t):
    return any(s['ev']['kind'] == 'op' and s['ev']['what'] == 'rerun' and s['ev']['exc'] == 'none' for s in t['steps']) or None


def run(tier):
    rnd = random.Random(common.seed() + 12)
    n = 160 if tier == 'quick' else 3000
    jobs = []
    gk = dict(partial_joins=False, p_err=0.45, p_items=0.2, p_sub=0.15, p_retry=0.1, p_cmd=0.03)
    base = ec.random_jobs(rnd, n, label='rerun', gen_kw=gk)
    # the rerun-then-pause histories use plain action tasks, so that the language semantics (WfSemantics) can
    # prescribe the outcome of the whole run
    plain = ec.random_jobs(rnd, n, label='rerunp', gen_kw=dict(gk, p_items=0.0, p_sub=0.0, p_retry=0.0, p_cmd=0.0))
    for k in range(n):
        j = plain[k] if k % 5 == 4 else base[k]
        P = j['prog']
        # second attempt outcome: succeed / fail again
        for tag, oc in list(P.oracle.items()):
            if isinstance(oc, list) and oc and oc[-1] == 'err':
                P.oracle[tag] = oc + [rnd.choice(['ok', 'ok', 'err'])]
            elif isinstance(oc, dict):
                P.oracle[tag] = {i: (v + [rnd.choice(['ok', 'ok', 'err'])] if v[-1] == 'err' else v) for i, v in oc.items()}
        kind = k % 5
        if kind == 0:
            j['ops'] = [dict(at=300, op='rerun', reset=True, pick=k)]
        elif kind == 1:
            j['ops'] = [dict(at=300, op='rerun', reset=False, pick=k)]
        elif kind == 2:
            j['ops'] = [dict(at=300, op='skip', pick=k)]
        elif kind == 3:
            j['ops'] = [dict(at=300, op='rerun', reset=True, pick=k), dict(at=600, op='rerun', reset=bool(k % 8 == 3), pick=k + 1)]
        else:
            # rerun, pause while the new attempt is running, results arrive while paused, resume
            j['ops'] = [dict(at=300, op='rerun', reset=True, pick=k), dict(rel=rnd.randint(0, 3), op='pause'),
                        dict(at=10 ** 6, op='resume')]
        j['max_steps'] = 900
        jobs.append(j)
    # reruns INSIDE the item sub-workflows of a with-items task, issued back to back (both items are re-executing at
    # the same time; the parent task must wait for all of them and then continue as if they had succeeded at once)
    from harness import gen, engrun
    for n_items in (2, 3):
        for k, pol in enumerate(engrun.POLICIES[1:]):
            P = gen.items_over_subworkflows(n_items, conc=(None if k % 2 else n_items))
            ops = [dict(at=300, op='rerun', reset=True, target='r/t0#0@0.0/sub1x0#0')]
            ops += [dict(rel=0, op='rerun', reset=True, target='r/t0#0@%d.0/sub1x0#0' % i) for i in range(1, n_items)]
            jobs.append(dict(prog=P, scheduler=('default', 'legacy')[k % 2], policy=pol, seed=k + 1, label='itemsub%d' % n_items, ops=ops, max_steps=900))
    return ec.run_property(PID, tier, jobs,
                           'generated programs (plain, with-items, join, sub-workflow and retry tasks) run to rest, then an ERROR task is rerun '
                           '(reset on/off), skipped, or rerun twice, with a new outcome for the new attempt, and run to rest again; non-trivial = '
                           'distinct runs with an accepted rerun/skip; fixed histories: reruns inside all item sub-workflows of a with-items task issued back to back',
                           _nontrivial, prescribed=True)


def replay(path):
    return ec.replay(PID, path)
