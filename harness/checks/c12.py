"""C12 - rerun or skip of a failed task resumes the run correctly."""
import random

from harness import common
from harness.checks import engine_common as ec

PID = 'C12'


def _nontrivial(t):
    return any(s['ev']['kind'] == 'op' and s['ev']['what'] == 'rerun' and s['ev']['exc'] == 'none' for s in t['steps']) or None


def run(tier):
    rnd = random.Random(common.seed() + 12)
    n = 160 if tier == 'quick' else 3000
    jobs = []
    for k, j in enumerate(ec.random_jobs(rnd, n, label='rerun', gen_kw=dict(partial_joins=False, p_err=0.45, p_items=0.2, p_sub=0.15, p_retry=0.1, p_cmd=0.03))):
        P = j['prog']
        # second attempt outcome: succeed / fail again
        for tag, oc in list(P.oracle.items()):
            if isinstance(oc, list) and oc and oc[-1] == 'err':
                P.oracle[tag] = oc + [rnd.choice(['ok', 'ok', 'err'])]
            elif isinstance(oc, dict):
                P.oracle[tag] = {i: (v + [rnd.choice(['ok', 'ok', 'err'])] if v[-1] == 'err' else v) for i, v in oc.items()}
        kind = k % 4
        if kind == 0:
            j['ops'] = [dict(at=300, op='rerun', reset=True, pick=k)]
        elif kind == 1:
            j['ops'] = [dict(at=300, op='rerun', reset=False, pick=k)]
        elif kind == 2:
            j['ops'] = [dict(at=300, op='skip', pick=k)]
        else:
            j['ops'] = [dict(at=300, op='rerun', reset=True, pick=k), dict(at=600, op='rerun', reset=bool(k % 8 == 3), pick=k + 1)]
        j['max_steps'] = 900
        jobs.append(j)
    return ec.run_property(PID, tier, jobs,
                           'generated programs (plain, with-items, join, sub-workflow and retry tasks) run to rest, then an ERROR task is rerun '
                           '(reset on/off), skipped, or rerun twice, with a new outcome for the new attempt, and run to rest again; non-trivial = '
                           'distinct runs with an accepted rerun/skip',
                           _nontrivial)


def replay(path):
    return ec.replay(PID, path)
