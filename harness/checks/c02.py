"""C02 - the result of a run does not depend on event order, timing or engine caches."""
import json
import os
import random
import re
import shutil
import time

from harness import common, engcheck, engrun, gen
from harness.checks import engine_common as ec

PID = 'C02'


def final_outcome(t):
    """Schedule-independent part of the final observation (no ids, no bookkeeping flags)."""
    o = t['steps'][-1]['obs']

    def out_of(w):
        # the diagnostic text under output.result of a failed / cancelled execution (which lists the failed tasks as
        # they were known when each join was evaluated) is not part of the evaluated output
        if w['state'] in ('ERROR', 'CANCELLED'):
            try:
                d_ = json.loads(w['output'])
                if isinstance(d_, dict):
                    d_.pop('result', None)
                    return json.dumps(d_, sort_keys=True)
            except ValueError:
                pass
        return w['output']

    return dict(quiet=bool(o['pend']['quiet']),
                wf=[[w['sid'], w['state'], out_of(w)] for w in sorted(o['wf'], key=lambda x: x['sid'])],
                tk=[[x['sid'], x['state'], x['published'], sorted(x['next'])] for x in o['tk']],
                ax=[[a['sid'], a['state'], a['out'] if a['state'] == 'SUCCESS' else ''] for a in o['ax'] if a['accepted']])


def run(tier):
    t0 = time.time()
    rnd = random.Random(common.seed() + 2)
    verdict = common.Verdict(PID)
    d = common.builddir('c02', clean=True)
    nprog = 45 if tier == 'quick' else 600
    K = 6 if tier == 'quick' else 16
    progs = []
    for nm, P in gen.catalogue():
        if not any(t.get('join', 0) not in (0, -1) for t in P.tasks.values()) and 'cmd' not in nm:
            progs.append((nm, P))
    for k in range(nprog):
        seed = rnd.randrange(1 << 30)
        P = gen.gen_direct(random.Random(seed), partial_joins=False, p_join=1.0, p_cmd=0.0, allow_cmd=False,
                           p_sub=0.15, p_items=0.15, p_publish=0.5)
        progs.append(('det%d' % k, P))
    # data flow: a variable (scalar, nested, two levels deep) published before a fork and re-published inside ONE branch - no
    # conflicting publishes - merged at a join and in the output; every (scheduler, policy, eviction) variant
    from harness import dfgen
    for nm, P in dfgen.catalogue():
        if tier == 'thorough' or nm.endswith('_tails') or 'deep' in nm:
            progs.append((nm, P))
    jobs = []
    variants = [(s, p, e) for s in ('default', 'legacy') for p in engrun.POLICIES[1:] for e in (False, True)]
    for nm, P in progs:
        rnd.shuffle(variants)
        # the fixed shapes are small: they get every (scheduler, policy, eviction) variant
        for (s, p, e) in (variants if not nm.startswith('det') else variants[:K]):
            jobs.append(dict(prog=P, scheduler=s, policy=p, seed=rnd.randrange(1 << 30), label=nm, evict=e))
    traces = engcheck.run_jobs(jobs)
    errs = [t for t in traces if 'error' in t]
    if errs:
        raise common.MachineryError('%d runs failed inside the harness, first:\n%s' % (len(errs), errs[0]['error']))
    by = {}
    for t in traces:
        by.setdefault(t['meta']['label'], []).append(t)
    recs = []
    labels = []
    for nm, ts in by.items():
        labels.append(nm)
        recs.append({'finals': [final_outcome(t) for t in ts]})
    common.put_spec(d, *[os.path.join('engine', f_) for f_ in ('EngineProps.tla', 'EngineDetTrace.tla')])
    tf = os.path.join(d, 'det.ndjson')
    with open(tf, 'w') as fh:
        for r_ in recs:
            fh.write(json.dumps(r_) + '\n')
    with open(os.path.join(d, 'EngineDetTrace.cfg'), 'w') as fh:
        fh.write('SPECIFICATION TSpec\nCONSTRAINT Report\nCHECK_DEADLOCK FALSE\n')
    r = common.run_tlc(os.path.join(d, 'EngineDetTrace.tla'), os.path.join(d, 'EngineDetTrace.cfg'), workers=1, env={'TRACE_FILE': tf},
                       timeout=3000, heap='3g')
    done = set(int(m.group(1)) for m in re.finditer(r'<<"done", (\d+), (\d+)>>', r.out))
    if len(done) != len(recs):
        raise common.MachineryError('EngineDetTrace judged %d of %d programs\n%s' % (len(done), len(recs), r.out[-2500:]))
    # model level: confluence of MistralEngine on the deterministic catalogue shapes (one terminal projection)
    model_info = []
    states, trans = r.distinct, r.generated
    from harness import engmodel
    for nm, P in progs[:8]:
        if nm.startswith('det'):
            break
        rm = engmodel.model_check(d, nm + '_confl', P.abstract(), confluence=True)
        states += rm.distinct
        trans += rm.generated
        model_info.append({'config': 'MistralEngine/%s/confluence' % nm, 'distinct_states': rm.distinct, 'ok': rm.ok})
        if not rm.finished or not rm.ok:
            raise common.MachineryError('MistralEngine is not confluent on %s (spec defect or unmodelled defect):\n%s' % (nm, rm.out[-3000:]))
    for m in re.finditer(r'<<"viol", (\d+), (\d+), "(\w+)">>', r.out):
        pi, k, clause = int(m.group(1)) - 1, int(m.group(2)) - 1, m.group(3)
        nm = labels[pi]
        ts = by[nm]
        a, b = ts[0], ts[k]
        fa, fb = final_outcome(a), final_outcome(b)
        diff = [x for x in fb['tk'] if x not in fa['tk']][:3] + [x for x in fb['wf'] if x not in fa['wf']][:2]
        sig = {'clause': clause, 'shape': engcheck.shape_sig(b['prog'])}
        sig.update(ec.known_sig(b, len(b['steps']), clause))
        verdict.violation(sig, '%s: program %s run %d [%s %s evict=%s seed=%s] differs from run 1 [%s %s evict=%s]: %s'
                          % (clause, nm, k + 1, b['meta']['scheduler'], b['meta']['policy'], b['meta']['evict'], b['meta']['seed'],
                             a['meta']['scheduler'], a['meta']['policy'], a['meta']['evict'], json.dumps(diff)[:600]),
                          {'yaml': b['meta']['yaml'], 'run_a': a['meta'] and {k2: v for k2, v in a['meta'].items() if k2 != 'yaml'},
                           'run_b': {k2: v for k2, v in b['meta'].items() if k2 != 'yaml'}, 'final_a': fa, 'final_b': fb})
    rc = verdict.finish()
    common.write_evidence(PID, tier, 'model_checking', {
        'states': max(1, states), 'transitions': max(1, trans), 'traces_validated_against_impl': len(traces),
        'evaluations': len(traces), 'distinct_nontrivial': len([1 for nm, ts in by.items() if len(ts[0]['steps'][-1]['obs']['tk']) >= 3]),
        'rule': '%d programs of the deterministic class x %d runs each - the fixed catalogue shapes x all 28 variants - (both schedulers, 7 schedule policies, specification-cache eviction '
                'on/off between steps); non-trivial = programs with at least 3 task executions' % (len(by), K),
        'programs': len(by), 'runs_per_program': K, 'model_runs': model_info,
        'samples': [{'yaml': by[labels[0]][0]['meta']['yaml'], 'final': final_outcome(by[labels[0]][0])}],
        'known_findings_hit': verdict.known_hits,
    }, time.time() - t0, len(verdict.violations), ec.LEVEL_ASSUME)
    print('C02 %s: %d programs x %d schedules = %d real runs compared by TLC, %d violations, known %s, %.1fs'
          % (tier, len(by), K, len(traces), len(verdict.violations), verdict.known_hits, time.time() - t0))
    return rc


def replay(path):
    return ec.replay(PID, path)
