"""C06 - duplicate or redelivered messages have the effect of a single delivery (engine side:
EngineProps DupNoEffect / NoDoubleDispatch / ResultOnce on real runs with duplicates injected;
executor side: spec/executor/Executor.tla with every path replayed into the real ExecutorServer)."""
import random

from harness import common
from harness.checks import engine_common as ec

PID = 'C06'


def _nontrivial(t):
    n = sum(1 for s in t['steps'] if s['ev']['dup'])
    return n or None


def run(tier):
    rnd = random.Random(common.seed() + 6)
    n = 120 if tier == 'quick' else 2500
    jobs = ec.random_jobs(rnd, n, label='dup', dups=2, gen_kw=dict(partial_joins=False, p_sub=0.25, p_items=0.1))
    jobs += ec.catalogue_jobs(policies=('random', 'results_first'), seeds=(1,), dups=2)
    # a task whose sub-workflow is PAUSED directly (the parent task and its workflow become PAUSED): the start request of
    # that task is redelivered while it is PAUSED, then the sub-workflow is resumed
    from harness import gen, engrun
    for n_items in (None,):
        for at in range(4, 16):
            P = gen.Program()
            P.order = ['t0', 't1']
            P.tasks = {'t0': {'kind': 'workflow', 'workflow': 'sub1', 'succ': [{'to': 't1'}], 'err': [], 'comp': []},
                       't1': {'kind': 'action', 'succ': [], 'err': [], 'comp': []}}
            S = gen.Program()
            S.name = 'sub1'
            S.order = ['sub1x0', 'sub1x1']
            S.tasks = {'sub1x0': {'kind': 'action', 'succ': [{'to': 'sub1x1'}], 'err': [], 'comp': []},
                       'sub1x1': {'kind': 'action', 'succ': [], 'err': [], 'comp': []}}
            P.subs['sub1'] = S
            P.flags = {'sub': True}
            ops = [dict(at=at, op='pause', target='r/t0#0@0.0'), dict(rel=at % 3, op='dup', method='start_task', task='r/t0#0'),
                   dict(rel=1, op='dup', method='start_task', task='r/t0#0'), dict(at=10 ** 6, op='resume', target='r/t0#0@0.0')]
            jobs.append(dict(prog=P, scheduler=('default', 'legacy')[at % 2], policy=engrun.POLICIES[1:][at % 7], seed=at, label='dup_paused', ops=ops))
    # the result of a sub-workflow redelivered to its parent - while the parent is still running another branch, and later
    for k, pol in enumerate(engrun.POLICIES[1:] * 2):
        P = gen.sub_beside_long_branch(length=2 + k % 3)
        P.oracle = dict(P.oracle, sub1x0=['ok'] if k % 3 else ['err'])
        ops = [dict(at=a, op='dup', method='on_action_complete', wf_action=True) for a in range(8 + k % 4, 60, 5)]
        jobs.append(dict(prog=P, scheduler=('default', 'legacy')[k % 2], policy=pol, seed=k + 1, label='dup_sub_result', ops=ops))
    # a task is rerun by the operator; its start requests (the original one and the one sent by the rerun) are redelivered while
    # the new attempt is running
    fs = dict(gen.failing_shapes())
    for nm in ('diamond_j-1_aerr', 'linear_handled', 'rev_diamond_err'):
        P = fs[nm]
        tname = [t for t, oc in P.oracle.items() if isinstance(oc, list) and 'err' in oc][0]
        for k in range(8):
            ops = [dict(at=300, op='rerun', reset=bool(k % 2), pick=0), dict(rel=2 + k % 4, op='dup', method='start_task', task='r/%s#0' % tname, pick=k // 4)]
            jobs.append(dict(prog=P, scheduler=('default', 'legacy')[k % 2], policy=engrun.POLICIES[1:][k % 7], seed=k + 1, label='dup_rerun_start_' + nm, ops=ops, max_steps=900))
    # an action reports "cancelled" (task and execution CANCELLED); the task is rerun; the old result is redelivered while the new
    # attempt is running
    for k in range(8):
        P = gen.Program()
        P.order = ['a', 'b']
        P.tasks = {'a': {'kind': 'action', 'succ': [{'to': 'b'}], 'err': [], 'comp': []}, 'b': {'kind': 'action', 'succ': [], 'err': [], 'comp': []}}
        P.oracle = {'a': ['cancel', 'ok'], 'b': ['ok']}
        ops = [dict(at=300, op='rerun', reset=bool(k % 2), cancelled=True, pick=0),
               dict(rel=1 + k % 4, op='dup', method='on_action_complete', task=None, pick=0)]
        jobs.append(dict(prog=P, scheduler=('default', 'legacy')[k % 2], policy=engrun.POLICIES[1:][k % 7], seed=k + 1, label='dup_cancel_result_after_rerun', ops=ops, max_steps=900))
    from harness.checks import c06_executor
    return ec.run_property(PID, tier, jobs,
                           'generated programs with up to 2 messages (action results, start-task requests, start requests, run-action '
                           'requests) re-delivered at random later points under 8 schedule policies and both schedulers; fixed histories: the start request of a PAUSED task redelivered, the result of a sub-workflow redelivered to its parent at several later points; non-trivial = '
                           'distinct runs in which at least one duplicate was actually delivered',
                           _nontrivial, strict=True,
                           model_behaviours=lambda d: ec.model_jobs(d, tier, sims=[(None, 2 if tier == 'quick' else 8, 0, 2, ())]),
                           model_runs=lambda d: c06_executor.model_and_replay(d, tier) + ec.catalogue_model_runs(d, tier, dups=2, tag='_d2'))


def replay(path):
    return ec.replay(PID, path)
