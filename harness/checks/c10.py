"""C10 - pause creates no new tasks; resume continues to the same result."""
import random

from harness import common
from harness.checks import engine_common as ec

PID = 'C10'


def _nontrivial(t):
    paused = any(w['state'] == 'PAUSED' for s in t['steps'] for w in s['obs']['wf'])
    return paused or None


def run(tier):
    rnd = random.Random(common.seed() + 10)
    n = 120 if tier == 'quick' else 2500
    jobs = []
    for k, j in enumerate(ec.random_jobs(rnd, n, label='pause', gen_kw=dict(p_cmd=0.08, cmds=['fail', 'succeed', 'noop', 'pause', 'pause']))):
        at = rnd.randint(1, 30)
        j['ops'] = [dict(at=at, op='pause'), dict(at=at + rnd.randint(1, 15), op='resume')]
        jobs.append(j)
    for j in ec.catalogue_jobs(policies=('random', 'results_first', 'starve_ptq'), seeds=(1,)):
        for at in (2, 6, 10, 14):
            jj = dict(j)
            jj['ops'] = [dict(at=at, op='pause'), dict(at=at + 4, op='resume')]
            jobs.append(jj)
    # programs with sub-workflows paused TWICE: a task created before the first pause may start its sub-workflow while the parent is
    # PAUSED; the second pause has to reach it
    for k, j in enumerate(ec.random_jobs(rnd, n // 3, label='pause2', gen_kw=dict(partial_joins=False, p_sub=0.5, p_cmd=0.0, p_policy=0.15))):
        at = rnd.randint(1, 12)
        j['ops'] = [dict(at=at, op='pause'), dict(at=at + rnd.randint(2, 10), op='pause'), dict(at=10 ** 6, op='resume')]
        jobs.append(j)
    return ec.run_property(PID, tier, jobs,
                           'generated programs paused at a random step and resumed a random number of steps later (catalogue shapes: pause at '
                           'steps 2/6/10/14, resume 4 steps later); programs with sub-workflows paused twice, resumed at rest; non-trivial = distinct runs in which the execution was observed PAUSED',
                           _nontrivial, prescribed=True, strict=True,
                           model_behaviours=lambda d: ec.model_jobs(
                               d, tier, sims=[(None, 2 if tier == 'quick' else 8, 2, 0, ('pause', 'resume'))],
                               probes=[('resume_join_never_refreshed', 'diamond_j-1_ok', 'Quiet /\\ wf = "RUNNING" /\\ KF_ResumeJoin', 2, 0, ('pause', 'resume')),
                                       ('task_started_twice_after_resume', 'chain2', '\\E x \\in Names : ~IsJoin(x) /\\ Len(ax[x]) > 1', 2, 0, ('pause', 'resume')),
                                       ('resume_with_only_noop', 'cmd_noop', 'Quiet /\\ wf = "RUNNING" /\\ KF_NoopResume', 2, 0, ('pause', 'resume'))]),
                           model_runs=lambda d: ec.catalogue_model_runs(d, tier, ops=1, kinds=('pause', 'resume'), tag='_p1') +
                           ec.catalogue_model_runs(d, tier, ops=2, kinds=('pause', 'resume'), tag='_pr2',
                                                   only=('chain2', 'linear_handled', 'cmd_fail_first') + (('pair_join', 'diamond_j-1_ok') if tier == 'thorough' else ())))


def replay(path):
    return ec.replay(PID, path)
