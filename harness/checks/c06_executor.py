"""Executor half of C06: model check spec/executor/Executor.tla, then run every case of the same
product through the real ExecutorServer.run_action and let TLC validate the recorded events."""
import itertools
import json
import os
import re
import shutil

from harness import common

PID = 'C06'


def _run_cases():
    from harness import mdb
    mdb.boot()
    from mistral import exceptions as mexc
    from mistral.executors import default_executor, executor_server
    from mistral.rpc import clients as rpc_clients
    from mistral import context as auth_context
    from mistral_lib import actions as ml_actions
    recs = []

    class Act(ml_actions.Action):
        def __init__(self, outcome, sync, log):
            self.outcome, self.sync, self.log = outcome, sync, log

        def is_sync(self):
            return self.sync

        def run(self, ctx):
            self.log.append('run')
            if self.outcome == 'raises':
                raise RuntimeError('boom')
            if self.outcome == 'error_result':
                return ml_actions.Result(error='bad')
            return ml_actions.Result(data='ok')

        def test(self, ctx):
            return None

    class Client(object):
        def __init__(self, log, faults):
            self.log, self.faults = log, list(faults)

        def on_action_complete(self, action_ex_id, result, wf_action=False, async_=False):
            f = self.faults.pop(0) if self.faults else 'ok'
            kind = 'error' if result.is_error() else 'data'
            if f == 'ok':
                self.log.append('send_ok:' + kind)
                return None
            self.log.append('send_fail:' + kind)
            if f == 'mistral_exc':
                raise mexc.MistralException('cannot serialize')
            raise RuntimeError('bus down')

    saved = rpc_clients.get_engine_client
    try:
        for red, safe, sync, outcome, f1, f2 in itertools.product([False, True], [False, True], [False, True],
                                                                  ['data', 'error_result', 'raises'],
                                                                  ['ok', 'mistral_exc', 'other_exc'], ['ok', 'mistral_exc', 'other_exc']):
            log = []
            client = Client(log, [f1, f2])
            rpc_clients.get_engine_client = lambda c=client: c
            ex = default_executor.DefaultExecutor()
            srv = executor_server.ExecutorServer(ex, setup_profiler=False)
            ctx = auth_context.MistralContext.from_dict({'user': 'u', 'project_id': 'p', 'redelivered': red})
            err = 'none'
            auth_context.set_ctx(ctx)     # as RpcContextSerializer.deserialize_context does on delivery
            try:
                srv.run_action(ctx, Act(outcome, sync, log), 'ax-1', safe, {}, None)
            except Exception as e:
                err = type(e).__name__
            recs.append(dict(redelivered=red, safe=safe, sync=sync, outcome=outcome, fault1=f1, fault2=f2, events=list(log), exc=err))
    finally:
        rpc_clients.get_engine_client = saved
        auth_context.set_ctx(None)
    return recs


def model_and_replay(d, tier):
    """Returns [(name, TlcResult)]; raises on machinery failure; executor violations are reported through
    a dedicated Verdict inside (they belong to C06)."""
    common.put_spec(d, *[os.path.join('executor', f_) for f_ in ('Executor.tla', 'ExecutorTrace.tla')])
    consts = 'CONSTANTS\n Outcomes = {"data", "error_result", "raises"}\n SendFaults = {"ok", "mistral_exc", "other_exc"}\n'
    with open(os.path.join(d, 'Executor.cfg'), 'w') as fh:
        fh.write('SPECIFICATION Spec\n' + consts + 'INVARIANT RunIffAllowed\nINVARIANT AtMostOneResult\nINVARIANT RefusedOneError\n'
                 'INVARIANT RunsAtMostOnce\nPROPERTY Finishes\nCHECK_DEADLOCK FALSE\n')
    r = common.run_tlc(os.path.join(d, 'Executor.tla'), os.path.join(d, 'Executor.cfg'), timeout=600)
    recs = _run_cases()
    tf = os.path.join(d, 'executor_traces.ndjson')
    with open(tf, 'w') as fh:
        for x in recs:
            fh.write(json.dumps(x) + '\n')
    with open(os.path.join(d, 'ExecutorTrace.cfg'), 'w') as fh:
        fh.write('SPECIFICATION TSpec\n' + consts + 'CONSTRAINT Report\nCHECK_DEADLOCK FALSE\n')
    rt = common.run_tlc(os.path.join(d, 'ExecutorTrace.tla'), os.path.join(d, 'ExecutorTrace.cfg'), workers=1,
                        env={'TRACE_FILE': tf}, timeout=600)
    acc = set(int(m.group(1)) for m in re.finditer(r'<<"accepted", (\d+)>>', rt.out))
    cases = {int(m.group(1)): [x == 'TRUE' for x in m.groups()[1:]]
             for m in re.finditer(r'<<"case", (\d+), (TRUE|FALSE), (TRUE|FALSE), (TRUE|FALSE), (TRUE|FALSE)>>', rt.out)}
    if len(cases) != len(recs):
        raise common.MachineryError('ExecutorTrace judged %d of %d requests\n%s' % (len(cases), len(recs), rt.out[-2000:]))
    EXECUTOR_RESULT['requests'] = len(recs)
    EXECUTOR_RESULT['accepted'] = len(acc)
    EXECUTOR_RESULT['violations'] = []
    names = ['RunIffAllowed', 'AtMostOneResult', 'RunsAtMostOnce', 'RefusedOneError']
    for i, x in enumerate(recs):
        for nm, okv in zip(names, cases[i + 1]):
            if not okv:
                EXECUTOR_RESULT['violations'].append((nm, x))
    EXECUTOR_RESULT['divergent'] = [recs[i] for i in range(len(recs)) if (i + 1) not in acc and all(cases[i + 1])]
    return [('Executor', r), ('ExecutorTrace', rt)]


EXECUTOR_RESULT = {}
