"""C15 - tenant isolation.  Spec: spec/tenancy/Tenancy.tla (+ TenancyTrace.tla).

TLC enumerates resource type x owner x scope x membership status x actor (project, admin) x
operation and checks the policy invariants; every combination is executed against the real db api
under the actor's authentication context (auth enabled) on real rows; every recorded outcome is
judged by TLC: found => CanSee, changed/deleted => CanChange, new rows belong to the caller.
"""
import itertools
import json
import os
import re
import shutil
import time

from harness import common

PID = 'C15'

TYPES = ['workflow_definition', 'workbook', 'action_definition', 'workflow_execution', 'task_execution', 'action_execution',
         'environment', 'cron_trigger', 'event_trigger', 'code_source', 'dynamic_action_definition']
OPS = ['get', 'get_by_name', 'load', 'list', 'update', 'delete', 'create_as_other']
WF_TEXT = "version: '2.0'\nwfx:\n  tasks:\n    t:\n      action: std.noop\n"


def _adapters(db_api):
    """type -> dict(create(values), ident(row, by), get(ident), list(), update(ident), delete(ident), table, touch field)."""
    def vals_common(name, scope):
        return {'name': name, 'scope': scope}

    A = {}
    A['workflow_definition'] = dict(
        create=lambda n, s, extra: db_api.create_workflow_definition(dict(vals_common(n, s), definition=WF_TEXT, spec={}, namespace='', **extra)),
        get=lambda row: db_api.get_workflow_definition(row['id']), get_by_name=lambda row: db_api.get_workflow_definition(row['name']),
        list=lambda: db_api.get_workflow_definitions(), update=lambda row: db_api.update_workflow_definition(row['id'], {'definition': WF_TEXT + '#x', 'scope': row['scope']}),
        delete=lambda row: db_api.delete_workflow_definition(row['id']), table='workflow_definitions_v2', field='definition')
    A['workbook'] = dict(
        create=lambda n, s, extra: db_api.create_workbook(dict(vals_common(n, s), definition='wb', spec={}, tags=[], namespace='', **extra)),
        get=lambda row: db_api.get_workbook(row['name'], ''), get_by_name=lambda row: db_api.load_workbook(row['name'], ''),
        list=lambda: db_api.get_workbooks(), update=lambda row: db_api.update_workbook(row['name'], {'definition': 'wb#x'}),
        delete=lambda row: db_api.delete_workbook(row['name']), table='workbooks_v2', field='definition')
    A['action_definition'] = dict(
        create=lambda n, s, extra: db_api.create_action_definition(dict(vals_common(n, s), definition='ad', spec={}, is_system=False, namespace='', **extra)),
        get=lambda row: db_api.get_action_definition(row['id']), get_by_name=lambda row: db_api.get_action_definition(row['name']),
        list=lambda: db_api.get_action_definitions(), update=lambda row: db_api.update_action_definition(row['id'], {'definition': 'ad#x'}),
        delete=lambda row: db_api.delete_action_definition(row['id']), table='action_definitions_v2', field='definition')
    A['workflow_execution'] = dict(
        create=lambda n, s, extra: db_api.create_workflow_execution(dict(vals_common(n, s), workflow_name='w', state='RUNNING', description='d', **extra)),
        get=lambda row: db_api.get_workflow_execution(row['id']), get_by_name=None,
        list=lambda: db_api.get_workflow_executions(), update=lambda row: db_api.update_workflow_execution(row['id'], {'description': 'd#x'}),
        delete=lambda row: db_api.delete_workflow_execution(row['id']), table='workflow_executions_v2', field='description')
    A['task_execution'] = dict(
        create=lambda n, s, extra: db_api.create_task_execution(dict(vals_common(n, s), state='RUNNING', state_info='d', **extra)),
        get=lambda row: db_api.get_task_execution(row['id']), get_by_name=None,
        list=lambda: db_api.get_task_executions(), update=lambda row: db_api.update_task_execution(row['id'], {'state_info': 'd#x'}),
        delete=lambda row: db_api.delete_task_execution(row['id']), table='task_executions_v2', field='state_info')
    A['action_execution'] = dict(
        create=lambda n, s, extra: db_api.create_action_execution(dict(vals_common(n, s), state='RUNNING', state_info='d', **extra)),
        get=lambda row: db_api.get_action_execution(row['id']), get_by_name=None,
        list=lambda: db_api.get_action_executions(), update=lambda row: db_api.update_action_execution(row['id'], {'state_info': 'd#x'}),
        delete=lambda row: db_api.delete_action_execution(row['id']), table='action_executions_v2', field='state_info')
    A['environment'] = dict(
        create=lambda n, s, extra: db_api.create_environment(dict(vals_common(n, s), description='d', variables={'k': 1}, **extra)),
        get=lambda row: db_api.get_environment(row['name']), get_by_name=lambda row: db_api.get_environment(row['name']),
        list=lambda: db_api.get_environments(), update=lambda row: db_api.update_environment(row['name'], {'description': 'd#x'}),
        delete=lambda row: db_api.delete_environment(row['name']), table='environments_v2', field='description')
    A['cron_trigger'] = dict(
        create=lambda n, s, extra: db_api.create_cron_trigger(dict(vals_common(n, s), pattern='* * * * *', workflow_name='w',
                                                                  next_execution_time=__import__('datetime').datetime(2031, 1, 1),
                                                                  workflow_input={}, workflow_params={'p': n}, **extra)),
        get=lambda row: db_api.get_cron_trigger_by_id(row['id']), get_by_name=lambda row: db_api.get_cron_trigger(row['name']),
        list=lambda: db_api.get_cron_triggers(), update=lambda row: db_api.update_cron_trigger(row['name'], {'pattern': '*/5 * * * *'}),
        delete=lambda row: db_api.delete_cron_trigger(row['name']), table='cron_triggers_v2', field='pattern')
    A['event_trigger'] = dict(
        create=lambda n, s, extra: db_api.create_event_trigger(dict(vals_common(n, s), exchange='e', topic='t', event='ev' + n, workflow_input={},
                                                                    workflow_params={}, **extra)),
        get=lambda row: db_api.get_event_trigger(row['id']), get_by_name=None,
        list=lambda: db_api.get_event_triggers(), update=lambda row: db_api.update_event_trigger(row['id'], {'topic': 't#x'}),
        delete=lambda row: db_api.delete_event_trigger(row['id']), table='event_triggers_v2', field='topic')
    A['code_source'] = dict(
        create=lambda n, s, extra: db_api.create_code_source(dict(vals_common(n, s), content='c', version=1, namespace='', **extra)),
        get=lambda row: db_api.get_code_source(row['id']), get_by_name=lambda row: db_api.get_code_source(row['name']),
        list=lambda: db_api.get_code_sources(), update=lambda row: db_api.update_code_source(row['id'], {'content': 'c#x'}),
        delete=lambda row: db_api.delete_code_source(row['id']), table='code_sources', field='content')
    A['dynamic_action_definition'] = dict(
        create=lambda n, s, extra: db_api.create_dynamic_action_definition(dict(vals_common(n, s), class_name='C', namespace='', **extra)),
        get=lambda row: db_api.get_dynamic_action_definition(row['id']), get_by_name=lambda row: db_api.get_dynamic_action_definition(row['name']),
        list=lambda: db_api.get_dynamic_action_definitions(), update=lambda row: db_api.update_dynamic_action_definition(row['id'], {'class_name': 'C#x'}),
        delete=lambda row: db_api.delete_dynamic_action_definition(row['id']), table='dynamic_action_definitions', field='class_name')
    # the load_* functions (None instead of an exception when nothing is found): used by the engine AND by REST controllers
    A['workflow_definition']['load'] = lambda row: db_api.load_workflow_definition(row['name'], '')
    A['workbook']['load'] = lambda row: db_api.load_workbook(row['name'], '')
    A['action_definition']['load'] = lambda row: db_api.load_action_definition(row['name'])
    A['workflow_execution']['load'] = lambda row: db_api.load_workflow_execution(row['id'])
    A['task_execution']['load'] = lambda row: db_api.load_task_execution(row['id'])
    A['action_execution']['load'] = lambda row: db_api.load_action_execution(row['id'])
    A['environment']['load'] = lambda row: db_api.load_environment(row['name'])
    A['cron_trigger']['load'] = lambda row: db_api.load_cron_trigger(row['name'])
    A['event_trigger']['load'] = lambda row: db_api.load_event_trigger(row['id'])
    A['code_source']['load'] = lambda row: db_api.load_code_source(row['id'])
    A['dynamic_action_definition']['load'] = lambda row: db_api.load_dynamic_action_definition(row['id'])
    return A


def run_cases():
    from harness import mdb
    mdb.boot(auth_enable=True)
    from mistral.db.v2 import api as db_api
    from mistral import exceptions as mexc
    A = _adapters(db_api)
    recs = []
    problems = []
    proj = {'A': 'proj-A', 'B': 'proj-B', 'C': 'proj-C'}
    for t in TYPES:
        ad = A[t]
        for owner, scope, member, mholder, actor, admin, op in itertools.product(['A', 'B'], ['private', 'public'],
                                                                                 ['none', 'pending', 'accepted', 'rejected'],
                                                                                 ['none', 'actor', 'third'],
                                                                                 ['A', 'B'], [False, True], OPS):
            if t != 'workflow_definition' and member != 'none':
                continue
            if (member == 'none') != (mholder == 'none'):
                continue
            if member != 'none' and actor == owner:
                continue
            # the project that holds the membership: the acting project, or a third project (the actor has none)
            holder = proj[actor] if mholder == 'actor' else proj['C']
            if op == 'get_by_name' and ad['get_by_name'] is None:
                continue
            mdb.wipe()
            name = 'res1'
            # the owner creates the resource (and a same-named private decoy in the other project: name collisions)
            try:
                mdb.set_ctx(mdb.ctx(proj[owner]))
                extra = {}
                if t == 'code_source':
                    extra = {}
                if t == 'dynamic_action_definition':
                    cs = db_api.create_code_source({'name': 'cs', 'content': 'c', 'version': 1, 'scope': scope, 'namespace': ''})
                    extra = {'code_source_id': cs.id, 'code_source_name': 'cs'}
                if t in ('cron_trigger', 'event_trigger'):
                    wfd = db_api.create_workflow_definition({'name': 'w', 'definition': WF_TEXT, 'spec': {}, 'scope': scope})
                    extra = {'workflow_id': wfd.id}
                with db_api.transaction():
                    row = ad['create'](name, scope, extra)
                    rid = row.id
                rowd = {'id': rid, 'name': name, 'scope': scope}
                if member != 'none':
                    db_api.create_resource_member({'resource_id': rid, 'resource_type': 'workflow', 'member_id': holder})
                    if member != 'pending':
                        mdb.set_ctx(mdb.ctx(holder))
                        db_api.update_resource_member(rid, 'workflow', holder, {'status': member})
            except Exception as e:
                problems.append('setup %s %s %s %s: %r' % (t, owner, scope, member, e))
                mdb.set_ctx(None)
                continue
            before = mdb.raw_rows('select %s from %s where id = :i' % (ad['field'], ad['table']), {'i': rid})
            mdb.set_ctx(mdb.ctx(proj[actor], admin=admin))
            outcome = 'none'
            try:
                with db_api.transaction():
                    if op in ('get', 'get_by_name', 'load'):
                        r = ad[op](rowd)
                        outcome = 'found' if (r is not None and r.id == rid) else 'notfound'
                    elif op == 'list':
                        outcome = 'found' if any(x.id == rid for x in ad['list']()) else 'notfound'
                    elif op == 'update':
                        ad['update'](rowd)
                        outcome = 'call_ok'
                    elif op == 'delete':
                        ad['delete'](rowd)
                        outcome = 'call_ok'
                    elif op == 'create_as_other':
                        other = proj['B' if actor == 'A' else 'A']
                        ex2 = dict(extra)
                        r = ad['create']('res2', 'private', dict(ex2, project_id=other))
                        pid = mdb.raw_rows('select project_id from %s where name = :n' % ad['table'], {'n': 'res2'}) if False else None
                        outcome = 'created:%s' % r.id
            except (mexc.DBEntityNotFoundError,) as e:
                outcome = 'notfound'
            except (mexc.NotAllowedException,) as e:
                outcome = 'notallowed'
            except mexc.MistralException as e:
                outcome = 'error:' + type(e).__name__
            except Exception as e:
                outcome = 'error:' + type(e).__name__
            finally:
                mdb.set_ctx(None)
            after = mdb.raw_rows('select %s from %s where id = :i' % (ad['field'], ad['table']), {'i': rid})
            exists = bool(after)
            changed = bool(after) and after != before
            if op == 'create_as_other':
                if outcome.startswith('created:'):
                    pr = mdb.raw_rows('select project_id from %s where id = :i' % ad['table'], {'i': outcome.split(':', 1)[1]})
                    outcome = 'owned_by_caller' if pr and pr[0][0] == proj[actor] else 'owned_by_other:%s' % (pr[0][0] if pr else '?')
            elif op == 'update' and outcome == 'call_ok':
                outcome = 'changed' if changed else 'unchanged'
            elif op == 'delete' and outcome == 'call_ok':
                outcome = 'deleted' if not exists else 'unchanged'
            recs.append(dict(type=t, owner=owner, scope=scope, member=member, mholder=mholder, actor=actor, admin=admin, op=op, outcome=outcome,
                             changed=changed, exists=exists))
    return recs, problems


def run(tier):
    t0 = time.time()
    verdict = common.Verdict(PID)
    d = common.builddir('c15', clean=True)
    common.put_spec(d, *[os.path.join('tenancy', f_) for f_ in ('Tenancy.tla', 'TenancyTrace.tla')])
    consts = ('CONSTANTS\n Types = {%s}\n Shareable = {"workflow_definition"}\n Ops = {%s}\n'
              % (', '.join('"%s"' % t for t in TYPES), ', '.join('"%s"' % o for o in OPS)))
    with open(os.path.join(d, 'Tenancy.cfg'), 'w') as fh:
        fh.write('SPECIFICATION Spec\n' + consts + 'INVARIANT NoForeignRead\nINVARIANT NoForeignWrite\nINVARIANT PrivateInvisible\n'
                 'PROPERTY Decided\nCHECK_DEADLOCK FALSE\n')
    r = common.run_tlc(os.path.join(d, 'Tenancy.tla'), os.path.join(d, 'Tenancy.cfg'), timeout=900)
    if not r.finished or not r.ok:
        raise common.MachineryError('Tenancy model violates its own invariants:\n' + r.out[-2500:])
    recs, problems = run_cases()
    if problems:
        raise common.MachineryError('could not materialise %d cases, first: %s' % (len(problems), problems[0]))
    tf = os.path.join(d, 'tenancy.ndjson')
    with open(tf, 'w') as fh:
        for x in recs:
            fh.write(json.dumps(x) + '\n')
    with open(os.path.join(d, 'TenancyTrace.cfg'), 'w') as fh:
        fh.write('SPECIFICATION TSpec\n' + consts + 'CONSTRAINT Report\nCHECK_DEADLOCK FALSE\n')
    rt = common.run_tlc(os.path.join(d, 'TenancyTrace.tla'), os.path.join(d, 'TenancyTrace.cfg'), workers=1,
                        env={'TRACE_FILE': tf}, timeout=900)
    acc = set(int(m.group(1)) for m in re.finditer(r'<<"accepted", (\d+)>>', rt.out))
    cases = {int(m.group(1)): [x == 'TRUE' for x in m.groups()[1:]]
             for m in re.finditer(r'<<"case", (\d+), (TRUE|FALSE), (TRUE|FALSE), (TRUE|FALSE)>>', rt.out)}
    if len(cases) != len(recs):
        raise common.MachineryError('TenancyTrace judged %d of %d cases\n%s' % (len(cases), len(recs), rt.out[-2000:]))
    names = ['NoForeignRead', 'NoForeignWrite', 'NewBelongsToCaller']
    div = 0
    nontrivial = set()
    for i, x in enumerate(recs):
        foreign = (x['actor'] != x['owner'] and not x['admin'])
        if foreign:
            nontrivial.add(json.dumps([x['type'], x['scope'], x['member'], x['op']]))
        for nm, okv in zip(names, cases[i + 1]):
            if not okv:
                sig = {'clause': nm, 'type': x['type'], 'op': x['op'], 'scope': x['scope'], 'member': x['member']}
                if x.get('mholder') == 'third':
                    sig['mholder'] = 'third'
                verdict.violation(sig, '%s: project %s (admin=%s) performed %s on the %s %s of project %s (membership %s held by %s): outcome %s, '
                                       'row changed=%s, row exists=%s'
                                  % (nm, x['actor'], x['admin'], x['op'], x['scope'], x['type'], x['owner'], x['member'], x['mholder'], x['outcome'],
                                     x['changed'], x['exists']), x)
        if all(cases[i + 1]) and (i + 1) not in acc:
            div += 1
            if div <= 8:
                verdict.divergence('not a behaviour of Tenancy (over-restriction or unexpected error class): %s' % json.dumps(x))
    rc = verdict.finish()
    common.write_evidence(PID, tier, 'model_checking', {
        'states': r.distinct + rt.distinct, 'transitions': r.generated + rt.generated,
        'traces_validated_against_impl': len(recs), 'traces_accepted': len(acc), 'divergences': div,
        'evaluations': len(recs), 'distinct_nontrivial': len(nontrivial),
        'rule': 'full product resource type x owner x scope x membership status x membership holder (the acting project | a third project) x actor project x admin x operation '
                '(get by id, get by name, list, update, delete, create naming another project) on real rows through the real db api; '
                'non-trivial = distinct (type, scope, membership, operation) with a foreign non-admin actor',
        'exhaustive': True, 'samples': [x for x in recs if x['actor'] != x['owner'] and not x['admin']][:3],
        'known_findings_hit': verdict.known_hits,
    }, time.time() - t0, len(verdict.violations),
        ['db-api level (REST paths are covered by C16 for authorisation); auth enabled, contexts built directly', 'sqlite'])
    print('C15 %s: model %d states; %d operations on real rows, %d accepted strictly, %d divergences, %d violations, known %s, %.1fs'
          % (tier, r.distinct, len(recs), len(acc), div, len(verdict.violations), verdict.known_hits, time.time() - t0))
    return rc


def replay(path):
    print(json.dumps(json.load(open(path))['replay']))
    return 0
