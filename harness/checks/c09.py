"""C09 - a sub-workflow and its parent task stay consistent."""
import random

from harness import common
from harness.checks import engine_common as ec

PID = 'C09'


def _nontrivial(t):
    kids = [w['sid'] for w in t['steps'][-1]['obs']['wf'] if w['parent']]
    return kids or None


def run(tier):
    rnd = random.Random(common.seed() + 9)
    n = 140 if tier == 'quick' else 3000
    jobs = ec.random_jobs(rnd, n, label='sub', gen_kw=dict(partial_joins=False, p_sub=0.5, p_items=0.3, p_cmd=0.03))
    for k, j in enumerate(jobs):
        if k % 3 == 0:
            j['prog'].flags['ns'] = 'ns1'
            j['prog'].flags['ns_decoy'] = (k % 2 == 0)
        if k % 3 == 1 and j['prog'].subs:
            # the whole program is one workbook (every third one with a dotted name); same-named standalone decoys exist
            j['prog'].flags['wb'] = 'team.tools' if k % 2 else 'wbk'
        if k % 6 == 1:
            j['ops'] = [dict(at=rnd.randint(3, 25), op='stop', state='CANCELLED')]
        if k % 6 == 4:
            at = rnd.randint(3, 25)
            j['ops'] = [dict(at=at, op='pause'), dict(at=at + 5, op='resume')]
    # with-items over sub-workflows whose task fails for every item; the failed tasks inside ALL item sub-workflows are rerun back to
    # back: the parent task has to wait for every re-running child
    from harness import gen, engrun
    for n_items in (2, 3):
        for k, pol in enumerate(engrun.POLICIES[1:]):
            P = gen.items_over_subworkflows(n_items, conc=(None if k % 2 else n_items))
            ops = [dict(at=300, op='rerun', reset=True, target='r/t0#0@0.0/sub1x0#0')]
            ops += [dict(rel=0, op='rerun', reset=True, target='r/t0#0@%d.0/sub1x0#0' % i) for i in range(1, n_items)]
            jobs.append(dict(prog=P, scheduler=('default', 'legacy')[k % 2], policy=pol, seed=k + 1, label='itemsub%d' % n_items, ops=ops, max_steps=900))
    return ec.run_property(PID, tier, jobs,
                           'generated programs whose tasks call sub-workflows (plain and with-items callers, child outcomes from the oracle), '
                           'some cancelled or paused/resumed midway; fixed histories: the failed tasks inside all item sub-workflows of a with-items caller rerun back to back; non-trivial = distinct runs with at least one sub-workflow execution',
                           _nontrivial, prescribed=True)


def replay(path):
    return ec.replay(PID, path)
