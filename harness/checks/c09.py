"""C09 - a sub-workflow and its parent task stay consistent."""
import random

from harness import common
from harness.checks import engine_common as ec

PID = 'C09'


def _nontrivial(t):
    kids = [w['sid'] for w in t['steps'][-1]['obs']['wf'] if w['parent']]
    return kids or None


def run(tier):
    rnd = random.Random(common.seed() + 9)
    n = 140 if tier == 'quick' else 3000
    jobs = ec.random_jobs(rnd, n, label='sub', gen_kw=dict(partial_joins=False, p_sub=0.5, p_items=0.3, p_cmd=0.03))
    for k, j in enumerate(jobs):
        if k % 3 == 0:
            j['prog'].flags['ns'] = 'ns1'
            j['prog'].flags['ns_decoy'] = (k % 2 == 0)
        if k % 3 == 1 and j['prog'].subs:
            # the whole program is one workbook (every third one with a dotted name); same-named standalone decoys exist
            j['prog'].flags['wb'] = 'team.tools' if k % 2 else 'wbk'
        if k % 6 == 1:
            j['ops'] = [dict(at=rnd.randint(3, 25), op='stop', state='CANCELLED')]
        if k % 6 == 4:
            at = rnd.randint(3, 25)
            j['ops'] = [dict(at=at, op='pause'), dict(at=at + 5, op='resume')]
    return ec.run_property(PID, tier, jobs,
                           'generated programs whose tasks call sub-workflows (plain and with-items callers, child outcomes from the oracle), '
                           'some cancelled or paused/resumed midway; non-trivial = distinct runs with at least one sub-workflow execution',
                           _nontrivial, prescribed=True)


def replay(path):
    return ec.replay(PID, path)
