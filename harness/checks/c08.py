"""C08 - task policies bound and shape execution as documented."""
import random

from harness import common
from harness.checks import engine_common as ec

PID = 'C08'


# shapes on which the operator may pause / resume at any two points (pause-before needs the resume to go on)
_OPS_SHAPES = ('pause_before_plain', 'pause_before_wait_timeout', 'fail_on_plain', 'fail_on_retry', 'retry_cont_true_ok', 'retry_break_false_err',
               'retry_cont_false_err', 'wait_after_ok', 'wait_before_timeout_late')


def _nontrivial(t):
    pol = [n for n, d in t['prog']['tasks'].items() if d['retry'] or d['waitBefore'] or d['waitAfter'] or d['timeout'] or d['failOn'] or d['pauseBefore']]
    ran = [x['sid'] for x in t['steps'][-1]['obs']['tk'] if x['name'] in pol]
    return ran or None


def run(tier):
    rnd = random.Random(common.seed() + 8)
    n = 160 if tier == 'quick' else 3000
    jobs = ec.random_jobs(rnd, n, label='pol', gen_kw=dict(partial_joins=False, p_join=1.0, p_retry=0.3, p_policy=0.4, p_cmd=0.02, p_err=0.35, policy_on_joins=0.3, p_retry_expr=0.4))
    # pause-before (alone, or together with wait-before / another policy): the operator lets timers fire, or not,
    # and resumes whenever the run has come to rest
    pj = ec.random_jobs(rnd, n // 4, label='pausebefore', gen_kw=dict(partial_joins=False, p_join=1.0, p_retry=0.15, p_policy=0.3, p_cmd=0.0, p_err=0.25,
                                                                      p_pause=0.35, policy_on_joins=0.3))
    for j in pj:
        npb = sum(1 for d in j['prog'].tasks.values() if d.get('pause-before'))
        ops = []
        for _ in range(npb + 1):
            if rnd.random() < 0.5:
                ops.append(dict(at=10 ** 6, op='wait'))
            ops.append(dict(at=10 ** 6, op='resume'))
        j['ops'] = ops
        j['max_steps'] = 600
    jobs += pj
    for k, j in enumerate(jobs):
        if k % 3 == 0:
            j['policy'] = 'time_races'
    # fixed shapes (gen.policy_catalogue): retry count 2 on a plain task and on a join, wait-before x timeout, wait-after, ...
    from harness import gen, engrun
    for nm, P in gen.policy_catalogue():
        for k, sch in enumerate(('default', 'legacy')):
            for pol in (engrun.POLICIES[1:][(k + len(nm)) % 7], 'time_races'):
                jobs.append(dict(prog=P, scheduler=sch, policy=pol, seed=k + 1, label=nm))
    return ec.run_property(PID, tier, jobs,
                           'generated programs whose tasks carry retry (count 1-2, delay 0/1), wait-before, wait-after, timeout (1-3 s, literal or '
                           'expression), fail-on and pause-before (also combined with wait-before; resumed by the operator at rest) policies with per-attempt outcomes from the oracle, under a virtual clock; one third of the '
                           'runs lets timers fire ahead of pending results; non-trivial = distinct runs in which a task with a policy ran',
                           _nontrivial, strict=True,
                           model_runs=lambda d: ec.catalogue_model_runs(d, tier, shapes=gen.policy_catalogue(), liveness_for=()) +
                           ec.catalogue_model_runs(d, tier, shapes=gen.policy_catalogue(), ops=2, kinds=('pause', 'resume'), tag='_pr2', liveness_for=(),
                                                   only=_OPS_SHAPES, schedulers=('default', 'legacy')),
                           model_behaviours=lambda d: ec.model_jobs(d, tier, shapes=gen.policy_catalogue(),
                                                                    sims=[(None, 2 if tier == 'quick' else 8, 0, 0, ()),
                                                                          (_OPS_SHAPES, 2 if tier == 'quick' else 8, 2, 0, ('pause', 'resume'))]))


def replay(path):
    return ec.replay(PID, path)
