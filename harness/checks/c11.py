"""C11 - stop and cancel end the whole execution tree; late results change nothing."""
import random

from harness import common
from harness.checks import engine_common as ec

PID = 'C11'


def _nontrivial(t):
    return any(s['ev']['kind'] == 'op' and s['ev']['what'] == 'stop' and s['ev']['exc'] == 'none' for s in t['steps']) or None


def run(tier):
    rnd = random.Random(common.seed() + 11)
    n = 120 if tier == 'quick' else 2500
    jobs = []
    for k, j in enumerate(ec.random_jobs(rnd, n, label='stop', gen_kw=dict(p_cmd=0.08, p_sub=0.3, p_items=0.1, cmds=['fail', 'succeed', 'noop', 'pause', 'pause']))):
        at = rnd.randint(1, 30)
        st = ['ERROR', 'CANCELLED', 'SUCCESS'][k % 3]
        j['ops'] = [dict(at=at, op='stop', state=st, msg='halt-%d' % k)]
        if k % 5 == 0 or (k % 3 == 1 and j['prog'].subs):
            j['ops'].insert(0, dict(at=max(0, at - 2), op='pause'))
        jobs.append(j)
    for j in ec.catalogue_jobs(policies=('random', 'results_first'), seeds=(1,)):
        for at in (3, 8, 13):
            jj = dict(j)
            jj['ops'] = [dict(at=at, op='stop', state=['ERROR', 'CANCELLED', 'SUCCESS'][at % 3], msg='halt')]
            jobs.append(jj)
    # the pause command leaves commands in the backlog: stop at every point around it, late results afterwards
    from harness import gen
    pb = dict(gen.catalogue())['cmd_pause_backlog']
    for sch in ('default', 'legacy'):
        for at in range(2, 16):
            for st in (('CANCELLED', 'ERROR') if at % 2 else ('CANCELLED',)):
                jobs.append(dict(prog=pb, scheduler=sch, policy=('random', 'starve_ptq', 'results_first', 'lifo')[at % 4], seed=at, label='pause_backlog',
                                 ops=[dict(at=at, op='stop', state=st, msg='halt')]))
    # a join (an action, or a sub-workflow call) whose inbound tasks have all completed but whose refresh job has not run yet: the
    # stop lands in between, the job fires afterwards
    from harness import engrun
    for kind in ('action', 'workflow'):
        for k, pol in enumerate(engrun.POLICIES[1:]):
            P = gen.join_of_kind(kind)
            st = ('CANCELLED', 'ERROR', 'SUCCESS')[k % 3]
            jobs.append(dict(prog=P, scheduler=('default', 'legacy')[k % 2], policy=pol, seed=k + 1, label='stop_ready_join_%s' % kind,
                             ops=[dict(when='join_ready_not_started', op='stop', state=st, msg='halt')]))
    return ec.run_property(PID, tier, jobs,
                           'generated programs stopped with ERROR / CANCELLED / SUCCESS at a random step (some while PAUSED), results still '
                           'in flight delivered afterwards; fixed histories: stop at every point around the pause command, stop between the completion of a join\'s last inbound task and its refresh job (action join / sub-workflow join); non-trivial = distinct runs with an acknowledged stop',
                           _nontrivial, strict=True,
                           model_behaviours=lambda d: ec.model_jobs(
                               d, tier, sims=[(None, 2 if tier == 'quick' else 8, 2, 0, ('pause', 'stop'))],
                               probes=[('stop_error_ignored_while_paused', 'chain2', 'hist.stopIgnored', 2, 0, ('pause', 'stop'))]),
                           model_runs=lambda d: ec.catalogue_model_runs(d, tier, ops=2, kinds=('stop',), tag='_s2') +
                           ec.catalogue_model_runs(d, tier, ops=2, kinds=('pause', 'stop'), tag='_ps2'))


def replay(path):
    return ec.replay(PID, path)
