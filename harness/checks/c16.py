"""C16 - every REST operation is authorised and guarded before it has any effect.
Spec: spec/rest/RestGuard.tla (+ RestGuardTrace.tla).

Requests are sent through the real WSGI application (pecan.testing.load_test_app).  Recorded per
request: every acl.enforce call with its verdict, every SQL statement on a resource table (read /
write), every RPC sent to the engine, the status code and whether the database digest changed.
Per operation: policy allows everything / the documented rule is denied / (list) the all_projects
rule is denied / (create, update with scope=public) the publicize rule is denied, each with the
addressed resource present and absent; plus the state-change tables (execution PUT, task PUT,
execution DELETE).  TLC judges every recorded request with the RestGuardTrace formulas.
"""
import hashlib
import json
import os
import re
import shutil
import time
import uuid

from harness import common

PID = 'C16'
TABLES = ['workflow_definitions_v2', 'workbooks_v2', 'action_definitions_v2', 'workflow_executions_v2', 'task_executions_v2',
          'action_executions_v2', 'environments_v2', 'cron_triggers_v2', 'event_triggers_v2', 'code_sources',
          'dynamic_action_definitions', 'resource_members_v2', 'scheduled_jobs_v2', 'delayed_calls_v2']

WF = "---\nversion: '2.0'\n%s:\n  tasks:\n    t:\n      action: std.noop\n"
WB = "---\nversion: '2.0'\nname: %s\nworkflows:\n  w1:\n    tasks:\n      t:\n        action: std.noop\n"
ACT = "---\nversion: '2.0'\n%s:\n  base: std.echo\n  base-input:\n    output: 1\n"


class Recorder(object):
    def __init__(self):
        self.events = []


def _digest():
    from harness import mdb
    h = hashlib.sha1()
    for t in TABLES:
        try:
            rows = mdb.raw_rows('select * from %s order by 1' % t)
        except Exception:
            continue
        h.update(repr([[str(c) for i, c in enumerate(r)] for r in rows]).encode())
    return h.hexdigest()


def _setup():
    from harness import mdb
    CONF = mdb.boot(auth_enable=False)
    CONF.set_override('enabled', False, group='cron_trigger')
    import pecan
    import pecan.testing
    from oslo_policy import policy as opolicy
    from mistral.api import app as pecan_app
    from mistral.api import access_control as acl
    from mistral import context as auth_context
    from mistral import exceptions as mexc
    from mistral.rpc import clients as rpc_clients
    from mistral.db.sqlalchemy import base as db_base
    from mistral.db.v2 import api as db_api
    from sqlalchemy import event
    rec = Recorder()
    state = {'ctx': mdb.ctx('proj-A')}
    auth_context.MistralContext.from_environ = classmethod(lambda cls, *a, **kw: state['ctx'])
    acl._ensure_enforcer_initialization()
    orig_enforce = acl.enforce

    def enforce(action, context, target=None, do_raise=True, exc=mexc.NotAllowedException):
        try:
            ok = orig_enforce(action, context, target, do_raise=do_raise, exc=exc)
        except Exception:
            rec.events.append({'k': 'enforce', 'rule': action, 'ok': False})
            raise
        rec.events.append({'k': 'enforce', 'rule': action, 'ok': bool(ok)})
        return ok

    acl.enforce = enforce
    eng = db_base.get_engine()

    def before(conn, cursor, statement, parameters, context, executemany):
        s = statement.lstrip()
        m = re.match(r'(?is)^(select).*?\bfrom\s+(\w+)|^(insert)\s+into\s+(\w+)|^(update)\s+(\w+)|^(delete)\s+from\s+(\w+)', s)
        if not m:
            return
        g = [x for x in m.groups() if x]
        kind, table = g[0].lower(), g[1]
        if table in TABLES:
            rec.events.append({'k': 'db', 'table': table, 'w': kind != 'select'})

    event.listen(eng, 'before_cursor_execute', before)

    class FakeEngine(object):
        def __getattr__(self, name):
            def call(*a, **kw):
                rec.events.append({'k': 'rpc', 'm': name})
                ident = a[0] if a else kw.get('wf_ex_id') or kw.get('task_ex_id')
                if name in ('pause_workflow', 'resume_workflow', 'stop_workflow', 'rerun_workflow'):
                    try:
                        with db_api.transaction():
                            if name == 'rerun_workflow':
                                t = db_api.get_task_execution(ident)
                                return db_api.get_workflow_execution(t.workflow_execution_id).to_dict()
                            return db_api.get_workflow_execution(ident).to_dict()
                    except Exception:
                        return {'id': str(ident), 'state': 'RUNNING', 'workflow_name': 'w'}
                if name == 'start_workflow':
                    return {'id': str(uuid.uuid4()), 'state': 'RUNNING', 'workflow_name': 'w', 'input': {}, 'params': {}, 'output': {}}
                if name == 'start_action':
                    return {'id': str(uuid.uuid4()), 'state': 'RUNNING', 'name': 'std.echo', 'input': {}, 'output': {}, 'accepted': False}
                if name in ('on_action_complete', 'on_action_update'):
                    with db_api.transaction():
                        return db_api.get_action_execution(a[0]).to_dict()
                return {}
            return call

    rpc_clients.get_engine_client = lambda: FakeEngine()
    app = pecan.testing.load_test_app(dict(pecan_app.get_pecan_config()))
    return dict(app=app, rec=rec, state=state, acl=acl, opolicy=opolicy, db_api=db_api, mdb=mdb, CONF=CONF)


def _fixtures(env):
    """Create one present resource of every type as project A; returns ids/names."""
    mdb, db_api = env['mdb'], env['db_api']
    mdb.wipe()
    from mistral.lang import parser as spec_parser
    spec_parser.clear_caches()
    from mistral.services import workflows as wf_s, workbooks as wb_s, adhoc_actions as act_s
    mdb.set_ctx(mdb.ctx('proj-A'))
    f = {}
    try:
        f['wf'] = wf_s.create_workflows(WF % 'wfp')[0].id
        f['wf_name'] = 'wfp'
        wb_s.create_workbook_v2(WB % 'wbp')
        f['wb'] = 'wbp'
        f['act'] = act_s.create_actions(ACT % 'actp')[0].name
        with db_api.transaction():
            for st in ('RUNNING', 'PAUSED', 'SUCCESS', 'ERROR', 'CANCELLED'):
                ex = db_api.create_workflow_execution({'name': 'wfp', 'workflow_name': 'wfp', 'workflow_id': f['wf'], 'state': st,
                                                       'spec': {}, 'params': {}, 'input': {}, 'output': {}, 'context': {},
                                                       'description': 'd', 'workflow_namespace': ''})
                f['ex_' + st] = ex.id
                for tst in ('RUNNING', 'SUCCESS', 'ERROR'):
                    tk = db_api.create_task_execution({'name': 't', 'workflow_execution_id': ex.id, 'workflow_name': 'wfp', 'state': tst,
                                                       'spec': {'name': 't', 'action': 'std.noop', 'version': '2.0'}, 'in_context': {}, 'published': {},
                                                       'runtime_context': {}, 'workflow_id': f['wf'], 'processed': True, 'type': 'ACTION'})
                    f['tk_%s_%s' % (st, tst)] = tk.id
            ax = db_api.create_action_execution({'name': 'std.echo', 'state': 'RUNNING', 'input': {'output': 1}, 'is_sync': False,
                                                 'runtime_context': {}, 'workflow_namespace': ''})
            f['ax'] = ax.id
            env_ = db_api.create_environment({'name': 'envp', 'description': 'd', 'variables': {'k': 1}, 'scope': 'private'})
            f['env'] = 'envp'
            import datetime
            ct = db_api.create_cron_trigger({'name': 'ctp', 'pattern': '* * * * *', 'workflow_name': 'wfp', 'workflow_id': f['wf'],
                                            'next_execution_time': datetime.datetime(2031, 1, 1), 'workflow_input': {},
                                            'workflow_params': {}, 'scope': 'private'})
            f['ct'] = 'ctp'
            et = db_api.create_event_trigger({'name': 'etp', 'exchange': 'e', 'topic': 't', 'event': 'ev', 'workflow_id': f['wf'],
                                              'workflow_input': {}, 'workflow_params': {}, 'scope': 'private'})
            f['et'] = et.id
    finally:
        mdb.set_ctx(None)
    return f


def _catalogue(f, present):
    """(op id, method, path, body, content type, documented rules, extra rule cases)"""
    rid = (lambda k: f[k]) if present else (lambda k: str(uuid.uuid4()))
    nm = (lambda k: f[k]) if present else (lambda k: 'absent-' + k)
    J = 'application/json'
    T = 'text/plain'
    ops = [
        ('workflows:list', 'GET', '/v2/workflows', None, None, ['workflows:list']),
        ('workflows:list:all', 'GET', '/v2/workflows?all_projects=true', None, None, ['workflows:list', 'workflows:list:all_projects']),
        ('workflows:get', 'GET', '/v2/workflows/%s' % rid('wf'), None, None, ['workflows:get']),
        ('workflows:create', 'POST', '/v2/workflows', WF % ('wfnew' + uuid.uuid4().hex[:6]), T, ['workflows:create']),
        ('workflows:create:public', 'POST', '/v2/workflows?scope=public', WF % ('wfpub' + uuid.uuid4().hex[:6]), T, ['workflows:create', 'workflows:publicize']),
        ('workflows:update', 'PUT', '/v2/workflows', WF % nm('wf_name'), T, ['workflows:update']),
        ('workflows:update:public', 'PUT', '/v2/workflows?scope=public', WF % nm('wf_name'), T, ['workflows:update', 'workflows:publicize']),
        ('workflows:delete', 'DELETE', '/v2/workflows/%s' % (rid('wf') if not present else str(uuid.uuid4())), None, None, ['workflows:delete']),
        ('workbooks:list', 'GET', '/v2/workbooks', None, None, ['workbooks:list']),
        ('workbooks:get', 'GET', '/v2/workbooks/%s' % nm('wb'), None, None, ['workbooks:get']),
        ('workbooks:create', 'POST', '/v2/workbooks', WB % ('wbnew' + uuid.uuid4().hex[:6]), T, ['workbooks:create']),
        ('workbooks:create:public', 'POST', '/v2/workbooks?scope=public', WB % ('wbpub' + uuid.uuid4().hex[:6]), T, ['workbooks:create', 'workbooks:publicize']),
        ('workbooks:update', 'PUT', '/v2/workbooks', WB % nm('wb'), T, ['workbooks:update']),
        ('workbooks:delete', 'DELETE', '/v2/workbooks/%s' % ('absent-wb' if present else 'absent-wb2'), None, None, ['workbooks:delete']),
        ('actions:list', 'GET', '/v2/actions', None, None, ['actions:list']),
        ('actions:get', 'GET', '/v2/actions/%s' % nm('act'), None, None, ['actions:get']),
        ('actions:create', 'POST', '/v2/actions', ACT % ('actnew' + uuid.uuid4().hex[:6]), T, ['actions:create']),
        ('actions:create:public', 'POST', '/v2/actions?scope=public', ACT % ('actpub' + uuid.uuid4().hex[:6]), T, ['actions:create', 'actions:publicize']),
        ('actions:update', 'PUT', '/v2/actions', ACT % nm('act'), T, ['actions:update']),
        ('actions:delete', 'DELETE', '/v2/actions/absent-act', None, None, ['actions:delete']),
        ('executions:list', 'GET', '/v2/executions', None, None, ['executions:list']),
        ('executions:list:all', 'GET', '/v2/executions?all_projects=true', None, None, ['executions:list', 'executions:list:all_projects']),
        ('executions:get', 'GET', '/v2/executions/%s' % rid('ex_RUNNING'), None, None, ['executions:get']),
        ('executions:create', 'POST', '/v2/executions', json.dumps({'workflow_name': nm('wf_name'), 'input': '{}'}), J, ['executions:create']),
        ('executions:update', 'PUT', '/v2/executions/%s' % rid('ex_RUNNING'), json.dumps({'description': 'new'}), J, ['executions:update']),
        ('executions:delete', 'DELETE', '/v2/executions/%s' % rid('ex_SUCCESS'), None, None, ['executions:delete']),
        ('tasks:list', 'GET', '/v2/tasks', None, None, ['tasks:list']),
        ('tasks:get', 'GET', '/v2/tasks/%s' % rid('tk_RUNNING_SUCCESS'), None, None, ['tasks:get']),
        ('tasks:update', 'PUT', '/v2/tasks/%s' % rid('tk_ERROR_ERROR'), json.dumps({'state': 'RUNNING', 'reset': True}), J, ['tasks:update']),
        ('action_executions:list', 'GET', '/v2/action_executions', None, None, ['action_executions:list']),
        ('action_executions:get', 'GET', '/v2/action_executions/%s' % rid('ax'), None, None, ['action_executions:get']),
        ('action_executions:create', 'POST', '/v2/action_executions', json.dumps({'name': 'std.echo', 'input': '{"output": 1}'}), J, ['action_executions:create']),
        ('action_executions:update', 'PUT', '/v2/action_executions/%s' % rid('ax'), json.dumps({'state': 'SUCCESS', 'output': '{"r": 1}'}), J, ['action_executions:update']),
        ('action_executions:delete', 'DELETE', '/v2/action_executions/%s' % str(uuid.uuid4()), None, None, ['action_executions:delete']),
        ('environments:list', 'GET', '/v2/environments', None, None, ['environments:list']),
        ('environments:get', 'GET', '/v2/environments/%s' % nm('env'), None, None, ['environments:get']),
        ('environments:create', 'POST', '/v2/environments', json.dumps({'name': 'envnew' + uuid.uuid4().hex[:6], 'variables': '{"a": 1}'}), J, ['environments:create']),
        ('environments:create:public', 'POST', '/v2/environments', json.dumps({'name': 'envpub' + uuid.uuid4().hex[:6], 'variables': '{"a": 1}', 'scope': 'public'}), J,
         ['environments:create', 'environments:publicize']),
        ('environments:update', 'PUT', '/v2/environments', json.dumps({'name': nm('env'), 'variables': '{"a": 2}'}), J, ['environments:update']),
        ('environments:delete', 'DELETE', '/v2/environments/absent-env', None, None, ['environments:delete']),
        ('cron_triggers:list', 'GET', '/v2/cron_triggers', None, None, ['cron_triggers:list']),
        ('cron_triggers:list:all', 'GET', '/v2/cron_triggers?all_projects=true', None, None, ['cron_triggers:list', 'cron_triggers:list:all_projects']),
        ('cron_triggers:get', 'GET', '/v2/cron_triggers/%s' % nm('ct'), None, None, ['cron_triggers:get']),
        ('cron_triggers:create', 'POST', '/v2/cron_triggers', json.dumps({'name': 'ctnew' + uuid.uuid4().hex[:6], 'pattern': '* * * * *', 'workflow_name': nm('wf_name'),
                                                                         'workflow_input': '{}'}), J, ['cron_triggers:create']),
        ('cron_triggers:delete', 'DELETE', '/v2/cron_triggers/absent-ct', None, None, ['cron_triggers:delete']),
        ('event_triggers:list', 'GET', '/v2/event_triggers', None, None, ['event_triggers:list']),
        ('event_triggers:list:all', 'GET', '/v2/event_triggers?all_projects=true', None, None, ['event_triggers:list', 'event_triggers:list:all_projects']),
        ('event_triggers:get', 'GET', '/v2/event_triggers/%s' % rid('et'), None, None, ['event_triggers:get']),
        ('event_triggers:delete', 'DELETE', '/v2/event_triggers/%s' % str(uuid.uuid4()), None, None, ['event_triggers:delete']),
        ('code_sources:list', 'GET', '/v2/code_sources', None, None, ['code_sources:list']),
        ('dynamic_actions:list', 'GET', '/v2/dynamic_actions', None, None, ['dynamic_actions:list']),
    ]
    return ops


def _send(env, method, path, body, ctype):
    app = env['app']
    kw = {'expect_errors': True}
    hdr = {'Accept': 'application/json'}
    if method == 'GET':
        return app.get(path, headers=hdr, **kw)
    if method == 'DELETE':
        return app.delete(path, headers=hdr, **kw)
    hdr['Content-Type'] = ctype or 'application/json'
    if ctype == 'text/plain':
        hdr.pop('Accept', None)
    fn = app.post if method == 'POST' else app.put
    return fn(path, body or '', headers=hdr, **kw)


def run(tier):
    t0 = time.time()
    verdict = common.Verdict(PID)
    d = common.builddir('c16', clean=True)
    for f_ in ('RestGuard.tla', 'RestGuardTrace.tla'):
        shutil.copy(os.path.join(common.SPEC, 'rest', f_), d)
    env = _setup()
    acl, opolicy, rec, mdb = env['acl'], env['opolicy'], env['rec'], env['mdb']
    from mistral import policies
    defaults = {r.name: r.check_str for r in policies.list_rules()}
    recs = []

    def set_rule(rule, check):
        acl._ENFORCER.set_rules(opolicy.Rules.from_dict({rule: check}), overwrite=False, use_conf=False)

    def one(opid, method, path, body, ctype, rules, deny_idx, extra=None, admin=False):
        env['state']['ctx'] = mdb.ctx('proj-A', admin=admin)
        denied = rules[deny_idx - 1] if deny_idx else None
        if denied:
            set_rule(denied, '!')
        before = _digest()
        del rec.events[:]
        resp = None
        try:
            resp = _send(env, method, path, body, ctype)
            status = resp.status_int
        except Exception as e:
            status = 599
            rec.events.append({'k': 'exception', 'cls': type(e).__name__})
        finally:
            if denied:
                set_rule(denied, defaults[denied])
            mdb.set_ctx(None)
        evs = [e for e in rec.events if e['k'] in ('enforce', 'db', 'rpc')]
        after = _digest()
        r = dict(op=opid, method=method, path=path, rules=rules, deny=deny_idx, events=evs, status=status, changed=before != after,
                 expectEnforce=True, kind='plain', cur='', req='', force=False, descr=False, foreignReturned=False)
        r['_body'] = resp.text[:200000] if status != 599 and hasattr(resp, 'text') else ''
        if extra:
            r.update(extra)
        recs.append(r)
        return r

    # ---- every catalogued operation: allowed / each documented rule denied ; resource present / absent
    for present in (True, False):
        f = _fixtures(env)
        for (opid, method, path, body, ctype, rules) in _catalogue(f, present):
            for deny_idx in range(0, len(rules) + 1):
                # fresh fixtures for mutating requests so that "present" stays true
                if method != 'GET' and deny_idx == 0:
                    f2 = _fixtures(env)
                    cat = dict((c[0], c) for c in _catalogue(f2, present))
                    (opid, method, path, body, ctype, rules) = cat[opid]
                # publicize / all_projects rules are admin-only by default: use an admin caller when they are not the denied one
                admin = len(rules) > 1 and deny_idx != 2
                one(opid + ('' if present else ':absent'), method, path, body, ctype, rules, deny_idx, admin=admin)
    # ---- state-change tables
    states_req = ['IDLE', 'RUNNING', 'PAUSED', 'SUCCESS', 'ERROR', 'CANCELLED', 'DELAYED', 'WAITING', 'SKIPPED', 'BOGUS']
    for cur in ('RUNNING', 'PAUSED', 'SUCCESS', 'ERROR', 'CANCELLED'):
        for req in states_req:
            for descr, envf in ((False, False), (True, False), (False, True), (True, True)):
                f = _fixtures(env)
                body = {'state': req}
                if descr:
                    body['description'] = 'changed'
                if envf:
                    # a new environment in the same request (allowed together with RUNNING only)
                    body['params'] = {'env': {'k': 'v2'}}
                one('executions:update:state', 'PUT', '/v2/executions/%s' % f['ex_' + cur], json.dumps(body), 'application/json',
                    ['executions:update'], 0, extra=dict(kind='exec_put', cur=cur, req=req, descr=descr, envf=envf))
        for force in (False, True):
            f = _fixtures(env)
            one('executions:delete:state', 'DELETE', '/v2/executions/%s%s' % (f['ex_' + cur], '?force=true' if force else ''), None, None,
                ['executions:delete'], 0, extra=dict(kind='exec_delete', cur=cur, force=force))
    for wfst in ('RUNNING', 'ERROR'):
        for cur in ('RUNNING', 'SUCCESS', 'ERROR'):
            for req in ('RUNNING', 'SKIPPED', 'SUCCESS', 'ERROR', 'IDLE', 'PAUSED', 'BOGUS'):
                f = _fixtures(env)
                one('tasks:update:state', 'PUT', '/v2/tasks/%s' % f['tk_%s_%s' % (wfst, cur)], json.dumps({'state': req, 'reset': True}),
                    'application/json', ['tasks:update'], 0, extra=dict(kind='task_put', cur=cur, req=req))

    # ---- listing across projects: a non-admin caller of project A asks for project B's rows
    PA, PB = '11111111-1111-4111-8111-111111111111', '22222222-2222-4222-8222-222222222222'
    from mistral import auth as mauth

    class FakeAuth(object):
        def authenticate(self, req):
            return None

    saved_handler = mauth._IMPL_AUTH_HANDLER
    mauth._IMPL_AUTH_HANDLER = FakeAuth()
    env['CONF'].set_override('auth_enable', True, group='pecan')
    try:
        db_api = env['db_api']
        mdb.wipe()
        import datetime as _dt
        for proj in (PA, PB):
            mdb.set_ctx(mdb.ctx(proj))
            tag = 'a' if proj == PA else 'b'
            with db_api.transaction():
                wfd = db_api.create_workflow_definition({'name': 'wf' + tag, 'definition': WF % ('wf' + tag), 'spec': {}, 'scope': 'private', 'namespace': ''})
                db_api.create_workbook({'name': 'wb' + tag, 'definition': 'x', 'spec': {}, 'tags': [], 'scope': 'private', 'namespace': ''})
                db_api.create_action_definition({'name': 'act' + tag, 'definition': 'x', 'spec': {}, 'is_system': False, 'scope': 'private', 'namespace': ''})
                ex = db_api.create_workflow_execution({'name': 'wf' + tag, 'workflow_name': 'wf' + tag, 'workflow_id': wfd.id, 'state': 'RUNNING', 'spec': {},
                                                       'params': {}, 'input': {}, 'output': {}, 'context': {}, 'workflow_namespace': ''})
                tk_ = db_api.create_task_execution({'name': 't', 'workflow_execution_id': ex.id, 'workflow_name': 'wf' + tag, 'state': 'RUNNING', 'spec': {},
                                                    'in_context': {}, 'published': {}, 'runtime_context': {}, 'workflow_id': wfd.id, 'type': 'ACTION'})
                db_api.create_action_execution({'name': 'std.echo', 'state': 'RUNNING', 'input': {}, 'is_sync': True, 'runtime_context': {},
                                                'task_execution_id': tk_.id, 'workflow_namespace': ''})
                db_api.create_environment({'name': 'env' + tag, 'description': 'd', 'variables': {'secret': tag}, 'scope': 'private'})
                db_api.create_cron_trigger({'name': 'ct' + tag, 'pattern': '* * * * *', 'workflow_name': 'wf' + tag, 'workflow_id': wfd.id,
                                            'next_execution_time': _dt.datetime(2031, 1, 1), 'workflow_input': {'secret': tag},
                                            'workflow_params': {}, 'scope': 'private'})
                db_api.create_event_trigger({'name': 'et' + tag, 'exchange': 'e', 'topic': 't', 'event': 'ev' + tag, 'workflow_id': wfd.id,
                                             'workflow_input': {}, 'workflow_params': {}, 'scope': 'private'})
            mdb.set_ctx(None)
        for res in ('workflows', 'workbooks', 'actions', 'executions', 'tasks', 'action_executions', 'environments', 'cron_triggers',
                    'event_triggers', 'code_sources', 'dynamic_actions'):
            for q in ('', '?project_id=%s' % PB, '?all_projects=true'):
                env['state']['ctx'] = mdb.ctx(PA, admin=False)
                before = _digest()
                del rec.events[:]
                resp = None
                try:
                    resp = _send(env, 'GET', '/v2/%s%s' % (res, q), None, None)
                    status = resp.status_int
                except Exception as e:
                    status = 599
                finally:
                    mdb.set_ctx(None)
                evs = [e for e in rec.events if e['k'] in ('enforce', 'db', 'rpc')]
                foreign = False
                if resp is not None and status == 200:
                    try:
                        body = resp.json
                        for k_, v_ in body.items():
                            if isinstance(v_, list):
                                for item in v_:
                                    if isinstance(item, dict) and item.get('project_id') == PB and item.get('scope', 'private') != 'public':
                                        foreign = True
                    except Exception:
                        pass
                recs.append(dict(op='%s:list:foreign' % res, method='GET', path='/v2/%s%s' % (res, q), rules=['%s:list' % res], deny=0, events=evs,
                                 status=status, changed=before != _digest(), expectEnforce=(q == ''), kind='xproject', cur='', req='', force=False,
                                 descr=False, foreignReturned=foreign))
    finally:
        env['CONF'].set_override('auth_enable', False, group='pecan')
        mauth._IMPL_AUTH_HANDLER = saved_handler

    # ---- exposed controller methods vs catalogue (static enumeration of the controller tree)
    exposed = _walk_controllers()
    covered = set(r['op'].split(':')[0] + ':' + r['method'] for r in recs)
    uncovered = sorted(x for x in exposed if x not in covered)

    # ---- TLC judges
    tf = os.path.join(d, 'requests.ndjson')
    with open(tf, 'w') as fh:
        for x in recs:
            fh.write(json.dumps({k_: v_ for k_, v_ in x.items() if k_ != '_body'}) + '\n')
    consts = 'CONSTANTS\n Operations = {}\n Tables = {%s}\n' % ', '.join('"%s"' % t for t in TABLES if not t.startswith(('scheduled', 'delayed')))
    with open(os.path.join(d, 'RestGuardTrace.cfg'), 'w') as fh:
        fh.write('SPECIFICATION TSpec\n' + consts + 'CONSTRAINT Report\nCHECK_DEADLOCK FALSE\n')
    rt = common.run_tlc(os.path.join(d, 'RestGuardTrace.tla'), os.path.join(d, 'RestGuardTrace.cfg'), workers=1,
                        env={'TRACE_FILE': tf}, timeout=900)
    cases = {int(m.group(1)): [x == 'TRUE' for x in m.groups()[1:]]
             for m in re.finditer(r'<<"case", (\d+), (TRUE|FALSE), (TRUE|FALSE), (TRUE|FALSE), (TRUE|FALSE), (TRUE|FALSE), (TRUE|FALSE), (TRUE|FALSE)>>', rt.out)}
    if len(cases) != len(recs):
        raise common.MachineryError('RestGuardTrace judged %d of %d requests\n%s' % (len(cases), len(recs), rt.out[-2500:]))
    # model-level run of RestGuard itself
    with open(os.path.join(d, 'MC_RestGuard.tla'), 'w') as fh:
        fh.write('---- MODULE MC_RestGuard ----\nEXTENDS RestGuard\nMC_Ops == {[id |-> "one", rules |-> <<"r">>, mutating |-> TRUE], '
                 '[id |-> "two", rules |-> <<"r", "r:publicize">>, mutating |-> TRUE]}\n====\n')
    with open(os.path.join(d, 'MC_RestGuard.cfg'), 'w') as fh:
        fh.write('SPECIFICATION Spec\nCONSTANTS\n Operations <- MC_Ops\n Tables = {"t"}\nINVARIANT EnforceFirst\nINVARIANT DeniedNoEffect\nCHECK_DEADLOCK FALSE\n')
    rm = common.run_tlc(os.path.join(d, 'MC_RestGuard.tla'), os.path.join(d, 'MC_RestGuard.cfg'), timeout=600)
    if not rm.ok:
        raise common.MachineryError('RestGuard model violates its own invariants\n' + rm.out[-2000:])
    names = ['EnforceFirst', 'AlwaysEnforces', 'DeniedNoEffect', 'ExecPutGuard', 'TaskPutGuard', 'ExecDeleteGuard', 'CrossProjectNeedsAdminRule']
    nontrivial = set()
    for i, x in enumerate(recs):
        if x['deny'] or x['kind'] != 'plain':
            nontrivial.add(json.dumps([x['op'], x['deny'], x['cur'], x['req'], x['force'], x['descr']]))
        for nm_, okv in zip(names, cases[i + 1]):
            if not okv:
                sig = {'clause': nm_, 'op': x['op'], 'deny': x['deny'], 'cur': x['cur'], 'req': x['req']}
                verdict.violation(sig, '%s false for %s %s (documented rules %s, denied #%d, %s): status %s, database changed=%s, events %s'
                                  % (nm_, x['method'], x['path'], x['rules'], x['deny'],
                                     'cur=%s req=%s force=%s descr=%s' % (x['cur'], x['req'], x['force'], x['descr']) if x['kind'] != 'plain' else 'plain',
                                     x['status'], x['changed'], json.dumps(x['events'])[:600]), x)
    rc = verdict.finish()
    common.write_evidence(PID, tier, 'model_checking', {
        'states': rt.distinct + rm.distinct, 'transitions': rt.generated + rm.generated,
        'traces_validated_against_impl': len(recs),
        'evaluations': len(recs), 'distinct_nontrivial': len(nontrivial),
        'rule': 'catalogued operations x (allowed | each documented rule denied) x resource present/absent through the real WSGI app, plus the '
                'state-change tables (execution PUT: 5 current x 10 requested states x description x environment; execution DELETE: 5 states x force; '
                'task PUT: 2 x 3 current x 7 requested); non-trivial = distinct requests with a denied rule or a state change',
        'exposed_controller_methods': len(exposed), 'exposed_not_catalogued': uncovered,
        'samples': [x for x in recs if x['deny']][:2] + [x for x in recs if x['kind'] == 'exec_put'][:1],
        'known_findings_hit': verdict.known_hits,
    }, time.time() - t0, len(verdict.violations),
        ['policy decisions are switched through the real oslo.policy enforcer; the engine RPC client is a recorder (no engine runs)',
         'keystone authentication is off (context injected); sqlite'])
    print('C16 %s: %d requests through the WSGI app judged by TLC, %d exposed controller methods (%d not catalogued: %s), %d violations, known %s, %.1fs'
          % (tier, len(recs), len(exposed), len(uncovered), uncovered[:8], len(verdict.violations), verdict.known_hits, time.time() - t0))
    return rc


def _walk_controllers():
    """resource:METHOD for every exposed REST method found by walking the pecan controller tree."""
    from mistral.api.controllers.v2 import root as v2root
    out = set()
    seen = set()

    def walk(obj, name):
        if id(obj) in seen:
            return
        seen.add(id(obj))
        for meth, verb in (('get', 'GET'), ('get_one', 'GET'), ('get_all', 'GET'), ('post', 'POST'), ('put', 'PUT'), ('delete', 'DELETE')):
            fn = getattr(obj, meth, None)
            if fn is not None and callable(fn) and (getattr(fn, 'exposed', False) or hasattr(fn, '_wsme_definition') or hasattr(fn, '_pecan')):
                out.add('%s:%s' % (name, verb))
        for attr in dir(obj):
            if attr.startswith('_'):
                continue
            try:
                sub = getattr(obj, attr)
            except Exception:
                continue
            if hasattr(sub, '__class__') and sub.__class__.__module__.startswith('mistral.api.controllers') and not callable(sub):
                walk(sub, attr)

    walk(v2root.Controller(), 'v2')
    return out


def replay(path):
    print(json.dumps(json.load(open(path))['replay'])[:3000])
    return 0
