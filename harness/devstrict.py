"""Development loop for the engine specification: python -m harness.devstrict <kind> [n] [seed]
Runs generated programs on the real engine, validates the recorded runs strictly against MistralEngine
(EngineTrace), and for the first rejected run prints the events, the logged observation at the failing
step and the model states TLC reached just before it."""
import json
import os
import random
import re
import sys

from harness import common, engcheck, engmodel
from harness.checks import engine_common as ec


def jobs_for(kind, n, seed):
    rnd = random.Random(seed)
    gk = dict(p_cmd=0.2, cmds=['fail', 'succeed', 'noop', 'pause', 'pause'])
    if kind == 'plain':
        return ec.random_jobs(rnd, n, schedulers=('default', 'legacy'), label='plain') + ec.catalogue_jobs(schedulers=('default', 'legacy'), seeds=(1,))
    if kind == 'items':
        gk = dict(partial_joins=True, p_join=0.7, p_items=0.45, p_cmd=0.1, p_err=0.3, cmds=['fail', 'succeed', 'noop', 'pause'])
        js = ec.random_jobs(rnd, n, schedulers=('default', 'legacy'), label=kind, gen_kw=gk)
        for k, j in enumerate(js):
            at = rnd.randint(1, 25)
            if k % 4 == 1:
                j['ops'] = [dict(at=at, op='pause'), dict(at=at + rnd.randint(1, 12), op='resume')]
            elif k % 4 == 2:
                j['dups'] = 2
            elif k % 8 == 3:
                j['ops'] = [dict(at=at, op='stop', state=rnd.choice(['ERROR', 'CANCELLED', 'SUCCESS']))]
        return js
    if kind == 'reverse':
        js = ec.reverse_jobs(rnd, n)
        for k, j in enumerate(js):
            at = rnd.randint(1, 20)
            c = k % 5
            P = j['prog']
            if c == 1:
                j['ops'] = [dict(at=at, op='pause'), dict(at=at + rnd.randint(1, 10), op='resume')]
            elif c == 2:
                j['dups'] = 2
            elif c == 3:
                j['ops'] = [dict(at=at, op='stop', state=rnd.choice(['ERROR', 'CANCELLED', 'SUCCESS']))]
            elif c == 4:
                for tag, oc in list(P.oracle.items()):
                    if oc and oc[-1] == 'err':
                        P.oracle[tag] = oc + ['ok']
                j['ops'] = [dict(at=300, op=('skip' if k % 10 == 9 else 'rerun'), reset=bool(k % 2), pick=k)]
                j['max_steps'] = 900
        return js
    if kind == 'pb':
        js = ec.random_jobs(rnd, n, schedulers=('default', 'legacy'), label=kind,
                            gen_kw=dict(partial_joins=False, p_join=1.0, p_retry=0.15, p_policy=0.3, p_cmd=0.0, p_err=0.25, p_pause=0.35, policy_on_joins=0.3))
        for j in js:
            npb = sum(1 for d in j['prog'].tasks.values() if d.get('pause-before'))
            ops = []
            for _ in range(npb + 1):
                if rnd.random() < 0.5:
                    ops.append(dict(at=10 ** 6, op='wait'))
                ops.append(dict(at=10 ** 6, op='resume'))
            j['ops'] = ops
            j['max_steps'] = 600
        return js
    if kind == 'rerun':
        gk = dict(partial_joins=True, p_join=0.7, p_items=(0.2 if seed % 2 else 0.0), p_retry=0.1, p_cmd=0.05, p_err=0.45)
        js = ec.random_jobs(rnd, n, schedulers=('default', 'legacy'), label=kind, gen_kw=gk)
        for k, j in enumerate(js):
            P = j['prog']
            for tag, oc in list(P.oracle.items()):
                if isinstance(oc, list) and oc and oc[-1] == 'err':
                    P.oracle[tag] = oc + [rnd.choice(['ok', 'ok', 'err'])]
                elif isinstance(oc, dict):
                    P.oracle[tag] = {i: (v + [rnd.choice(['ok', 'ok', 'err'])] if v[-1] == 'err' else v) for i, v in oc.items()}
            c = k % 5
            if c == 0:
                j['ops'] = [dict(at=300, op='rerun', reset=True, pick=k)]
            elif c == 1:
                j['ops'] = [dict(at=300, op='rerun', reset=False, pick=k)]
            elif c == 2:
                j['ops'] = [dict(at=300, op='skip', pick=k)]
            elif c == 3:
                j['ops'] = [dict(at=rnd.randint(8, 40), op='rerun', reset=bool(k % 2), pick=k), dict(at=300, op='rerun', reset=True, pick=k + 1)]
            else:
                j['ops'] = [dict(at=300, op='rerun', reset=True, pick=k), dict(rel=rnd.randint(0, 3), op='pause'), dict(at=10 ** 6, op='resume')]
            j['max_steps'] = 900
        return js
    if kind in ('retry', 'policy'):
        gk = dict(partial_joins=False, p_join=1.0, p_retry=0.35, p_policy=(0.4 if kind == 'policy' else 0.0), p_cmd=0.02, p_err=0.4, p_retry_expr=0.5)
        js = ec.random_jobs(rnd, n, schedulers=('default', 'legacy'), label=kind, gen_kw=gk)
        for k, j in enumerate(js):
            if k % 3 == 0:
                j['policy'] = 'time_races'
        return js
    base = ec.random_jobs(rnd, n, schedulers=('default', 'legacy'), label=kind, gen_kw=gk)
    out = []
    for k, j in enumerate(base):
        at = rnd.randint(1, 25)
        if kind == 'pause':
            j['ops'] = [dict(at=at, op='pause'), dict(at=at + rnd.randint(1, 12), op='resume')]
        elif kind == 'stop':
            j['ops'] = [dict(at=at, op='stop', state=rnd.choice(['ERROR', 'CANCELLED', 'SUCCESS']))]
        elif kind == 'dup':
            j['dups'] = 2
        elif kind == 'mix':
            c = k % 5
            if c == 0:
                j['ops'] = [dict(at=at, op='pause'), dict(at=at + 2, op='stop', state=rnd.choice(['ERROR', 'CANCELLED', 'SUCCESS']))]
            elif c == 1:
                j['ops'] = [dict(at=at, op='stop', state='CANCELLED'), dict(at=at + 3, op='resume')]
            elif c == 2:
                j['ops'] = [dict(at=at, op='pause'), dict(at=at + rnd.randint(1, 12), op='resume')]
                j['dups'] = 1
            elif c == 3:
                j['ops'] = [dict(at=at, op='pause'), dict(at=at + 3, op='resume'), dict(at=at + 6, op='pause'), dict(at=at + 9, op='resume')]
            else:
                j['ops'] = [dict(at=at, op='resume'), dict(at=at + 2, op='pause'), dict(at=at + 4, op='pause'), dict(at=at + 8, op='resume')]
        out.append(j)
    return out


def show(t, k, ctx=6):
    print(t['meta']['yaml'])
    print('oracle', {n: d['outcome'] for n, d in t['prog']['tasks'].items()})
    for i in range(max(0, k - ctx), min(len(t['steps']), k + 1)):
        e = t['steps'][i]['ev']
        print('%s%3d %s %s %s dup=%s exc=%s %s writes=%s' % ('>>' if i == k else '  ', i + 1, e['kind'], e['what'], e['phase'], e['dup'], e['exc'], e.get('arg', ''),
                                                          [(w['sid'][2:], w['frm'], w['to']) for w in e['writes']]))
    o = t['steps'][k]['obs'] if k < len(t['steps']) else t['steps'][-1]['obs']
    print('LOGGED after step %d:' % (k + 1))
    for w in o['wf']:
        print('  WF', w['sid'], w['state'], 'backlog', w['backlog'])
    for x in o['tk']:
        print('  TK', x['name'], x['state'], x['next'], 'proc', x['processed'], 'eh', x['errHandled'], 'retryNo', x.get('retryNo'), 'wi', x.get('wiCount'), x.get('wiCap'))
    for a in o['ax']:
        print('  AX', a['sid'], a['state'], 'acc', a['accepted'])
    print('  pend', o['pend'])


def main():
    kind = sys.argv[1] if len(sys.argv) > 1 else 'plain'
    n = int(sys.argv[2]) if len(sys.argv) > 2 else 40
    seed = int(sys.argv[3]) if len(sys.argv) > 3 else 1
    d = common.builddir('devstrict', clean=True)
    traces = engcheck.run_jobs(jobs_for(kind, n, seed))
    errs = [t for t in traces if 'error' in t]
    if errs:
        print(errs[0]['error'])
        return 2
    scope = [t for t in traces if engmodel.in_scope(t)]
    print('%d runs, %d in scope' % (len(traces), len(scope)))
    acc, reached, st, tr = engmodel.strict_validate(d, scope)
    rej = [i for i in range(len(scope)) if i not in acc]
    print('accepted %d / %d   (states %d)' % (len(acc), len(scope), st))
    hist = {}
    for i in rej:
        t = scope[i]
        k = reached.get(i, 0)
        e = t['steps'][k]['ev'] if k < len(t['steps']) else {}
        key = '%s:%s/%s dup=%s' % (e.get('kind'), e.get('what'), e.get('phase'), e.get('dup'))
        hist[key] = hist.get(key, 0) + 1
    print('rejections by next event:', hist)
    if rej:
        i = min(rej, key=lambda i_: len(scope[i_]['steps']))
        t = scope[i]
        k = reached.get(i, 0)
        show(t, k)
        acc2, r2, _, _ = engmodel.strict_validate(d, [t], tag='dbg', dump=True)
        out = open(os.path.join(d, 'strict_dbg_0.out')).read()
        sts = [m for m in re.finditer(r'<<\s*"state",\s*1,\s*(\d+),', out) if int(m.group(1)) == k]
        print('MODEL states at position %d: %d' % (k, len(sts)))
        for m in sts[:3]:
            j = (re.search(r'<<\s*"state"', out[m.end():]).start() + m.end()) if re.search(r'<<\s*"state"', out[m.end():]) else -1
            print(out[m.start():j if j > 0 else m.start() + 3000][:3000])
        json.dump(t, open(os.path.join(d, 'rejected.json'), 'w'))
    return 0


if __name__ == '__main__':
    sys.exit(main())
