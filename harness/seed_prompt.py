"""Generate the prompt for a bug-seeding sub-agent: python -m harness.seed_prompt <Cxx> [suffix]
(creates /tmp/seedout/<name>/PROMPT.txt and the scratch worktree /tmp/seed/<name>)."""
import json
import os
import subprocess
import sys

T = '''You are helping to evaluate a verification effort for openstack/mistral (a workflow service). Your job is to act as a "bug seeder": produce ONE realistic change to the mistral source code that BREAKS the semantic property below while the code still imports/compiles and the existing test suite still passes.

Your scratch git worktree of the repository is at {wt} (detached HEAD). Work ONLY inside that directory (and {out}/ for your outputs). NEVER touch /repo or /verif, and do not read anything under /verif. There is no network. Python with all dependencies is /venv/bin/python; run it with the worktree as cwd so that `import mistral` resolves to your worktree (check with `cd {wt} && /venv/bin/python -c "import mistral; print(mistral.__file__)"`).

PROPERTY {pid}: {title}
Statement: {statement}
Quantified over: {qtext}
Relevant files (anchors): {files}
{extra}
Requirements for the change:
1. It modifies only non-test source files under mistral/ (not mistral/tests). Keep it small (typically 1-15 changed lines), the kind of plausible slip or "optimisation"/refactoring a developer could make. It must NOT be something that ordinary use would expose at once: it should need something specific to manifest - a particular interleaving / order of events, a crash or fault at a particular point, a multi-step sequence of operations, an unusual input or configuration, or two cooperating sites that each look fine alone.
2. The existing test suite must still pass with the change. At minimum run the relevant test directories, and then the full suite: `cd {wt} && /venv/bin/python -m pytest -q -p no:cacheprovider --timeout=900 -n 3 mistral/tests 2>&1 | tail -15` (the full suite has 1682 tests and takes ~10-15 minutes; run it in the foreground with a long timeout; do not use -x: two pre-existing collection errors named test_func in mistral/tests/unit/lang/v2 exist on the unmodified code too and are not failures). If tests fail because of your change, pick a different/subtler change. (A few tests may be flaky irrespective of your change; re-run a failing test with your change reverted to tell.)
3. Write a demonstration: a standalone pytest file at {out}/demo_test.py (NOT inside mistral/tests of the worktree - keep it outside, and run it with cwd={wt}) that FAILS with your change applied and PASSES on the unmodified code, and that shows the property itself being violated (not merely an internal detail changing). You may base it on the repository's test base classes (e.g. mistral.tests.unit.engine.base.EngineTestCase, mistral.tests.unit.base.DbTestCase). Verify both directions yourself: toggle the change with `git diff > {out}/p.diff; git apply -R {out}/p.diff` and `git apply {out}/p.diff` - NEVER use `git stash`: the stash is shared by all worktrees of this repository and other agents are working in sibling worktrees.
4. Save the change as a unified diff: `cd {wt} && git diff > {out}/patch.diff`. Leave the change applied in the worktree when you finish.
5. Write {out}/meta.json with keys: property ("{pid}"), summary (what the change does), manifests_when (what specific schedule/input/sequence is needed for it to show), files_changed, how_demo_run (exact command), tests_run (what you ran and the result).

If your first idea gets caught by existing tests, try another. Prefer changes in the mechanism files listed above. Do not commit anything. Final answer: a short report with the diff, why it breaks the property, what it needs to manifest, and the test results in both directions.'''


def main():
    pid = sys.argv[1]
    suffix = sys.argv[2] if len(sys.argv) > 2 else ''
    extra = sys.argv[3] if len(sys.argv) > 3 else ''
    name = pid + suffix
    props = {json.loads(l)['id']: json.loads(l) for l in open('/verif/properties.jsonl')}
    p = props[pid]
    wt = '/tmp/seed/' + name
    out = '/tmp/seedout/' + name
    os.makedirs(out, exist_ok=True)
    if not os.path.isdir(wt):
        subprocess.check_call(['git', '-C', '/repo', 'worktree', 'add', '--detach', wt, 'HEAD', '-q'])
    s = T.format(wt=wt, out=out, pid=pid, title=p['title'], statement=p['statement'], qtext=p['quantifier']['text'],
                 files=', '.join(p['anchors']['files']), extra=('\n' + extra + '\n') if extra else '')
    open(out + '/PROMPT.txt', 'w').write(s)
    print(out + '/PROMPT.txt')


if __name__ == '__main__':
    main()
