"""Projection of the committed database rows to the observable state of the engine specs
(DESIGN section 4.2).  Identifiers are structural:
   workflow execution  "r" (root) or "<task sid>@<index>.<n>"
   task execution      "<wf sid>/<task name>#<k>"       k-th execution of that name in that workflow
   action execution    "<task sid>@<index>.<n>"         n-th execution for that item index
"""
import json

from harness import mdb


def _j(v):
    if v is None:
        return None
    if isinstance(v, (bytes, str)):
        try:
            return json.loads(v)
        except ValueError:
            return v
    return v


def _vt(s):
    import datetime
    from harness import world as _w
    if isinstance(s, str):
        s = datetime.datetime.strptime(s.split('.')[0], '%Y-%m-%d %H:%M:%S')
    return int((s - _w.BASE).total_seconds())


def canon(v):
    return json.dumps(v, sort_keys=True, default=str)


def project(world=None):
    wfs = mdb.raw_rows('select rowid, id, name, state, state_info, output, task_execution_id, root_execution_id, params, '
                       'input, context, accepted, runtime_context, workflow_namespace, project_id, description '
                       'from workflow_executions_v2 order by rowid')
    tks = mdb.raw_rows('select rowid, id, name, workflow_execution_id, state, state_info, processed, has_next_tasks, next_tasks, '
                       'error_handled, in_context, published, runtime_context, unique_key, type '
                       'from task_executions_v2 order by rowid')
    axs = mdb.raw_rows('select rowid, id, name, task_execution_id, state, accepted, output, input, runtime_context, is_sync, '
                       'last_heartbeat from action_executions_v2 order by rowid')
    wf_by_id = {w[1]: w for w in wfs}
    tk_by_id = {t[1]: t for t in tks}
    wf_sid, tk_sid, ax_sid = {}, {}, {}
    # roots first, then breadth-first through the tree
    pending = [w for w in wfs]
    kcount = {}
    ncount = {}
    progressed = True
    done_wf = set()
    nroot = 0
    while pending and progressed:
        progressed = False
        rest = []
        for w in pending:
            parent_task = w[6]
            if parent_task is None:
                nroot += 1
                wf_sid[w[1]] = 'r' if nroot == 1 else 'r%d' % nroot
            elif parent_task in tk_sid:
                idx = (_j(w[12]) or {}).get('index', 0)
                key = (tk_sid[parent_task], idx)
                n = ncount.get(key, 0)
                ncount[key] = n + 1
                wf_sid[w[1]] = '%s@%d.%d' % (tk_sid[parent_task], idx, n)
            else:
                rest.append(w)
                continue
            progressed = True
            for t in tks:
                if t[3] == w[1] and t[1] not in tk_sid:
                    key = (wf_sid[w[1]], t[2])
                    k = kcount.get(key, 0)
                    kcount[key] = k + 1
                    tk_sid[t[1]] = '%s/%s#%d' % (wf_sid[w[1]], t[2], k)
        pending = rest
    for a in axs:
        ts = tk_sid.get(a[3])
        if ts is None:
            continue
        idx = (_j(a[8]) or {}).get('index', 0)
        key = (ts, idx)
        n = ncount.get(key, 0)
        ncount[key] = n + 1
        ax_sid[a[1]] = '%s@%d.%d' % (ts, idx, n)
    idmap = {}
    idmap.update(wf_sid)
    idmap.update(tk_sid)
    idmap.update(ax_sid)
    import re as _re
    _uu = _re.compile(r'[0-9a-f]{8}-[0-9a-f]{4}-[0-9a-f]{4}-[0-9a-f]{4}-[0-9a-f]{12}')

    def scrub(text):
        # row ids inside messages / outputs are replaced by the structural ids (unknown uuids by a placeholder)
        if not isinstance(text, str) or '-' not in text:
            return text
        return _uu.sub(lambda m: idmap.get(m.group(0), '<id>'), text)

    out_wf = []
    for w in wfs:
        sid = wf_sid.get(w[1])
        if sid is None:
            continue
        rc = _j(w[12]) or {}
        params = _j(w[8]) or {}
        out_wf.append(dict(sid=sid, name=w[2], state=w[3], info=scrub((w[4] or ''))[:200], output=scrub(canon(_j(w[5]))),
                           parent=tk_sid.get(w[6], '') if w[6] else '', root=wf_sid.get(w[7], sid) if w[7] else sid,
                           inp=canon(_j(w[9])), accepted=bool(w[11]), idx=(rc.get('index', 0) or 0), backlog=len(rc.get('backlog_commands', []) or []),
                           ns=(params.get('namespace') if params.get('namespace') is not None else (w[13] or '')), env=canon(params.get('env')), project=w[14] or ''))
    out_tk = []
    for t in tks:
        sid = tk_sid.get(t[1])
        if sid is None:
            continue
        nxt = _j(t[8]) or []
        rc = _j(t[12]) or {}
        trig = [tk_sid.get(x, '?') for x in (rc.get('triggered_by') or []) if isinstance(x, str)] \
            if isinstance(rc.get('triggered_by'), list) and rc.get('triggered_by') and isinstance(rc.get('triggered_by')[0], str) \
            else [tk_sid.get((x or {}).get('task_id'), '?') for x in (rc.get('triggered_by') or []) if isinstance(x, dict)]
        out_tk.append(dict(sid=sid, wf=wf_sid[t[3]], name=t[2], state=t[4], info=scrub((t[5] or ''))[:200], processed=bool(t[6]),
                           hasNext=bool(t[7]), next=[n[0] if isinstance(n, (list, tuple)) else str(n) for n in nxt],
                           errHandled=bool(t[9]), inCtx=scrub(canon(_strip(_j(t[10])))), published=scrub(canon(_j(t[11]))),
                           trig=sorted(trig), isJoin=bool(t[13] and str(t[13]).startswith('join-task')),
                           retryNo=((rc.get('retry_task_policy') or {}).get('retry_no', 0) or 0),
                           wiCount=((rc.get('with_items') or {}).get('count', -1)),
                           wiCap=((rc.get('with_items') or {}).get('capacity', -1) if (rc.get('with_items') or {}).get('capacity') is not None else -1)))
    out_ax = []
    for a in axs:
        sid = ax_sid.get(a[1])
        if sid is None:
            continue
        rc = _j(a[8]) or {}
        out_ax.append(dict(sid=sid, task=tk_sid[a[3]], idx=rc.get('index', 0), state=a[4], accepted=bool(a[5]),
                           out=scrub(canon(_j(a[6]))), isSync=bool(a[9]), name=a[2],
                           probe=(canon((_j(a[7]) or {}).get('echo')) if isinstance(_j(a[7]), dict) and 'echo' in (_j(a[7]) or {}) else ''),
                           hb=(-1 if a[10] is None else _vt(a[10]))))
    ids = dict(wf={v: k for k, v in wf_sid.items()}, tk={v: k for k, v in tk_sid.items()}, ax={v: k for k, v in ax_sid.items()},
               wf_rev=wf_sid, tk_rev=tk_sid, ax_rev=ax_sid)
    return dict(wf=out_wf, tk=out_tk, ax=out_ax), ids


def _strip(ctx):
    """Drop the volatile / bulky parts of a data-flow context."""
    if not isinstance(ctx, dict):
        return ctx
    return {k: v for k, v in ctx.items() if k not in ('__execution', 'openstack', '__env', '__task_execution')}
