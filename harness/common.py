"""Shared infrastructure: paths, TLC driver, evidence writer, verdicts, known findings.

Every check is `./check <Cxx> --tier quick|thorough`; it imports mistral from the working
tree named by VERIF_REPO (default /repo), runs TLC on the specifications under spec/, binds
them to the real code, writes evidence/<id>.json and prints VIOLATION / KNOWN-FINDING lines.
"""
import hashlib
import json
import os
import re
import shutil
import subprocess
import sys
import time

VERIF = os.path.dirname(os.path.dirname(os.path.abspath(__file__)))
REPO = os.environ.get('VERIF_REPO', '/repo')
SPEC = os.path.join(VERIF, 'spec')
BUILD = os.environ.get('VERIF_BUILD', os.path.join(VERIF, 'build'))
EVID = os.environ.get('VERIF_EVID', os.path.join(VERIF, 'evidence'))
PY = '/venv/bin/python'
NCPU = int(os.environ.get('VERIF_WORKERS', str(min(16, os.cpu_count() or 4))))
TLA_CP = '/opt/veriftools/tla/tla2tools.jar:/opt/veriftools/tla/CommunityModules-deps.jar'


def seed():
    try:
        return int(os.environ.get('VERIF_SEED', '0'))
    except ValueError:
        return 0


def builddir(*parts, clean=False):
    d = os.path.join(BUILD, *parts)
    if clean and os.path.isdir(d):
        shutil.rmtree(d, ignore_errors=True)
    os.makedirs(d, exist_ok=True)
    return d


def put_spec(d, *relpaths):
    """Copy specification modules into a build directory atomically (several TLC runs may share the directory
    and read the modules while another thread installs them again)."""
    for rel in relpaths:
        src = os.path.join(SPEC, rel)
        dst = os.path.join(d, os.path.basename(rel))
        data = open(src, 'rb').read()
        try:
            if open(dst, 'rb').read() == data:
                continue
        except IOError:
            pass
        tmp = dst + '.%d.%s.tmp' % (os.getpid(), hashlib.md5(os.urandom(8)).hexdigest()[:6])
        with open(tmp, 'wb') as fh:
            fh.write(data)
        os.replace(tmp, dst)


class MachineryError(Exception):
    """The verification machinery itself failed (exit code 2); never a verdict."""


class TlcResult(object):
    def __init__(self, rc, out, wall):
        self.rc = rc
        self.out = out
        self.wall = wall
        self.generated = 0
        self.distinct = 0
        self.depth = 0
        m = re.findall(r'(\d+) states generated, (\d+) distinct states found', out)
        if m:
            self.generated, self.distinct = int(m[-1][0]), int(m[-1][1])
        m = re.search(r'The depth of the complete state graph search is (\d+)', out)
        if m:
            self.depth = int(m.group(1))
        self.finished = 'Model checking completed' in out or 'Finished in' in out
        self.inv_violations = re.findall(r'Invariant (\S+) is violated', out)
        self.prop_violations = re.findall(r'(?:Action|Temporal) property (\S+) (?:is|was) violated', out)
        if 'Temporal properties were violated' in out:
            self.prop_violations.append('temporal')
        self.deadlock = 'Deadlock reached' in out
        self.post_violated = 'ostcondition' in out and 'violated' in out
        self.errors = [l for l in out.splitlines()
                       if l.startswith('Error:') or 'Parsing or semantic analysis failed' in l
                       or 'TLC threw an unexpected exception' in l]
        # coverage per action (needs -coverage)
        self.coverage = {}
        for mm in re.finditer(r'^<(\w+) line \d+, col \d+ to line \d+, col \d+ of module (\w+)>: (\d+):(\d+)',
                              out, re.M):
            self.coverage[mm.group(1)] = self.coverage.get(mm.group(1), 0) + int(mm.group(4))

    @property
    def ok(self):
        return (self.rc == 0 and not self.inv_violations and not self.prop_violations
                and not self.deadlock and not self.post_violated)

    def printed(self):
        """Values printed by PrintT, one per line (possibly multi-line values joined)."""
        return self.out


def run_tlc(module_path, cfg_path=None, workers=None, simulate=None, depth=None, env=None,
            timeout=3600, coverage=False, dump=None, extra=None, deadlock=True, dfs=False,
            cont=False, metatag=None, seed_=None, heap=None):
    """Run TLC on module_path (a .tla file).  Returns TlcResult.  Raises MachineryError on
    parse errors / crashes / timeout so that a broken spec can never look like a verdict."""
    d = os.path.dirname(module_path)
    mod = os.path.basename(module_path)[:-4]
    meta = builddir('tlcmeta', (metatag or mod) + '_' + hashlib.md5(
        (module_path + str(cfg_path) + str(simulate) + str(os.getpid())).encode()).hexdigest()[:8], clean=True)
    jopts = ['-XX:+UseParallelGC']
    if heap:
        jopts.append('-Xmx%s' % heap)
    if dfs:
        jopts.append('-Dtlc2.tool.queue.IStateQueue=StateDeque')
    cmd = ['java'] + jopts + ['-cp', TLA_CP, 'tlc2.TLC', '-metadir', meta, '-noGenerateSpecTE']
    if cfg_path:
        cmd += ['-config', cfg_path]
    cmd += ['-workers', str(workers or NCPU)]
    if not deadlock:
        cmd += ['-deadlock']
    if coverage:
        cmd += ['-coverage', '1']
    if simulate:
        cmd += ['-simulate', simulate]
    if depth:
        cmd += ['-depth', str(depth)]
    if dump:
        cmd += ['-dump'] + dump
    if cont:
        cmd += ['-continue']
    if seed_ is not None:
        cmd += ['-seed', str(seed_)]
    if extra:
        cmd += extra
    cmd += [mod]
    e = dict(os.environ)
    if env:
        e.update(env)
    t0 = time.time()
    try:
        p = subprocess.run(cmd, cwd=d, env=e, stdout=subprocess.PIPE, stderr=subprocess.STDOUT,
                           timeout=timeout, text=True, errors='replace')
    except subprocess.TimeoutExpired as ex:
        shutil.rmtree(meta, ignore_errors=True)
        if simulate:
            out = ex.stdout if isinstance(ex.stdout, str) else (ex.stdout or b'').decode(errors='replace')
            r = TlcResult(0, out, time.time() - t0)
            return r
        raise MachineryError('TLC timeout after %ss on %s' % (timeout, mod))
    shutil.rmtree(meta, ignore_errors=True)
    r = TlcResult(p.returncode, p.stdout, time.time() - t0)
    if r.errors and not (r.inv_violations or r.prop_violations or r.deadlock or r.post_violated):
        raise MachineryError('TLC failed on %s:\n%s' % (mod, p.stdout[-4000:]))
    return r


def sany(path):
    p = subprocess.run(['java', '-cp', TLA_CP, 'tla2sany.SANY', os.path.basename(path)],
                       cwd=os.path.dirname(path), stdout=subprocess.PIPE, stderr=subprocess.STDOUT, text=True)
    bad = p.returncode != 0 or 'error' in p.stdout.lower().replace('errors: 0', '')
    return (not bad), p.stdout


# ---------------------------------------------------------------------------------------------
# TLA+ value rendering / parsing

def tla(v):
    """Render a Python value as a TLA+ expression."""
    if isinstance(v, bool):
        return 'TRUE' if v else 'FALSE'
    if isinstance(v, int):
        return str(v)
    if isinstance(v, str):
        return '"%s"' % v.replace('\\', '\\\\').replace('"', '\\"')
    if isinstance(v, (list, tuple)):
        return '<<' + ', '.join(tla(x) for x in v) + '>>'
    if isinstance(v, (set, frozenset)):
        return '{' + ', '.join(sorted(tla(x) for x in v)) + '}'
    if isinstance(v, dict):
        if not v:
            return '<<>>'
        if all(isinstance(k, str) and re.match(r'^[A-Za-z_][A-Za-z0-9_]*$', k) for k in v):
            return '[' + ', '.join('%s |-> %s' % (k, tla(x)) for k, x in v.items()) + ']'
        return '(' + ' @@ '.join('(%s :> %s)' % (tla(k), tla(x)) for k, x in v.items()) + ')'
    if v is None:
        return '"none"'
    raise TypeError('cannot render %r' % (v,))


class TlaParser(object):
    """Parser for TLC-printed values: ints, strings, TRUE/FALSE, sets, tuples, records,
    functions (a :> b @@ c :> d), model values."""

    def __init__(self, s):
        self.s = s
        self.i = 0

    def ws(self):
        while self.i < len(self.s) and self.s[self.i] in ' \t\r\n':
            self.i += 1

    def peek(self, t):
        self.ws()
        return self.s.startswith(t, self.i)

    def eat(self, t):
        self.ws()
        if not self.s.startswith(t, self.i):
            raise ValueError('expected %r at %d: %r' % (t, self.i, self.s[self.i:self.i + 40]))
        self.i += len(t)

    def value(self):
        v = self.atom()
        self.ws()
        if self.peek(':>'):
            d = {}
            while True:
                self.eat(':>')
                x = self.atom()
                d[_key(v)] = x
                if self.peek('@@'):
                    self.eat('@@')
                    v = self.atom()
                else:
                    break
            return d
        return v

    def atom(self):
        self.ws()
        s = self.s
        c = s[self.i]
        if c == '"':
            j = self.i + 1
            out = []
            while s[j] != '"':
                if s[j] == '\\':
                    j += 1
                out.append(s[j])
                j += 1
            self.i = j + 1
            return ''.join(out)
        if c == '<' and s.startswith('<<', self.i):
            self.eat('<<')
            items = []
            while not self.peek('>>'):
                items.append(self.value())
                if self.peek(','):
                    self.eat(',')
            self.eat('>>')
            return items
        if c == '{':
            self.eat('{')
            items = []
            while not self.peek('}'):
                items.append(self.value())
                if self.peek(','):
                    self.eat(',')
            self.eat('}')
            return items
        if c == '[':
            self.eat('[')
            d = {}
            while not self.peek(']'):
                self.ws()
                m = re.match(r'[A-Za-z_][A-Za-z0-9_]*', s[self.i:])
                k = m.group(0)
                self.i += len(k)
                self.eat('|->')
                d[k] = self.value()
                if self.peek(','):
                    self.eat(',')
            self.eat(']')
            return d
        if c == '(':
            self.eat('(')
            v = self.value()
            self.eat(')')
            return v
        m = re.match(r'-?\d+', s[self.i:])
        if m:
            self.i += len(m.group(0))
            return int(m.group(0))
        m = re.match(r'[A-Za-z_][A-Za-z0-9_]*', s[self.i:])
        if m:
            self.i += len(m.group(0))
            w = m.group(0)
            if w == 'TRUE':
                return True
            if w == 'FALSE':
                return False
            return w
        raise ValueError('cannot parse at %d: %r' % (self.i, s[self.i:self.i + 40]))


def _key(v):
    if isinstance(v, list):
        return tuple(_key(x) for x in v)
    return v


def parse_tla(s):
    return TlaParser(s).value()


# ---------------------------------------------------------------------------------------------
# Evidence, verdicts, known findings

def load_known_findings():
    p = os.path.join(VERIF, 'known_findings.jsonl')
    out = []
    if os.path.exists(p):
        for line in open(p):
            line = line.strip()
            if line and not line.startswith('#') and not line.startswith('fixed:'):
                out.append(json.loads(line))
    return out


class Verdict(object):
    """Collects violations for one property; prints the interface lines; computes exit code."""

    def __init__(self, pid):
        self.pid = pid
        self.violations = []     # (signature dict, message, replay path)
        self.known_hits = {}     # finding id -> count
        self.findings = [f for f in load_known_findings()
                         if (f.get('property') == pid or pid in f.get('also', [])) and f.get('status', 'open') == 'open']
        self.divergences = []
        self.notes = []
        self.other_clauses = {}

    def _match(self, sig):
        for f in self.findings:
            m = f.get('match', {})
            if m and all(sig.get(k) == v for k, v in m.items()):
                return f
        return None

    def violation(self, sig, message, replay_obj=None):
        """sig: dict describing the failing case structurally (clause, shape, ...)."""
        f = self._match(sig)
        if f is not None:
            self.known_hits[f['id']] = self.known_hits.get(f['id'], 0) + 1
            return 'known'
        h = hashlib.sha1(json.dumps(sig, sort_keys=True, default=str).encode()).hexdigest()[:12]
        rp = os.path.join(os.path.relpath(EVID, VERIF) if EVID.startswith(VERIF) else EVID, 'replays', self.pid, h + '.json')
        os.makedirs(os.path.join(VERIF, os.path.dirname(rp)), exist_ok=True)
        with open(os.path.join(VERIF, rp), 'w') as fh:
            json.dump({'property': self.pid, 'signature': sig, 'message': message,
                       'replay': replay_obj}, fh, indent=1, default=str)
        if not any(v[2] == rp for v in self.violations):
            self.violations.append((sig, message, rp))
        return 'violation'

    def divergence(self, msg):
        self.divergences.append(msg)

    def finish(self):
        for f in self.findings:
            n = self.known_hits.get(f['id'], 0)
            if n:
                print('KNOWN-FINDING: property=%s %s [%s, %d case(s) this run]' % (self.pid, f['what'], f['id'], n))
        for d in self.divergences[:20]:
            print('DIVERGENCE property=%s %s' % (self.pid, d))
        for sig, msg, rp in self.violations:
            print('VIOLATION property=%s replay=%s' % (self.pid, rp))
            print('  clause=%s %s' % (sig.get('clause'), msg))
        return 1 if self.violations else 0


def write_evidence(pid, tier, level, coverage, wall, violations, assumptions=None):
    os.makedirs(EVID, exist_ok=True)
    ev = {
        'property_id': pid,
        'tier': tier,
        'seed': seed(),
        'level': level,
        'coverage': coverage,
        'assumptions': assumptions or [],
        'wall_s': round(wall, 2),
        'violations': violations,
    }
    tmp = os.path.join(EVID, pid + '.json.tmp')
    with open(tmp, 'w') as fh:
        json.dump(ev, fh, indent=1, default=str)
    os.replace(tmp, os.path.join(EVID, pid + '.json'))
    return ev


def use_repo():
    """Make `import mistral` resolve to the working tree under test."""
    if REPO not in sys.path:
        sys.path.insert(0, REPO)
    os.environ.setdefault('MISTRAL_VERIF', '1')
    import logging
    import warnings
    logging.disable(logging.CRITICAL)
    warnings.filterwarnings('ignore')
    os.chdir(builddir('cwd'))
