#!/bin/bash
# seedsweep.sh "<seeds>" "<checks>" [tier] : run checks under several seeds (evidence and replays kept under
# /tmp/sw/<seed>, never in /verif/evidence), print one line per run + violation clauses
tier=${3:-quick}
for s in $1; do for c in $2; do
  out=$(VERIF_SEED=$s VERIF_EVID=/tmp/sw/$s VERIF_BUILD=/tmp/swb_$$ ./check $c --tier $tier 2>&1)
  rc=$?
  echo "seed=$s $c exit=$rc $(echo "$out" | grep "^$c " | cut -c1-260)"
  echo "$out" | grep "^VIOLATION" | head -6
  echo "$out" | grep "clause=" | cut -c1-260 | head -6
  echo "$out" | grep "MACHINERY" | head -2
done; done
rm -rf /tmp/swb_$$
