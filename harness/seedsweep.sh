#!/bin/bash
# seedsweep.sh "<seeds>" "<checks>" : run quick checks under several seeds, print one line per run + violation clauses
for s in $1; do for c in $2; do
  out=$(VERIF_SEED=$s VERIF_EVID=/tmp/sweep_evid_$$ VERIF_BUILD=/tmp/sweep_build_$$ ./check $c --tier quick 2>&1)
  rc=$?
  echo "seed=$s $c exit=$rc $(echo "$out" | grep "^$c " | cut -c1-220)"
  echo "$out" | grep "clause=" | cut -c1-260 | head -6
  echo "$out" | grep "MACHINERY" | head -2
done; done
rm -rf /tmp/sweep_evid_$$ /tmp/sweep_build_$$
