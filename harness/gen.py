"""Workflow generator (DESIGN section 4.3).  For every generated program it emits the YAML given to
mistral and the abstract definition given to the TLA+ specifications (graph, guard truth values by
construction, oracle).  Seeded; size bounded; features switchable per property."""
import json
import random


def _expr_true(rnd, inp):
    return rnd.choice(['<% $.gt %>', '<% $.gt = true %>', '{{ _.gt }}', '<% 1 = 1 %>'])


def _expr_false(rnd, inp):
    return rnd.choice(['<% $.gf %>', '<% $.gt = false %>', '{{ _.gf }}', '<% 1 = 2 %>'])


class Program(object):
    def __init__(self):
        self.name = 'wf'
        self.type = 'direct'
        self.tasks = {}       # name -> dict
        self.order = []
        self.input = {'gt': True, 'gf': False}
        self.oracle = {}
        self.flags = {}
        self.subs = {}        # name -> Program (sub-workflows)
        self.target = None
        self.output = None

    # -- YAML ------------------------------------------------------------------------------
    def start_params(self):
        return {'task_name': self.target} if self.type == 'reverse' else {}

    def yaml(self, part='all'):
        """part: 'all' | 'root' | 'subs' (the root may live in another namespace than its sub-workflows)."""
        out = ["version: '2.0'", '']
        items = [(self.name, self)] + sorted(self.subs.items())
        if part == 'root':
            items = items[:1]
        elif part == 'subs':
            items = items[1:]
        if part == 'decoys':
            # standalone workflows with the short names of the workbook's sub-workflows: they must never be called
            for nm, p in items[1:]:
                out += ['%s:' % nm, '  type: direct', '  tasks:', '    decoy_%s:' % nm, '      action: verif.act tag="decoy_%s"' % nm, '']
            return '\n'.join(out) + '\n'
        if self.flags.get('wb') and part == 'all':
            # the whole program as ONE workbook: workflows call each other by their workbook-relative short names
            out += ['name: %s' % self.flags['wb'], 'workflows:']
            for nm, p in items:
                out += ['  ' + line if line else line for line in p._yaml_wf(nm)]
            return '\n'.join(out) + '\n'
        for nm, p in items:
            out += p._yaml_wf(nm)
        return '\n'.join(out) + '\n'

    def _yaml_wf(self, nm):
        L = ['%s:' % nm, '  type: %s' % self.type]
        L.append('  input:')
        for k, v in sorted(self.input.items()):
            L.append('    - %s: %s' % (k, json.dumps(v)))
        if self.output:
            L.append('  output:')
            for k, v in sorted(self.output.items()):
                L.append('    %s: %s' % (k, json.dumps(v)))
        L.append('  tasks:')
        for t in self.order:
            d = self.tasks[t]
            L.append('    %s:' % t)
            kind = d.get('kind', 'action')
            if kind == 'action':
                extra = ''
                if d.get('with_items') is not None:
                    extra = ' i=<% $.it %>'
                L.append('      action: verif.act tag="%s"%s' % (d.get('tag', t), extra))
            elif kind == 'noop':
                L.append('      action: std.noop')
            elif kind == 'fail':
                L.append('      action: std.fail')
            elif kind == 'workflow':
                L.append('      workflow: %s' % d['workflow'])
            if d.get('with_items') is not None:
                L.append('      with-items: it in <%% list(range(0, %d)) %%>' % d['with_items'])
                if d.get('concurrency') is not None:
                    L.append('      concurrency: %s' % d['concurrency'])
            if d.get('join'):
                j = d['join']
                L.append('      join: %s' % ('all' if j == -1 else ('one' if j == 1 and d.get('join_one_word') else j)))
            if d.get('requires'):
                L.append('      requires: [%s]' % ', '.join(d['requires']))
            if d.get('retry'):
                r = d['retry']
                L.append('      retry:')
                L.append('        count: %s' % r['count'])
                L.append('        delay: %s' % r.get('delay', 0))
                # (the expressions read the workflow input: gt is true, gf is false)
                for key in ('continue-on', 'break-on'):
                    if r.get(key) is not None:
                        L.append('        %s: <%% $.%s %%>' % (key, 'gt' if r[key] else 'gf'))
            for pol in ('wait-before', 'wait-after', 'timeout'):
                if d.get(pol) is not None:
                    L.append('      %s: %s' % (pol, d[pol] if not d.get('pol_expr') else '<%% %d %%>' % d[pol]))
            if d.get('pause-before'):
                L.append('      pause-before: true')
            if d.get('fail-on'):
                L.append('      fail-on: <% true %>')
            if d.get('publish'):
                L.append('      publish:')
                for k, v in sorted(d['publish'].items()):
                    L.append('        %s: %s' % (k, json.dumps(v)))
            for clause, key in (('on-success', 'succ'), ('on-error', 'err'), ('on-complete', 'comp')):
                edges = d.get(key) or []
                if edges:
                    L.append('      %s:' % clause)
                    for e in edges:
                        if e.get('expr'):
                            L.append('        - %s: %s' % (e['to'], json.dumps(e['expr'])))
                        else:
                            L.append('        - %s' % e['to'])
        L.append('')
        return L

    # -- abstract definition for TLA+ -------------------------------------------------------------
    def abstract(self):
        tasks = {}
        inbound = {}
        order = []
        for P in [self] + [v for k, v in sorted(self.subs.items())]:
            for t in P.order:
                d = P.tasks[t]
                ed = lambda key: [{'to': e['to'], 'fires': bool(e.get('fires', True))} for e in (d.get(key) or [])]
                oc = self.oracle.get(d.get('tag', t), ['ok'])
                if isinstance(oc, dict):
                    n = d.get('with_items') or 0
                    oc = [list(oc.get(i, oc.get('*', ['ok']))) for i in range(n)]
                    flat = False
                else:
                    oc = [list(oc)]
                tasks[t] = dict(kind=d.get('kind', 'action'), join=d.get('join', 0), succ=ed('succ'), err=ed('err'), comp=ed('comp'),
                                requires=list(d.get('requires') or []), outcome=oc, wf=P.name, sub=d.get('workflow', ''),
                                items=(d['with_items'] if d.get('with_items') is not None else -1),
                                conc=(d['concurrency'] if d.get('concurrency') is not None else 0),
                                retry=((d.get('retry') or {}).get('count', 0)), delay=((d.get('retry') or {}).get('delay', 0)),
                                contOn={None: 'none', True: 'true', False: 'false'}[(d.get('retry') or {}).get('continue-on')],
                                breakOn={None: 'none', True: 'true', False: 'false'}[(d.get('retry') or {}).get('break-on')],
                                waitBefore=(d.get('wait-before') or 0), waitAfter=(d.get('wait-after') or 0),
                                timeout=(d.get('timeout') or 0), pauseBefore=bool(d.get('pause-before')), failOn=bool(d.get('fail-on')))
                inbound[t] = sorted(set(s for s in P.order for key in ('succ', 'err', 'comp')
                                        for e in (P.tasks[s].get(key) or []) if e['to'] == t))
                order.append(t)
        if self.flags.get('wb') and self.subs:
            # the decoy workflows (standalone, same short names): known to the definition so that a run that wrongly
            # calls one is judged (clause CalledDefinition) instead of being unreadable
            for nm in sorted(self.subs):
                tasks['decoy_%s' % nm] = dict(kind='action', join=0, succ=[], err=[], comp=[], requires=[], outcome=[['ok']], wf='decoy:%s' % nm,
                                              sub='', items=-1, conc=0, retry=0, delay=0, contOn='none', breakOn='none', waitBefore=0, waitAfter=0, timeout=0,
                                              pauseBefore=False, failOn=False)
                inbound['decoy_%s' % nm] = []
        closure = []
        if self.type == 'reverse' and self.target:
            todo = [self.target]
            while todo:
                x = todo.pop()
                if x not in closure:
                    closure.append(x)
                    todo += list(self.tasks[x].get('requires') or [])
        return dict(name=self.name, type=self.type, order=order, tasks=tasks, inbound=inbound,
                    target=self.target or '', closure=sorted(closure), flags=dict(self.flags, _=0),
                    wbprefix=(self.flags['wb'] + '.') if self.flags.get('wb') else '')


CMDS = ['fail', 'succeed', 'noop']


def gen_direct(rnd, n=None, partial_joins=True, p_publish=0.0, p_sub=0.0, p_items=0.0, p_retry=0.0, p_policy=0.0, p_join=0.9, p_join1=0.2, p_err=0.3, p_guard=0.3, p_cmd=0.15, p_comp=0.2, allow_cmd=True, max_out=2, p_pause=0.0, cmds=None, policy_on_joins=1.0, p_retry_expr=0.0):
    """Random direct DAG: edges go forward in the task order; a task with >= 2 inbound edges is a
    join (all / one / N) with probability p_join (otherwise it runs once per trigger)."""
    P = Program()
    n = n or rnd.randint(2, 6)
    names = ['t%d' % i for i in range(n)]
    P.order = names
    for t in names:
        P.tasks[t] = {'kind': 'action', 'succ': [], 'err': [], 'comp': []}
    inbound = {t: set() for t in names}
    racy_cmd = False
    for i, t in enumerate(names):
        later = names[i + 1:]
        d = P.tasks[t]
        # outcome
        P.oracle[t] = [rnd.choices(['ok', 'err'], [1 - p_err, p_err])[0]]
        if not later:
            continue
        nout = rnd.randint(0, max_out) if i > 0 else rnd.randint(1, max_out)
        for _ in range(nout):
            key = rnd.choices(['succ', 'err', 'comp'], [0.6, 0.25, p_comp])[0]
            if allow_cmd and rnd.random() < p_cmd:
                to = rnd.choice(cmds or CMDS)
            else:
                to = rnd.choice(later)
            if any(e['to'] == to for e in d[key]):
                continue
            e = {'to': to}
            if rnd.random() < p_guard:
                fires = rnd.random() < 0.5
                e['fires'] = fires
                e['expr'] = _expr_true(rnd, P.input) if fires else _expr_false(rnd, P.input)
            d[key].append(e)
            if to in inbound:
                inbound[to].add(t)
            elif to in ('fail', 'succeed'):
                racy_cmd = True
            elif to == 'pause':
                P.flags['pause'] = True
    # every task except t0 needs an inbound edge, else it is a start task (fine: parallel starts)
    multi = False
    for t in names:
        if len(inbound[t]) >= 2:
            if rnd.random() < p_join:
                k = rnd.choice([-1, -1, 1, min(2, len(inbound[t]))]) if partial_joins else -1
                P.tasks[t]['join'] = k
                if k != -1 and k < len(inbound[t]):
                    P.flags['partial_join'] = True
            else:
                multi = True
        elif len(inbound[t]) == 1 and rnd.random() < p_join1:
            P.tasks[t]['join'] = -1          # a join with a single inbound branch is legal, and nests
    P.flags['multi_trigger'] = multi
    P.flags['cmd'] = racy_cmd
    nsub = 0
    for t in names:
        d = P.tasks[t]
        r = rnd.random()
        if r < p_sub:
            nsub += 1
            sn = 'sub%d' % nsub
            S = Program()
            S.name = sn
            k = rnd.randint(1, 2)
            S.order = ['%sx%d' % (sn, i) for i in range(k)]
            for i, st in enumerate(S.order):
                S.tasks[st] = {'kind': 'action', 'succ': ([{'to': S.order[i + 1]}] if i + 1 < k else []), 'err': [], 'comp': []}
                P.oracle[st] = [rnd.choices(['ok', 'err'], [0.75, 0.25])[0]]
            P.subs[sn] = S
            # depth 2: the sub-workflow may itself call a leaf sub-workflow
            if rnd.random() < 0.4:
                ln = sn + 'leaf'
                L2 = Program()
                L2.name = ln
                L2.order = [ln + 'x0']
                L2.tasks[ln + 'x0'] = {'kind': 'action', 'succ': [], 'err': [], 'comp': []}
                P.oracle[ln + 'x0'] = [rnd.choices(['ok', 'err'], [0.8, 0.2])[0]]
                P.subs[ln] = L2
                S.tasks[S.order[-1]]['kind'] = 'workflow'
                S.tasks[S.order[-1]]['workflow'] = ln
            d['kind'] = 'workflow'
            d['workflow'] = sn
            P.flags['sub'] = True
            if rnd.random() < p_items:
                d['with_items'] = rnd.randint(0, 3)
        elif r < p_sub + p_items:
            n_it = rnd.randint(0, 4)
            d['with_items'] = n_it
            if rnd.random() < 0.6:
                d['concurrency'] = rnd.randint(1, max(1, n_it + 1))
            P.oracle[t] = {i: [rnd.choices(['ok', 'err'], [0.8, 0.2])[0]] for i in range(n_it)}
            P.flags['items'] = True
        elif r < p_sub + p_items + p_retry and (not d.get('join') or rnd.random() < policy_on_joins):
            c = rnd.randint(1, 2)
            d['retry'] = {'count': c, 'delay': rnd.choice([0, 1])}
            if rnd.random() < p_retry_expr:
                d['retry'][rnd.choice(['continue-on', 'break-on'])] = rnd.choice([True, False])
                if rnd.random() < 0.3:
                    d['retry'].setdefault('continue-on', rnd.choice([True, False]))
                    d['retry'].setdefault('break-on', rnd.choice([True, False]))
            P.oracle[t] = [rnd.choice(['ok', 'err']) for _ in range(c + 1)]
            P.flags['retry'] = True
        if rnd.random() < p_publish and d.get('kind', 'action') == 'action' and d.get('with_items') is None:
            # each task publishes its own variable (no two publishers of one variable: conflict-free class)
            d['publish'] = {'v_%s' % t: '<% task().result %>', 'k_%s' % t: 'lit:%s' % t}
            P.flags['publish'] = True
        if rnd.random() < p_policy and (not d.get('join') or rnd.random() < policy_on_joins):
            pol = rnd.choice(['wait-before', 'wait-after', 'timeout', 'timeout', 'fail-on'])
            if pol == 'fail-on':
                d['fail-on'] = True
            else:
                d[pol] = rnd.choice([1, 2, 3])
                d['pol_expr'] = rnd.random() < 0.3
            P.flags['policy'] = True
        if p_pause and rnd.random() < p_pause and not d.get('join'):
            # pause-before, alone or on top of the policy chosen above (the documented order: pause first, then wait)
            if rnd.random() < 0.5 and not any(d.get(k) for k in ('wait-before', 'wait-after', 'timeout', 'fail-on', 'retry')):
                d['wait-before'] = rnd.choice([1, 2])
            d['pause-before'] = True
            P.flags['policy'] = True
            P.flags['pause'] = True
    return P


def gen_reverse(rnd, n=None, p_err=0.2):
    """Random reverse workflow: a requires-DAG and a target task; tasks outside the target's
    closure must not run."""
    P = Program()
    P.type = 'reverse'
    n = n or rnd.randint(2, 6)
    names = ['r%d' % i for i in range(n)]
    P.order = names
    for i, t in enumerate(names):
        req = [x for x in names[:i] if rnd.random() < 0.45]
        P.tasks[t] = {'kind': 'action', 'requires': req}
        P.oracle[t] = [rnd.choices(['ok', 'err'], [1 - p_err, p_err])[0]]
    P.target = rnd.choice(names[n // 2:])
    return P


def wide_shapes():
    """Shapes that are too wide for the exhaustive budgets of every check (18 M states without any budget) - run on the real engine
    under every policy, model-checked in the thorough tier of C04 only: two parallel tasks that each feed the same TWO joins (one
    completion affects two existing joins at once), with and without a third join behind them."""
    out = []
    P = Program()
    P.order = ['a', 'b', 'j1', 'j2']
    P.tasks = {'a': {'succ': [{'to': 'j1'}, {'to': 'j2'}]}, 'b': {'succ': [{'to': 'j1'}, {'to': 'j2'}]}, 'j1': {'join': -1}, 'j2': {'join': -1}}
    out.append(('two_joins', P))
    P = Program()
    P.order = ['a', 'b', 'j1', 'j2', 'j3']
    P.tasks = {'a': {'succ': [{'to': 'j1'}, {'to': 'j2'}]}, 'b': {'succ': [{'to': 'j1'}, {'to': 'j2'}]}, 'j1': {'join': -1, 'succ': [{'to': 'j3'}]},
               'j2': {'join': -1, 'succ': [{'to': 'j3'}]}, 'j3': {'join': -1}}
    out.append(('two_joins_then_one', P))
    return out


def reverse_catalogue():
    """Small reverse workflows: a chain, a diamond of requirements, a failing dependency, a task outside the target's closure."""
    out = []

    def prog(reqs, target, oracle=None):
        P = Program()
        P.type = 'reverse'
        P.order = list(reqs)
        P.tasks = {t: {'kind': 'action', 'requires': list(r)} for t, r in reqs.items()}
        P.oracle = {t: ['ok'] for t in reqs}
        P.oracle.update(oracle or {})
        P.target = target
        return P
    out.append(('rev_chain', prog({'r0': [], 'r1': ['r0'], 'r2': ['r1']}, 'r2')))
    out.append(('rev_diamond', prog({'r0': [], 'r1': ['r0'], 'r2': ['r0'], 'r3': ['r1', 'r2']}, 'r3')))
    out.append(('rev_diamond_err', prog({'r0': [], 'r1': ['r0'], 'r2': ['r0'], 'r3': ['r1', 'r2']}, 'r3', {'r1': ['err', 'ok']})))
    out.append(('rev_outside', prog({'r0': [], 'r1': [], 'r2': ['r0'], 'r3': ['r2', 'r1']}, 'r2')))
    out.append(('rev_two_roots', prog({'r0': [], 'r1': [], 'r2': ['r0', 'r1']}, 'r2', {'r0': ['err', 'ok']})))
    return out


def diamond(join=-1, outcomes=None, err_route=False):
    """a -> (b, c) -> j(join)."""
    P = Program()
    P.order = ['a', 'b', 'c', 'j']
    P.tasks = {'a': {'succ': [{'to': 'b'}, {'to': 'c'}]}, 'b': {'succ': [{'to': 'j'}]}, 'c': {'succ': [{'to': 'j'}]},
               'j': {'join': join}}
    if err_route:
        P.tasks['c']['err'] = [{'to': 'j'}]
    for t, o in (outcomes or {}).items():
        P.oracle[t] = [o]
    return P


def policy_catalogue():
    """Small shapes with task policies (model-checked exhaustively by C08 and run on the real engine)."""
    out = []

    def prog(order, tasks, oracle):
        P = Program()
        P.order = list(order)
        P.tasks = {k: dict({'kind': 'action', 'succ': [], 'err': [], 'comp': []}, **v) for k, v in tasks.items()}
        P.oracle = dict(oracle)
        P.flags = {'retry': True, 'policy': True}
        return P
    for joined in (False, True):
        for last in ('ok', 'err'):
            for delay in (0, 1):
                t = {'a': {'succ': [{'to': 'j'}]}, 'b': {'succ': ([{'to': 'j'}] if joined else [])},
                     'j': {'retry': {'count': 2, 'delay': delay}, 'succ': [{'to': 'z'}]}, 'z': {}}
                if joined:
                    t['j']['join'] = -1
                out.append(('retry2_%s_%s_d%d' % ('join' if joined else 'plain', last, delay),
                            prog(['a', 'b', 'j', 'z'], t, {'j': ['err', 'err', last]})))
    # continue-on / break-on (constant expressions): a failing attempt with continue-on false or break-on true is not repeated, a
    # successful one with continue-on true is
    for nm, r, oc in (('retry_cont_false_err', {'count': 2, 'delay': 0, 'continue-on': False}, ['err', 'ok', 'ok']),
                      ('retry_cont_true_ok', {'count': 2, 'delay': 0, 'continue-on': True}, ['ok', 'err', 'ok']),
                      ('retry_break_true_err', {'count': 2, 'delay': 1, 'break-on': True}, ['err', 'ok', 'ok']),
                      ('retry_break_false_err', {'count': 2, 'delay': 0, 'break-on': False}, ['err', 'err', 'ok']),
                      ('retry_cont_true_break_true', {'count': 2, 'delay': 0, 'continue-on': True, 'break-on': True}, ['ok', 'err', 'ok'])):
        out.append((nm, prog(['a', 'z'], {'a': {'retry': r, 'succ': [{'to': 'z'}], 'err': [{'to': 'z'}]}, 'z': {}}, {'a': oc})))
    # pause-before (alone / with wait-before and timeout): the execution pauses before the task, the operator resumes it;
    # fail-on (alone / with retry)
    out.append(('pause_before_plain', prog(['a', 'b'], {'a': {'succ': [{'to': 'b'}]}, 'b': {'pause-before': True}}, {})))
    out.append(('pause_before_wait_timeout', prog(['a', 'b'], {'a': {'pause-before': True, 'wait-before': 1, 'timeout': 3, 'succ': [{'to': 'b'}]}, 'b': {}}, {})))
    out.append(('fail_on_plain', prog(['a', 'b'], {'a': {'fail-on': True, 'succ': [{'to': 'b'}], 'err': [{'to': 'b'}]}, 'b': {}}, {})))
    out.append(('fail_on_retry', prog(['a', 'b'], {'a': {'fail-on': True, 'retry': {'count': 1, 'delay': 0}, 'succ': [{'to': 'b'}]}, 'b': {}}, {'a': ['ok', 'ok']})))
    out.append(('wait_before_timeout_late', prog(['a', 'b'], {'a': {'wait-before': 2, 'timeout': 3, 'succ': [{'to': 'b'}]}, 'b': {}}, {})))
    out.append(('wait_before_timeout_early', prog(['a', 'b'], {'a': {'wait-before': 3, 'timeout': 2, 'succ': [{'to': 'b'}], 'err': [{'to': 'b'}]}, 'b': {}}, {})))
    out.append(('wait_after_ok', prog(['a', 'b'], {'a': {'wait-after': 2, 'succ': [{'to': 'b'}]}, 'b': {}}, {})))
    out.append(('wait_after_err_retry', prog(['a', 'b'], {'a': {'wait-after': 1, 'retry': {'count': 1, 'delay': 1}, 'err': [{'to': 'b'}]}, 'b': {}},
                                             {'a': ['err', 'ok']})))
    out.append(('timeout_retry', prog(['a', 'b'], {'a': {'timeout': 2, 'retry': {'count': 1, 'delay': 1}, 'succ': [{'to': 'b'}]}, 'b': {}}, {'a': ['ok', 'ok']})))
    out.append(('wait_after_join', prog(['a', 'b', 'j'], {'a': {'succ': [{'to': 'j'}]}, 'b': {'succ': [{'to': 'j'}]}, 'j': {'join': -1, 'wait-after': 1}}, {})))
    return out


def long_branch_shapes(length=6):
    """A join fed by a branch of `length` tasks (b1 -> ... -> bN -> j) and by a short branch (c -> j); the long branch
    breaks at position k (the task fails without an on-error route, or its transition is guarded by a false condition),
    for every k: the join must fail (its route became impossible), however far upstream the break is."""
    out = []
    for k in range(1, length + 1):
        for how in ('err', 'guard'):
            P = Program()
            bs = ['b%d' % i for i in range(1, length + 1)]
            P.order = bs + ['c', 'j']
            P.tasks = {}
            for i, b in enumerate(bs):
                to = bs[i + 1] if i + 1 < length else 'j'
                e = {'to': to}
                if how == 'guard' and i + 1 == k:
                    e.update(fires=False, expr='<% 1 = 2 %>')
                P.tasks[b] = {'succ': [e], 'err': [], 'comp': []}
            P.tasks['c'] = {'succ': [{'to': 'j'}], 'err': [], 'comp': []}
            P.tasks['j'] = {'join': -1, 'succ': [], 'err': [], 'comp': []}
            if how == 'err':
                P.oracle = {'b%d' % k: ['err']}
            out.append(('long_branch_%s_at_%d' % (how, k), P))
    return out


def items_over_subworkflows(n_items=2, conc=None, then=True):
    """t0 iterates n_items times over sub-workflow sub1 (one action task); every first execution of that action fails,
    every later one succeeds - so after the items failed, the task inside each item's sub-workflow can be rerun."""
    P = Program()
    P.order = ['t0'] + (['t1'] if then else [])
    P.tasks = {'t0': {'kind': 'workflow', 'workflow': 'sub1', 'with_items': n_items, 'succ': ([{'to': 't1'}] if then else []), 'err': [], 'comp': []}}
    if conc:
        P.tasks['t0']['concurrency'] = conc
    if then:
        P.tasks['t1'] = {'kind': 'action', 'succ': [], 'err': [], 'comp': []}
    S = Program()
    S.name = 'sub1'
    S.order = ['sub1x0']
    S.tasks = {'sub1x0': {'kind': 'action', 'succ': [], 'err': [], 'comp': []}}
    P.subs['sub1'] = S
    # the oracle counts executions per action tag: the first n_items executions (one per item) fail, later ones succeed
    P.oracle = {'sub1x0': ['err'] * n_items + ['ok'], 't1': ['ok']}
    P.flags = {'sub': True, 'items': True}
    return P


def join_of_kind(kind='action'):
    """a, b -> j (join: all) -> z; j is an action or calls the sub-workflow sub1 (two action tasks)."""
    P = Program()
    P.order = ['a', 'b', 'j', 'z']
    P.tasks = {'a': {'kind': 'action', 'succ': [{'to': 'j'}], 'err': [], 'comp': []}, 'b': {'kind': 'action', 'succ': [{'to': 'j'}], 'err': [], 'comp': []},
               'j': {'kind': kind, 'join': -1, 'succ': [{'to': 'z'}], 'err': [], 'comp': []}, 'z': {'kind': 'action', 'succ': [], 'err': [], 'comp': []}}
    if kind == 'workflow':
        P.tasks['j']['workflow'] = 'sub1'
        S = Program()
        S.name = 'sub1'
        S.order = ['sub1x0', 'sub1x1']
        S.tasks = {'sub1x0': {'kind': 'action', 'succ': [{'to': 'sub1x1'}], 'err': [], 'comp': []}, 'sub1x1': {'kind': 'action', 'succ': [], 'err': [], 'comp': []}}
        P.subs = {'sub1': S}
        P.flags = {'sub': True}
    return P


def sub_beside_long_branch(length=3):
    """t0 calls sub-workflow sub1 (one action task that fails first, then succeeds) and continues with t1; beside it a chain of
    `length` plain tasks keeps the root workflow RUNNING after t0 has failed."""
    P = Program()
    P.order = ['t0', 't1'] + ['b%d' % i for i in range(length)]
    P.tasks = {'t0': {'kind': 'workflow', 'workflow': 'sub1', 'succ': [{'to': 't1'}], 'err': [], 'comp': []}, 't1': {'kind': 'action', 'succ': [], 'err': [], 'comp': []}}
    for i in range(length):
        P.tasks['b%d' % i] = {'kind': 'action', 'succ': ([{'to': 'b%d' % (i + 1)}] if i + 1 < length else []), 'err': [], 'comp': []}
    S = Program()
    S.name = 'sub1'
    S.order = ['sub1x0']
    S.tasks = {'sub1x0': {'kind': 'action', 'succ': [], 'err': [], 'comp': []}}
    P.subs = {'sub1': S}
    P.oracle = {'sub1x0': ['err', 'ok']}
    P.flags = {'sub': True}
    return P


def failing_shapes():
    """The shapes of the three catalogues in which some action fails (what a rerun / skip can be applied to); the failing
    action succeeds when it is executed once more."""
    out = []
    for nm, P in catalogue() + items_catalogue() + policy_catalogue() + reverse_catalogue():
        bad = False
        for tag, oc in list(P.oracle.items()):
            if isinstance(oc, list) and 'err' in oc:
                P.oracle[tag] = list(oc) + ['ok']
                bad = True
            elif isinstance(oc, dict) and any('err' in v for v in oc.values()):
                P.oracle[tag] = {i: (list(v) + ['ok'] if 'err' in v else list(v)) for i, v in oc.items()}
                bad = True
        if bad:
            out.append((nm, P))
    return out


def items_catalogue():
    """Small with-items shapes (model-checked exhaustively by C07 and run on the real engine)."""
    out = []

    def prog(order, tasks, oracle):
        P = Program()
        P.order = list(order)
        P.tasks = {k: dict({'kind': 'action', 'succ': [], 'err': [], 'comp': []}, **v) for k, v in tasks.items()}
        P.oracle = dict(oracle)
        P.flags = {'items': True}
        return P
    for n, conc in ((3, None), (3, 1), (3, 2), (2, 3), (2, None), (2, 1), (0, None), (0, 1)):
        for bad in ((None, 1) if n else (None,)):
            oc = {'a': {i: ['err' if i == bad else 'ok'] for i in range(n)}}
            t = {'a': {'with_items': n, 'succ': [{'to': 'z'}], 'err': ([{'to': 'z'}] if bad is not None and conc == 2 else [])}, 'z': {}}
            if conc:
                t['a']['concurrency'] = conc
            out.append(('items%d_c%s_%s' % (n, conc or 0, 'ok' if bad is None else 'err%d' % bad), prog(['a', 'z'], t, oc)))
    # with-items x retry: the next attempt executes every index again
    for n, conc in ((2, None), (2, 1), (3, 2)):
        t = {'a': {'with_items': n, 'retry': {'count': 1, 'delay': 0}, 'succ': [{'to': 'z'}]}, 'z': {}}
        if conc:
            t['a']['concurrency'] = conc
        out.append(('items%d_c%s_retry' % (n, conc or 0), prog(['a', 'z'], t, {'a': {i: (['err', 'ok'] if i == 0 else ['ok']) for i in range(n)}})))
    # a with-items JOIN (the concurrency policy is not applied to it - KF-C07-1)
    t = {'a': {'succ': [{'to': 'j'}]}, 'b': {'succ': [{'to': 'j'}]}, 'j': {'join': -1, 'with_items': 2, 'concurrency': 1, 'succ': [{'to': 'z'}]}, 'z': {}}
    out.append(('items_join_c1', prog(['a', 'b', 'j', 'z'], t, {'j': {0: ['ok'], 1: ['ok']}})))
    # two with-items tasks in parallel feeding a join
    t = {'a': {'with_items': 2, 'concurrency': 1, 'succ': [{'to': 'j'}]}, 'b': {'with_items': 2, 'succ': [{'to': 'j'}]}, 'j': {'join': -1}}
    out.append(('items_pair_join', prog(['a', 'b', 'j'], t, {'a': {0: ['ok'], 1: ['ok']}, 'b': {0: ['ok'], 1: ['err']}})))
    return out


def catalogue():
    """Fixed shapes (Sigma) used by the quick tier in addition to random programs."""
    out = []
    for join in (-1, 1, 2):
        for oc in ({}, {'b': 'err'}, {'c': 'err'}, {'a': 'err'}):
            out.append(('diamond_j%s_%s' % (join, '_'.join('%s%s' % kv for kv in sorted(oc.items())) or 'ok'),
                        diamond(join, oc)))
    out.append(('diamond_errroute', diamond(-1, {'c': 'err'}, err_route=True)))
    # linear with error handled
    P = Program()
    P.order = ['a', 'b', 'h']
    P.tasks = {'a': {'succ': [{'to': 'b'}], 'err': [{'to': 'h'}]}, 'b': {}, 'h': {}}
    P.oracle = {'a': ['err']}
    out.append(('linear_handled', P))
    # fail command
    P = Program()
    P.order = ['a', 'b']
    P.tasks = {'a': {'succ': [{'to': 'fail'}, {'to': 'b'}]}, 'b': {}}
    out.append(('cmd_fail_first', P))
    # nested joins with a non-firing guard
    P = Program()
    P.order = ['s', 'f', 'x', 'inner', 'outer']
    P.tasks = {'s': {'succ': [{'to': 'x', 'fires': False, 'expr': '<% $.gf %>'}, {'to': 'inner'}]}, 'f': {'succ': [{'to': 'outer'}]},
               'x': {'succ': [{'to': 'inner'}]}, 'inner': {'join': -1, 'succ': [{'to': 'outer'}]}, 'outer': {'join': -1}}
    out.append(('nested_join_dead_guard', P))
    # outer join waits for an inner join that is never created (its only feeder fails / does not route)
    for nm, oc, guard in (('nested_join_inner_uncreated_err', 'err', None), ('nested_join_inner_uncreated_guard', 'ok', False)):
        P = Program()
        P.order = ['slow', 'inner', 'fast', 'outer']
        e = {'to': 'inner'}
        if guard is False:
            e.update(fires=False, expr='<% 1 = 2 %>')
        P.tasks = {'slow': {'succ': [e]}, 'inner': {'join': -1, 'succ': [{'to': 'outer'}]},
                   'fast': {'succ': [{'to': 'outer'}]}, 'outer': {'join': -1}}
        P.oracle = {'slow': [oc]}
        out.append((nm, P))
    # two parallel start tasks feeding a join; a two-step chain (small shapes: exhaustive operator / duplicate budgets stay cheap)
    P = Program()
    P.order = ['a', 'b', 'j']
    P.tasks = {'a': {'succ': [{'to': 'j'}]}, 'b': {'succ': [{'to': 'j'}]}, 'j': {'join': -1}}
    out.append(('pair_join', P))
    P = Program()
    P.order = ['a', 'b']
    P.tasks = {'a': {'succ': [{'to': 'b'}]}, 'b': {}}
    out.append(('chain2', P))
    # the pause command with a task behind it (that task goes to the backlog) while another branch is still running
    P = Program()
    P.order = ['a', 'c', 'b']
    P.tasks = {'a': {'succ': [{'to': 'pause'}, {'to': 'b'}]}, 'c': {}, 'b': {}}
    P.flags['pause'] = True
    out.append(('cmd_pause_backlog', P))
    # ... and with a JOIN behind the pause command (its command is saved in the backlog and restored at resume)
    P = Program()
    P.order = ['a', 'b', 'j']
    P.tasks = {'a': {'succ': [{'to': 'pause'}, {'to': 'j'}]}, 'b': {'succ': [{'to': 'j'}]}, 'j': {'join': -1}}
    P.flags['pause'] = True
    out.append(('cmd_pause_join', P))
    # a task whose only transition is the engine command noop
    P = Program()
    P.order = ['a']
    P.tasks = {'a': {'succ': [{'to': 'noop'}]}}
    out.append(('cmd_noop', P))
    return out
