"""dfdbg.py <replay.json> : compact view of a C05 violation."""
import json, sys, re
r = json.load(open(sys.argv[1]))
print(r['signature'])
rp = r['replay']
y = rp['yaml']
y = re.sub(r'\n      input:\n        tag: \w+\n        echo: [^\n]*', '', y)
y = re.sub(r'      action: verif.act\n', '', y)
print(y)
print('FAILING', rp['failing'], r['message'][:200])
for t in rp['tasks']:
    print('TK', t['sid'], t['state'], 'trig', t['trig'], 'IN', re.sub(r'"__versions": \{[^}]*\},? ?', '', t['inCtx']), 'PUB', t['published'], 'hasNext', t['hasNext'])
for a in rp['probes']:
    print('AX', a['sid'], a['probe'])
for w in rp['wf']:
    print('WF', w['state'], w['output'][:300], w['inp'])
