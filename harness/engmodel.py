"""Exhaustive model checking of spec/engine/MistralEngine.tla on catalogue shapes, and strict trace
validation (EngineTrace) of recorded runs that are inside the model's scope."""
import json
import os
import re
import shutil

from harness import common
from harness.common import tla


def in_scope(t):
    """Runs the engine model covers: default scheduler, direct DAG, one execution per task name, no
    policies / items / sub-workflows; operator commands pause / resume / stop and redeliveries are covered,
    rerun / skip and executor faults are not."""
    p = t['prog']
    m = t['meta']
    if m.get('c20'):
        return False
    if any(o['op'] not in ('pause', 'resume', 'stop', 'rerun', 'skip', 'wait') for o in (m.get('ops') or [])):
        return False
    if p['flags'].get('multi_trigger') or p['flags'].get('sub'):
        return False
    # (an action that reports "cancelled" is outside the model)
    if any('cancel' in row for d_ in p['tasks'].values() for row in d_['outcome']):
        return False
    for n, d in p['tasks'].items():
        # retry, wait-before, wait-after, timeout and with-items (with concurrency) are modelled; pause-before, fail-on,
        # sub-workflows and with-items combined with another policy are not
        if d['kind'] != 'action':
            return False
        # (with-items x retry is in; with-items x the other policies is not)
        if d['items'] >= 0 and (d['waitBefore'] or d['waitAfter'] or d['timeout'] or d['pauseBefore'] or d['failOn']):
            return False
    # a task name must not be instantiated twice (e.g. the same target named by on-success and on-complete)
    last = t['steps'][-1]['obs']
    names = [x['name'] for x in last['tk']]
    return len(names) == len(set(names))


def def_tla(prog):
    d = {k: v for k, v in prog.items() if k not in ('flags',)}
    return tla(d)


INVARIANTS = ['TypeOK', 'NoHangM', 'NoWaitingAtRestM', 'JoinOnceM', 'StartOnceM', 'FinalIffLastM', 'StopAtFirstSuccessM',
              'OnePerIndexM', 'WithinLimitM', 'CompleteAfterAllM', 'FailOnAppliedM', 'PauseBeforeM', 'ReqGateM']
PROPERTIES = ['JoinGateM', 'FinishedFrozenM', 'ResultOnceM', 'SuccessStickyM', 'LegalWfM', 'NoNewTasksWhilePausedM', 'NoNewTasksAfterStopM',
              'PauseAckM', 'StopAckM', 'DupNoEffectM', 'RerunAckM', 'SkipAckM']


def model_check(d, name, prog, liveness=False, timeout=1800, confluence=False, ops=0, dups=0, workers=None,
                kinds=('pause', 'resume', 'stop'), scheduler='default'):
    common.put_spec(d, *[os.path.join('engine', f_) for f_ in ('MistralEngine.tla',)])
    mc = 'MC_Engine_' + re.sub(r'\W', '_', name)
    with open(os.path.join(d, mc + '.tla'), 'w') as fh:
        fh.write('---- MODULE %s ----\nEXTENDS MistralEngine\nDConst == %s\nMCInit == D = DConst /\\ Init /\\ TLCSet(1, <<>>)\n'
                 'MCSpec == MCInit /\\ [][Next]_vars\nMCFairSpec == MCSpec /\\ WF_vars(Next)\nTimeBound == now <= 20 /\\ InDomain\nMCOpKinds == %s\n====\n' % (mc, def_tla(prog), tla(set(kinds))))
    consts = 'CONSTANT OpBudget = %d\nCONSTANT DupBudget = %d\nCONSTANT NoopOps = FALSE\nCONSTANT QuietRerun = TRUE\nCONSTANT OpKinds <- MCOpKinds\nCONSTANT Scheduler = "%s"\n' % (ops, dups, scheduler)
    with open(os.path.join(d, mc + '.cfg'), 'w') as fh:
        fh.write('SPECIFICATION %s\nVIEW view\nCONSTRAINT TimeBound\n%s%s%s%sCHECK_DEADLOCK FALSE\n'
                 % ('MCFairSpec' if liveness else 'MCSpec', consts, ''.join('INVARIANT %s\n' % i for i in INVARIANTS),
                    ''.join('PROPERTY %s\n' % p_ for p_ in PROPERTIES), 'PROPERTY Terminates\n' if liveness else ''))
    if confluence:
        with open(os.path.join(d, mc + '.cfg'), 'w') as fh:
            fh.write('SPECIFICATION MCSpec\nVIEW view\n%sINVARIANT Confluent\nCHECK_DEADLOCK FALSE\n' % consts)
        return common.run_tlc(os.path.join(d, mc + '.tla'), os.path.join(d, mc + '.cfg'), timeout=timeout, metatag=mc, workers=1)
    return common.run_tlc(os.path.join(d, mc + '.tla'), os.path.join(d, mc + '.cfg'), timeout=timeout, metatag=mc, workers=workers)


UNDECIDED = set()


def strict_validate(d, traces, tag='strict', chunk=60, dump=False, tlc_timeout=420):
    """Returns (accepted set of indexes into traces, reached dict, states, transitions)."""
    common.put_spec(d, *[os.path.join('engine', f_) for f_ in ('MistralEngine.tla', 'EngineTrace.tla')])
    acc, reached = set(), {}
    st = tr = 0
    import concurrent.futures as cf
    # the scheduler implementation is a constant of the model: one TLC run per (scheduler, chunk)
    order = sorted(range(len(traces)), key=lambda i: traces[i]['meta'].get('scheduler', 'default'))
    groups = []
    for sch in ('default', 'legacy'):
        idx = [i for i in order if traces[i]['meta'].get('scheduler', 'default') == sch]
        for c0 in range(0, len(idx), chunk):
            groups.append((sch, idx[c0:c0 + chunk]))
    nch = len(groups)

    def one(k):
        sch, members = groups[k]
        part = [traces[i] for i in members]
        tf = os.path.join(d, 'strict_%s_%d.ndjson' % (tag, k))
        with open(tf, 'w') as fh:
            for t in part:
                prog = {kk: v for kk, v in t['prog'].items() if kk != 'flags'}
                fh.write(json.dumps({'prog': prog, 'steps': t['steps']}) + '\n')
        mod = os.path.join(d, 'MC_EngineTrace_%s_%d.tla' % (tag, k))
        with open(mod, 'w') as fh:
            fh.write('---- MODULE MC_EngineTrace_%s_%d ----\nEXTENDS EngineTrace\n====\n' % (tag, k))
        cfgp = mod[:-4] + '.cfg'
        with open(cfgp, 'w') as fh:
            fh.write('SPECIFICATION TSpec\nCONSTANT OpBudget = 1000\nCONSTANT DupBudget = 1000\nCONSTANT NoopOps = TRUE\nCONSTANT QuietRerun = FALSE\nCONSTANT OpKinds <- AllOpKinds\nCONSTANT Scheduler = "%s"\nCONSTRAINT %s\nCHECK_DEADLOCK FALSE\n'
                     % (sch, 'DumpReport' if dump else 'Report'))
        try:
            r = common.run_tlc(mod, cfgp, workers=1, env={'TRACE_FILE': tf}, timeout=tlc_timeout, metatag='engstrict%s%d' % (tag, k), heap='3g')
        except common.MachineryError as e:
            if 'TLC timeout' not in str(e):
                raise
            # the unlogged choices of some run of this chunk made the search too large: those runs stay undecided (neither
            # accepted nor a divergence)
            for i in members:
                UNDECIDED.add(i)
            return set(), {}, 0, 0
        if dump:
            open(os.path.join(d, 'strict_%s_%d.out' % (tag, k)), 'w').write(r.out)
        if not r.finished:
            raise common.MachineryError('EngineTrace did not finish:\n' + r.out[-3000:])
        a = set(members[int(m.group(1)) - 1] for m in re.finditer(r'<<"accepted", (\d+)>>', r.out))
        rc = {}
        for m in re.finditer(r'<<"reached", (\d+), (\d+)>>', r.out):
            i = members[int(m.group(1)) - 1]
            rc[i] = max(rc.get(i, 0), int(m.group(2)))
        return a, rc, r.distinct, r.generated

    with cf.ThreadPoolExecutor(max_workers=min(common.NCPU, max(1, nch))) as ex:
        for a, rc, ds, gs in ex.map(one, range(nch)):
            acc |= a
            reached.update(rc)
            st += ds
            tr += gs
    return acc, reached, st, tr
