--------------------------- MODULE RestGuardTrace ---------------------------
(***************************************************************************)
(* Request traces recorded through the real WSGI application               *)
(* (harness/checks/c16.py), one per line:                                  *)
(*   op, rules (documented for this operation), deny (index of the rule    *)
(*   denied by policy, 0 = none), events (sequence of                      *)
(*   [k |-> "enforce", rule, ok] / [k |-> "db", table, w] / [k |-> "rpc",  *)
(*   m]), status, changed (database digest differs), and for the           *)
(*   state-change requests: kind, cur, req, force, descr.                  *)
(* The formulas below are the C16 clauses; they are evaluated on every     *)
(* request (decisive).                                                     *)
(***************************************************************************)
EXTENDS RestGuard, Json, IOUtils
TraceLog == ndJsonDeserialize(IOEnv.TRACE_FILE)
VARIABLE tid
R == TraceLog[tid]
\* (the variables of RestGuard are not used when judging observations; they are pinned)
TInit == /\ tid \in 1..Len(TraceLog)
         /\ op = "x" /\ allow = <<>> /\ pc = "obs" /\ enforced = 0 /\ effects = <<>> /\ status = 0
TNext == UNCHANGED <<vars, tid>>
TSpec == TInit /\ [][TNext]_<<vars, tid>>

Ev == R.events
IsEffect(e) == (e.k = "db" /\ e.table \in Tables) \/ e.k = "rpc"
FirstEffect == LET S == {i \in 1..Len(Ev) : IsEffect(Ev[i])} IN IF S = {} THEN 0 ELSE CHOOSE i \in S : \A j \in S : i <= j
EnforcedBefore(i, rule) == \E j \in 1..(i - 1) : Ev[j].k = "enforce" /\ Ev[j].rule = rule
\* the documented rules of the operation are enforced before the first effect, in a request that has effects
ObsEnforceFirst == (FirstEffect > 0) => \A x \in 1..Len(R.rules) : EnforcedBefore(FirstEffect, R.rules[x])
\* an exposed operation always consults the policy
ObsAlwaysEnforces == (R.expectEnforce) => \E j \in 1..Len(Ev) : Ev[j].k = "enforce"
\* a request denied by policy answers 403, has no effect at all and leaves the database unchanged
Denied == \E j \in 1..Len(Ev) : Ev[j].k = "enforce" /\ ~Ev[j].ok
ObsDeniedNoEffect == Denied =>
   /\ R.status = 403 /\ ~R.changed
   /\ \A i \in 1..Len(Ev) : IsEffect(Ev[i]) =>
         (Ev[i].k = "db" /\ ~Ev[i].w /\ \E j \in 1..(i - 1) : Ev[j].k = "enforce")   \* (reads after a first allowed rule are tolerated)
   /\ \A i \in 1..Len(Ev) : Ev[i].k # "rpc"
\* state-change guards
Rpcs == {Ev[i].m : i \in {j \in 1..Len(Ev) : Ev[j].k = "rpc"}}
ObsExecPut == (R.kind = "exec_put" /\ ~Denied) =>
   /\ ((R.descr /\ R.req # "") => (R.status = 400 /\ Rpcs = {} /\ ~R.changed))
   /\ ((~R.descr /\ R.req # "") =>
         IF ExecPutRpc(R.req) = "none" THEN (R.status \in {400, 404} /\ Rpcs = {} /\ ~R.changed)
         ELSE Rpcs \subseteq {ExecPutRpc(R.req)})
ObsTaskPut == (R.kind = "task_put" /\ ~Denied /\ ~TaskPutAllowed(R.cur, R.req)) =>
   (R.status \in {400, 403, 404} /\ Rpcs = {} /\ ~R.changed)
ObsExecDelete == (R.kind = "exec_delete" /\ ~Denied /\ ~ExecDeleteAllowed(R.cur, R.force)) =>
   (R.status \in {400, 403, 409} /\ ~R.changed)
\* listing across projects: rows of another project (not public) are returned only after the admin-only
\* <resource>:list:all_projects rule was enforced and allowed
ObsCrossProject == R.foreignReturned =>
   \E j \in 1..Len(Ev) : Ev[j].k = "enforce" /\ Ev[j].ok /\ Ev[j].rule = R.rules[1] \o ":all_projects"
Report == PrintT(<<"case", tid, ObsEnforceFirst, ObsAlwaysEnforces, ObsDeniedNoEffect, ObsExecPut, ObsTaskPut, ObsExecDelete, ObsCrossProject>>)
=============================================================================
