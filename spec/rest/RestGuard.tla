------------------------------ MODULE RestGuard ------------------------------
(***************************************************************************)
(* C16 - every REST operation is authorised and guarded before it has any  *)
(* effect.  One behaviour = one HTTP request through the WSGI application: *)
(*   Enforce(rule)  acl.enforce: the policy decides allow / deny           *)
(*   Db(table, w)   a statement on a resource table (read or write)        *)
(*   Rpc(method)    a message to the engine                                *)
(*   Respond(code)                                                         *)
(* The model says what a request MAY do: first the documented rule(s) of   *)
(* the operation are enforced; a denial ends the request with 403 and no   *)
(* effect; only then may resource tables be touched or RPCs be sent.       *)
(* State-changing requests are limited by the guard tables below.          *)
(***************************************************************************)
EXTENDS Naturals, Sequences, FiniteSets, TLC

CONSTANTS Operations,   \* set of [id, rules (sequence of rule names that must be enforced), mutating]
          Tables        \* resource tables

FinalStates == {"SUCCESS", "ERROR", "CANCELLED"}
ExecStates  == {"IDLE", "RUNNING", "PAUSED", "SUCCESS", "ERROR", "CANCELLED", "DELAYED", "WAITING", "SKIPPED", "BOGUS"}

(* ---- guard tables (the documented moves) ---- *)
\* PUT /v2/executions/{id} with a state: which engine call, if any, is admitted
ExecPutRpc(req) == CASE req = "PAUSED"  -> "pause_workflow"
                     [] req = "RUNNING" -> "resume_workflow"
                     [] req \in FinalStates -> "stop_workflow"
                     [] OTHER -> "none"
\* PUT /v2/tasks/{id}: only an ERROR task may be moved, and only to RUNNING (rerun) or SKIPPED
TaskPutAllowed(cur, req) == cur = "ERROR" /\ req \in {"RUNNING", "SKIPPED"}
\* DELETE /v2/executions/{id}: an unfinished execution only with force
ExecDeleteAllowed(cur, force) == cur \in FinalStates \/ force

VARIABLES op, allow, pc, enforced, effects, status
vars == <<op, allow, pc, enforced, effects, status>>

Init == /\ op \in Operations /\ allow \in [1..3 -> BOOLEAN]
        /\ pc = "enforce" /\ enforced = 0 /\ effects = <<>> /\ status = 0

Enforce == /\ pc = "enforce" /\ enforced < Len(op.rules)
           /\ enforced' = enforced + 1
           /\ IF allow[enforced + 1]
              THEN pc' = IF enforced + 1 = Len(op.rules) THEN "work" ELSE "enforce"
              ELSE pc' = "denied"
           /\ UNCHANGED <<op, allow, effects, status>>
Deny    == /\ pc = "denied" /\ status' = 403 /\ pc' = "done" /\ UNCHANGED <<op, allow, enforced, effects>>
Effect(e) == /\ pc = "work" /\ Len(effects) < 3
             /\ effects' = Append(effects, e) /\ UNCHANGED <<op, allow, pc, enforced, status>>
Respond(c) == /\ pc = "work" /\ status' = c /\ pc' = "done" /\ UNCHANGED <<op, allow, enforced, effects>>
Next == Enforce \/ Deny \/ (\E e \in {"read", "write", "rpc"} : Effect(e)) \/ (\E c \in {200, 201, 204, 400, 404, 409} : Respond(c))
Spec == Init /\ [][Next]_vars

EnforceFirst   == (effects # <<>>) => enforced = Len(op.rules)
DeniedNoEffect == (status = 403 /\ pc = "done" /\ enforced <= Len(op.rules) /\ \E k \in 1..enforced : ~allow[k]) => effects = <<>>
=============================================================================
