------------------------------- MODULE Tenancy -------------------------------
(***************************************************************************)
(* C15 - tenant isolation.  The specification IS the policy:               *)
(*   CanSee(actor, r)     own project, public scope, or (workflows only)   *)
(*                        an ACCEPTED membership; admins see everything    *)
(*   CanChange(actor, r)  owner or admin                                   *)
(* One behaviour = one resource of some type created by its owner          *)
(* (optionally shared with the actor's project through a membership in     *)
(* some status), then one operation by an actor.  TLC enumerates every     *)
(* combination and checks the model-level invariants; the same table is    *)
(* executed against the real db api (and expression functions) and every   *)
(* recorded outcome is validated against this module (TenancyTrace).       *)
(***************************************************************************)
EXTENDS Naturals, FiniteSets, TLC

CONSTANTS Types,        \* resource types
          Shareable,    \* types that support memberships ({"workflow_definition"})
          Ops           \* {"get", "get_by_name", "list", "update", "delete", "create_as_other"}

Projects == {"A", "B"}
Scopes   == {"private", "public"}
Members  == {"none", "pending", "accepted", "rejected"}

VARIABLES type, owner, scope, member, actor, admin, op, phase, exists, changed, outcome
vars == <<type, owner, scope, member, actor, admin, op, phase, exists, changed, outcome>>

CanSee(a, ad, o, s, t, m) == ad \/ a = o \/ s = "public" \/ (t \in Shareable /\ m = "accepted")
CanChange(a, ad, o)       == ad \/ a = o

Init == /\ type \in Types /\ owner \in Projects /\ scope \in Scopes
        /\ member \in Members /\ (type \notin Shareable => member = "none")
        /\ actor \in Projects /\ admin \in BOOLEAN /\ op \in Ops
        /\ (member # "none" => actor # owner)
        /\ phase = "created" /\ exists = TRUE /\ changed = FALSE /\ outcome = "none"

Read ==   /\ phase = "created" /\ op \in {"get", "get_by_name", "list"}
          /\ outcome' = IF CanSee(actor, admin, owner, scope, type, member) THEN "found" ELSE "notfound"
          /\ phase' = "done" /\ UNCHANGED <<type, owner, scope, member, actor, admin, op, exists, changed>>
Update == /\ phase = "created" /\ op = "update"
          /\ IF CanChange(actor, admin, owner)
             THEN changed' = TRUE /\ outcome' = "changed"
             ELSE changed' = FALSE /\ outcome' \in {"notfound", "notallowed"}
          /\ phase' = "done" /\ UNCHANGED <<type, owner, scope, member, actor, admin, op, exists>>
Delete == /\ phase = "created" /\ op = "delete"
          /\ IF CanChange(actor, admin, owner)
             THEN exists' = FALSE /\ outcome' = "deleted"
             ELSE exists' = TRUE /\ outcome' \in {"notfound", "notallowed"}
          /\ phase' = "done" /\ UNCHANGED <<type, owner, scope, member, actor, admin, op, changed>>
\* creating a resource while naming another project in the values: the row belongs to the caller
CreateAsOther == /\ phase = "created" /\ op = "create_as_other"
                 /\ outcome' = "owned_by_caller"
                 /\ phase' = "done" /\ UNCHANGED <<type, owner, scope, member, actor, admin, op, exists, changed>>
Next == Read \/ Update \/ Delete \/ CreateAsOther
Spec == Init /\ [][Next]_vars /\ WF_vars(Next)

NoForeignRead  == (outcome = "found") => CanSee(actor, admin, owner, scope, type, member)
NoForeignWrite == (changed \/ ~exists) => CanChange(actor, admin, owner)
PrivateInvisible == (phase = "done" /\ ~admin /\ actor # owner /\ scope = "private" /\ member # "accepted"
                     /\ op \in {"get", "get_by_name", "list"}) => outcome = "notfound"
Decided == <>(phase = "done")
=============================================================================
