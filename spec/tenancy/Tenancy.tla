------------------------------- MODULE Tenancy -------------------------------
(***************************************************************************)
(* C15 - tenant isolation.  The specification IS the policy:               *)
(*   CanSee(actor, r)     own project, public scope, or (workflows only)   *)
(*                        an ACCEPTED membership HELD BY THE ACTOR'S OWN   *)
(*                        PROJECT; admins see everything                   *)
(*   CanChange(actor, r)  owner or admin                                   *)
(* One behaviour = one resource of some type created by its owner          *)
(* (optionally shared with the actor's project through a membership in     *)
(* some status), then one operation by an actor.  TLC enumerates every     *)
(* combination and checks the model-level invariants; the same table is    *)
(* executed against the real db api (and expression functions) and every   *)
(* recorded outcome is validated against this module (TenancyTrace).       *)
(***************************************************************************)
EXTENDS Naturals, FiniteSets, TLC

CONSTANTS Types,        \* resource types
          Shareable,    \* types that support memberships ({"workflow_definition"})
          Ops           \* {"get", "get_by_name", "load", "list", "update", "delete", "create_as_other"}

Projects == {"A", "B"}
Scopes   == {"private", "public"}
Members  == {"none", "pending", "accepted", "rejected"}

VARIABLES type, owner, scope, member, mholder, actor, admin, op, phase, exists, changed, outcome
vars == <<type, owner, scope, member, mholder, actor, admin, op, phase, exists, changed, outcome>>
\* mholder: which project holds the membership - "actor" (the acting project), "third" (some other project), "none"

CanSee(a, ad, o, s, t, m, mh) == ad \/ a = o \/ s = "public" \/ (t \in Shareable /\ m = "accepted" /\ mh = "actor")
CanChange(a, ad, o)       == ad \/ a = o

Init == /\ type \in Types /\ owner \in Projects /\ scope \in Scopes
        /\ member \in Members /\ (type \notin Shareable => member = "none")
        /\ mholder \in {"none", "actor", "third"} /\ (member = "none" <=> mholder = "none")
        /\ actor \in Projects /\ admin \in BOOLEAN /\ op \in Ops
        /\ (member # "none" => actor # owner)
        /\ phase = "created" /\ exists = TRUE /\ changed = FALSE /\ outcome = "none"

\* an admin MAY reach the private rows of other projects (the property does not demand it; at db-api level some
\* lookups are insecure for admins and some are not): for that case either outcome is a behaviour
AdminOnly == admin /\ ~CanSee(actor, FALSE, owner, scope, type, member, mholder)
Read ==   /\ phase = "created" /\ op \in {"get", "get_by_name", "load", "list"}
          /\ outcome' \in (IF AdminOnly THEN {"found", "notfound"}
                           ELSE IF CanSee(actor, admin, owner, scope, type, member, mholder) THEN {"found"} ELSE {"notfound"})
          /\ phase' = "done" /\ UNCHANGED <<type, owner, scope, member, mholder, actor, admin, op, exists, changed>>
Update == /\ phase = "created" /\ op = "update"
          /\ \/ CanChange(actor, admin, owner) /\ changed' = TRUE /\ outcome' = "changed"
             \/ (~CanChange(actor, admin, owner) \/ AdminOnly) /\ changed' = FALSE /\ outcome' \in {"notfound", "notallowed"}
          /\ phase' = "done" /\ UNCHANGED <<type, owner, scope, member, mholder, actor, admin, op, exists>>
Delete == /\ phase = "created" /\ op = "delete"
          /\ \/ CanChange(actor, admin, owner) /\ exists' = FALSE /\ outcome' = "deleted"
             \/ (~CanChange(actor, admin, owner) \/ AdminOnly) /\ exists' = TRUE /\ outcome' \in {"notfound", "notallowed"}
          /\ phase' = "done" /\ UNCHANGED <<type, owner, scope, member, mholder, actor, admin, op, changed>>
\* creating a resource while naming another project in the values: the row belongs to the caller
CreateAsOther == /\ phase = "created" /\ op = "create_as_other"
                 /\ outcome' = "owned_by_caller"
                 /\ phase' = "done" /\ UNCHANGED <<type, owner, scope, member, mholder, actor, admin, op, exists, changed>>
Next == Read \/ Update \/ Delete \/ CreateAsOther
Spec == Init /\ [][Next]_vars /\ WF_vars(Next)

NoForeignRead  == (outcome = "found") => CanSee(actor, admin, owner, scope, type, member, mholder)
NoForeignWrite == (changed \/ ~exists) => CanChange(actor, admin, owner)
PrivateInvisible == (phase = "done" /\ ~admin /\ actor # owner /\ scope = "private" /\ (member # "accepted" \/ mholder # "actor")
                     /\ op \in {"get", "get_by_name", "load", "list"}) => outcome = "notfound"
Decided == <>(phase = "done")
=============================================================================
