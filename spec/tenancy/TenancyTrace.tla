---------------------------- MODULE TenancyTrace ----------------------------
(* Recorded outcomes of real db-api / expression-function calls, one per line:  *)
(* [type, owner, scope, member, actor, admin, op, outcome, changed, exists].    *)
(* (a) decisive formulas over the observation; (b) the observation must be a    *)
(* behaviour of Tenancy (divergence = over-restriction or different error).     *)
EXTENDS Tenancy, Json, IOUtils, Sequences
TraceLog == ndJsonDeserialize(IOEnv.TRACE_FILE)
VARIABLE tid
tvars == <<vars, tid>>
R == TraceLog[tid]
TInit == /\ tid \in 1..Len(TraceLog)
         /\ type = R.type /\ owner = R.owner /\ scope = R.scope /\ member = R.member /\ mholder = R.mholder
         /\ actor = R.actor /\ admin = R.admin /\ op = R.op
         /\ phase = "created" /\ exists = TRUE /\ changed = FALSE /\ outcome = "none"
TNext == Next /\ UNCHANGED tid
TSpec == TInit /\ [][TNext]_tvars
See == CanSee(R.actor, R.admin, R.owner, R.scope, R.type, R.member, R.mholder)
Chg == CanChange(R.actor, R.admin, R.owner)
Report == /\ (phase = "created") =>
               PrintT(<<"case", tid,
                        (R.outcome = "found" => See),                    \* NoForeignRead
                        ((R.changed \/ ~R.exists) => Chg),               \* NoForeignWrite
                        (R.op = "create_as_other" => R.outcome = "owned_by_caller")>>)
          /\ (phase = "done" /\ outcome = R.outcome /\ changed = R.changed /\ exists = R.exists) => PrintT(<<"accepted", tid>>)
=============================================================================
