------------------------------- MODULE Egress -------------------------------
(***************************************************************************)
(* C19 - outbound HTTP from workflows cannot reach denied networks.        *)
(*                                                                         *)
(* A decision model of mistral/utils/egress.py validate_url and of its two *)
(* callers (std.http action, webhook notifier).  One behaviour = one       *)
(* request: the pipeline of the code is modelled stage by stage            *)
(* (scheme -> host -> allow-list -> resolve -> every address against every *)
(* denied network -> accept/refuse -> HTTP client called or not) and is    *)
(* checked against the declarative policy Allowed(url, cfg), which is the  *)
(* property statement itself.                                              *)
(*                                                                         *)
(* Abstraction: a host form carries the *set of addresses it denotes*      *)
(* (computed by the harness catalogue with the standard library as         *)
(* independent oracle - TLA+ does not parse strings); an address is        *)
(* [fam, region]; a network is a set of regions per family.                *)
(***************************************************************************)
EXTENDS Naturals, FiniteSets, Sequences, TLC

CONSTANTS
  Schemes,        \* set of [id, norm] ; norm = scheme after urlsplit lower-casing
  HostForms,      \* set of [id, kind, denotes, resolvable]  denotes \subseteq Addr
  Ports, Paths, UserInfos,
  Configs,        \* set of [id, denied (set of network ids), allow \in {"none","lists_host","lists_other"}]
  DefaultDenied,  \* the network ids of the code's default denied_cidrs (read from the code)
  NetRegions      \* function network id -> set of [fam, region] it contains

OkSchemes == {"http", "https"}

\* regions that the property says the default deny-list must cover
MustCoverByDefault == { [fam |-> 4, region |-> "loop"], [fam |-> 4, region |-> "linklocal"],
                        [fam |-> 4, region |-> "metadata"],
                        [fam |-> 6, region |-> "loop"], [fam |-> 6, region |-> "linklocal"] }

InNet(a, n)   == a \in NetRegions[n]
Denied(a, ds) == \E n \in ds : n \in DOMAIN NetRegions /\ InNet(a, n)

Urls == [scheme : Schemes, user : UserInfos, host : HostForms \cup {[id |-> "nohost", kind |-> "none", denotes |-> {}, resolvable |-> FALSE]},
         port : Ports, path : Paths]

(* ---- the policy: the property statement ---- *)
Allowed(u, c) ==
  /\ u.scheme.norm \in OkSchemes
  /\ u.host.kind # "none"
  /\ c.allow \in {"none", "lists_host"}
  /\ \A a \in u.host.denotes : ~Denied(a, c.denied)

(* ---- the pipeline, as the code does it ---- *)
VARIABLES url, cfg, pc, todo, clientCalled
vars == <<url, cfg, pc, todo, clientCalled>>

Init == /\ url \in Urls
        /\ cfg \in Configs
        /\ pc = "scheme"
        /\ todo = {}
        /\ clientCalled = FALSE

CheckScheme == /\ pc = "scheme"
               /\ pc' = IF url.scheme.norm \in OkSchemes THEN "host" ELSE "refused"
               /\ UNCHANGED <<url, cfg, todo, clientCalled>>
CheckHost   == /\ pc = "host"
               /\ pc' = IF url.host.kind = "none" THEN "refused" ELSE "allow"
               /\ UNCHANGED <<url, cfg, todo, clientCalled>>
CheckAllow  == /\ pc = "allow"
               /\ pc' = IF cfg.allow = "lists_other" THEN "refused" ELSE "resolve"
               /\ UNCHANGED <<url, cfg, todo, clientCalled>>
Resolve     == /\ pc = "resolve"
               /\ IF ~url.host.resolvable
                  THEN pc' = "accepted" /\ todo' = {}        \* gaierror: fail open (nothing denoted)
                  ELSE pc' = "addrs" /\ todo' = url.host.denotes
               /\ UNCHANGED <<url, cfg, clientCalled>>
CheckAddr   == /\ pc = "addrs"
               /\ IF todo = {}
                  THEN pc' = "accepted" /\ todo' = todo
                  ELSE \E a \in todo :
                         IF Denied(a, cfg.denied)
                         THEN pc' = "refused" /\ todo' = todo
                         ELSE pc' = pc /\ todo' = todo \ {a}
               /\ UNCHANGED <<url, cfg, clientCalled>>
CallClient  == /\ pc = "accepted" /\ ~clientCalled
               /\ clientCalled' = TRUE
               /\ UNCHANGED <<url, cfg, pc, todo>>
Next == CheckScheme \/ CheckHost \/ CheckAllow \/ Resolve \/ CheckAddr \/ CallClient
Spec == Init /\ [][Next]_vars /\ WF_vars(Next)

(* ---- model-level properties ---- *)
PipelineMatchesPolicy == /\ pc = "accepted" => Allowed(url, cfg)
                         /\ pc = "refused"  => ~Allowed(url, cfg)
ClientOnlyIfAllowed   == clientCalled => Allowed(url, cfg)
DefaultCfg(c)         == c.denied = DefaultDenied /\ c.allow = "none"
DefaultCoversSensitive ==
   \A c \in Configs : DefaultCfg(c) =>
      \A h \in HostForms : (h.denotes \cap MustCoverByDefault # {}) =>
          \A u \in Urls : u.host = h => ~Allowed(u, c)
Decides == <>(pc \in {"accepted", "refused"})
=============================================================================
