----------------------------- MODULE EgressTrace -----------------------------
(***************************************************************************)
(* Trace validation for C19: every recorded request of the real code       *)
(* (validate_url alone, HTTPAction.run, MistralHTTPAction.run,             *)
(* WebhookPublisher.publish with the HTTP client replaced by a recorder)   *)
(* must be a behaviour of Egress.  One initial state per recorded request  *)
(* (tid); the logged events are                                            *)
(*    "resolve"   getaddrinfo was called          = action Resolve         *)
(*    "accepted"  the validation returned         = pc' = "accepted"       *)
(*    "refused"   UrlNotAllowedException          = pc' = "refused"        *)
(*    "client"    the HTTP client was invoked     = action CallClient      *)
(* Unlogged steps (scheme/host/allow-list/address checks) are inferred.    *)
(* A request is accepted iff a state with all its events consumed is       *)
(* reachable; accepted tids are printed, the harness reports the others.   *)
(***************************************************************************)
EXTENDS Egress, Json, IOUtils

TraceLog == ndJsonDeserialize(IOEnv.TRACE_FILE)

VARIABLES tid, l
tvars == <<vars, tid, l>>

ById(S, i) == CHOOSE x \in S : x.id = i
NoHost == [id |-> "nohost", kind |-> "none", denotes |-> {}, resolvable |-> FALSE]
UrlOf(r) == [scheme |-> ById(Schemes, r.scheme), user |-> r.user,
             host |-> IF r.host = "nohost" THEN NoHost ELSE ById(HostForms, r.host),
             port |-> r.port, path |-> r.path]

TInit == /\ tid \in 1..Len(TraceLog)
         /\ l = 0
         /\ url = UrlOf(TraceLog[tid])
         /\ cfg = ById(Configs, TraceLog[tid].cfg)
         /\ pc = "scheme" /\ todo = {} /\ clientCalled = FALSE

Ev == TraceLog[tid].events
Final == {"accepted", "refused"}

Emitted(isResolve, isClient) ==
   IF isClient THEN <<"client">>
   ELSE (IF isResolve THEN <<"resolve">> ELSE <<>>) \o
        (IF pc' # pc /\ pc' \in Final THEN <<pc'>> ELSE <<>>)

Consume(em) == /\ l + Len(em) <= Len(Ev)
               /\ \A i \in 1..Len(em) : Ev[l + i] = em[i]
               /\ l' = l + Len(em)
               /\ UNCHANGED tid

TNext == \/ (CheckScheme \/ CheckHost \/ CheckAllow \/ CheckAddr) /\ Consume(Emitted(FALSE, FALSE))
         \/ Resolve /\ Consume(Emitted(TRUE, FALSE))
         \/ CallClient /\ Consume(Emitted(FALSE, TRUE))

TSpec == TInit /\ [][TNext]_tvars

Done == l = Len(Ev) /\ pc \in Final
\* reporting (evaluated as a state constraint; always TRUE)
Report == /\ (l = 0 /\ pc = "scheme") => PrintT(<<"case", tid, Allowed(url, cfg)>>)
          /\ Done => PrintT(<<"accepted", tid>>)
=============================================================================
