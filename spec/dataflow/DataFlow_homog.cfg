SPECIFICATION Spec
CONSTANTS
  N = 5
  Keys = {"k", "m"}
  AllowNested = TRUE
  Homogeneous = TRUE
INVARIANT SeesLatest
INVARIANT NoStaleCopy
CHECK_DEADLOCK FALSE
