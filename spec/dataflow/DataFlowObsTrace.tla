-------------------------- MODULE DataFlowObsTrace --------------------------
(***************************************************************************)
(* C05 judged on recorded runs of the real engine (harness/checks/c05.py): *)
(* one JSON line per run: prog (abstract definition with, per task and     *)
(* final state, the value it publishes for every variable - branch and     *)
(* global scope), steps[l] = [ev, obs].  The observation carries, per task *)
(* execution, the stored inbound context and the stored published values   *)
(* (verbatim, as canonical JSON text) and the causal relation the engine   *)
(* itself recorded (triggered_by); per action execution, the values the    *)
(* task's input expression saw for every variable (probe); per workflow    *)
(* execution its evaluated output.  A value names its publisher, so        *)
(* "who wrote what this task sees" is observable.                          *)
(*                                                                         *)
(* The expected value is computed here from the causal relation exactly as *)
(* in DataFlow.tla (Latest = causally maximal publishers among the         *)
(* ancestors); the implementation's version counters play no role in it.   *)
(***************************************************************************)
EXTENDS Integers, FiniteSets, Sequences, TLC, Json, IOUtils

TraceLog == ndJsonDeserialize(IOEnv.TRACE_FILE)
VARIABLES tid, l
tvars == <<tid, l>>

Rng(s) == {s[i] : i \in DOMAIN s}
R      == TraceLog[tid]
Steps  == R.steps
D      == R.prog
O      == Steps[l].obs
Last   == l = Len(Steps)
Final  == {"SUCCESS", "ERROR"}
Absent == "<absent>"

Inst(o)      == Rng(o.tk)
\* causal parents as recorded by the engine: a plain task by triggered_by; a join by the completed tasks whose
\* recorded next_tasks name it (for a join that failed, triggered_by lists the culprits instead)
Par(o, t)    == IF t.isJoin THEN {a \in Inst(o) : a.wf = t.wf /\ a.state \in Final /\ t.name \in Rng(a.next)}
                ELSE {a \in Inst(o) : a.sid \in Rng(t.trig)}
RECURSIVE AncD(_, _, _)
AncD(o, t, depth) == IF depth = 0 THEN {} ELSE Par(o, t) \cup UNION {AncD(o, p, depth - 1) : p \in Par(o, t)}
Anc(o, t)    == AncD(o, t, 8)

\* what instance a published for x (branch scope / global scope), by definition and final state
BPub(a, x) == IF a.state = "SUCCESS" THEN D.tasks[a.name].bS[x] ELSE IF a.state = "ERROR" THEN D.tasks[a.name].bE[x] ELSE ""
GPub(a, g) == IF a.state = "SUCCESS" THEN D.tasks[a.name].gS[g] ELSE IF a.state = "ERROR" THEN D.tasks[a.name].gE[g] ELSE ""

LatestOf(o, S, x) == LET P == {a \in S : BPub(a, x) # ""} IN {a \in P : ~\E b \in P : a \in Anc(o, b)}
Latest(o, t, x)   == LatestOf(o, Anc(o, t), x)
BDict(a, x) == IF a.state = "SUCCESS" THEN D.tasks[a.name].dS[x] ELSE IF a.state = "ERROR" THEN D.tasks[a.name].dE[x] ELSE FALSE
\* the value matches what the causally latest publishers L wrote: with one latest publisher there is no choice; with
\* several (a genuine conflict between branches) any of them is right, and concurrent dictionaries may be combined
Match(L, x, val, none) ==
  IF L = {} THEN val = none
  ELSE \/ \E a \in L : val = BPub(a, x)
       \/ (Cardinality(L) > 1 /\ val # none /\ \A a \in L : BDict(a, x))
Started(o, t)     == \E a \in Rng(o.ax) : a.task = t.sid

Chk(name, sid, x, f) == f \/ (PrintT(<<"detail", tid, name, sid, x>>) /\ FALSE)
\* the stored inbound context of a started task holds, for every variable, the value of a causally latest publisher
SeesLatest(o) ==
  \A t \in Inst(o) : Started(o, t) =>
     \A x \in Rng(D.vars) : Chk("SeesLatest", t.sid, x,
        Match(Latest(o, t, x), x, t.seen[x], Absent))
\* ... and that is what its expressions see, falling back to the workflow input
ProbeSeesLatest(o) ==
  \A p \in Rng(o.ax) : p.hasProbe =>
     LET t == CHOOSE t \in Inst(o) : t.sid = p.task IN
     \A x \in Rng(D.vars) : Chk("ProbeSeesLatest", t.sid, x,
        Match(Latest(o, t, x), x, p.pv[x], D.inputVals[x]))
\* a globally published variable is visible to every task that causally follows its publisher
\* (tasks on other branches may or may not see it yet)
GlobalVisible(o) ==
  \A p \in Rng(o.ax) : p.hasProbe =>
     LET t == CHOOSE t \in Inst(o) : t.sid = p.task
         legit(g) == {GPub(b, g) : b \in {b \in Inst(o) : GPub(b, g) # "" /\ b.sid # t.sid /\ t \notin Anc(o, b)}}
     IN \A g \in Rng(D.gvars) : Chk("GlobalVisible", t.sid, g,
           IF \E a \in Anc(o, t) : GPub(a, g) # "" THEN p.pv[g] \in legit(g)
           ELSE p.pv[g] \in legit(g) \cup {D.inputVals[g]})
\* the workflow output is evaluated over the merge of the end tasks' outbound contexts
Ends(o, w) == {t \in Inst(o) : t.wf = w.sid /\ t.state \in Final /\ ~t.hasNext}
OutputSeesLatest(o) ==
  \A w \in Rng(o.wf) : (w.state = "SUCCESS" /\ w.sid = "r") =>
     /\ \A x \in Rng(D.vars) :
          LET S == Ends(o, w) \cup UNION {Anc(o, e) : e \in Ends(o, w)}
              L == LatestOf(o, S, x)
          IN Chk("OutputSeesLatest", w.sid, x, Match(L, x, w.outv[x], D.inputVals[x]))
     /\ \A g \in Rng(D.gvars) :
          LET legit == {GPub(b, g) : b \in {b \in Inst(o) : GPub(b, g) # ""}}
          IN Chk("OutputSeesLatest", w.sid, g, IF legit = {} THEN w.outv[g] = D.inputVals[g] ELSE w.outv[g] \in legit)
\* what a task published is what its definition says for its final state
PublishedAsDefined(o) ==
  \A t \in Inst(o) : t.state \in Final => \A x \in Rng(D.vars) :
     Chk("PublishedAsDefined", t.sid, x, t.pubv[x] = (IF BPub(t, x) = "" THEN Absent ELSE BPub(t, x)))

\* stored data of a finished task and the input of an execution never change afterwards
NoMutation(p, o) ==
  /\ \A a \in Inst(p) : \A b \in Inst(o) : (a.sid = b.sid /\ a.state \in Final /\ b.state \in Final) =>
        (a.inCtx = b.inCtx /\ a.published = b.published)
  /\ \A a \in Rng(p.wf) : \A b \in Rng(o.wf) : a.sid = b.sid => a.inp = b.inp

TInit == tid \in 1..Len(TraceLog) /\ l = 1
TNext == l < Len(Steps) /\ l' = l + 1 /\ UNCHANGED tid
TSpec == TInit /\ [][TNext]_tvars

Rep(name, f) == f \/ PrintT(<<"viol", tid, l, name>>)
Report ==
  /\ (l > 1) => Rep("NoMutation", NoMutation(Steps[l - 1].obs, O))
  /\ Last =>
       /\ Rep("SeesLatest", SeesLatest(O))
       /\ Rep("ProbeSeesLatest", ProbeSeesLatest(O))
       /\ Rep("GlobalVisible", GlobalVisible(O))
       /\ Rep("OutputSeesLatest", OutputSeesLatest(O))
       /\ Rep("PublishedAsDefined", PublishedAsDefined(O))
       /\ PrintT(<<"done", tid, Len(Steps)>>)
=============================================================================
