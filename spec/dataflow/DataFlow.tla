------------------------------ MODULE DataFlow ------------------------------
(***************************************************************************)
(* Data flow of a direct workflow (mistral/workflow/data_flow.py and       *)
(* context_versioning.py), for ONE variable x - versions of different      *)
(* variables never interact.                                               *)
(*                                                                         *)
(* A task's outbound context is its inbound context with the values it     *)
(* published written over it and the version counters of the published     *)
(* leaf paths incremented (get_in_context_with_versions +                  *)
(* evaluate_task_outbound_context, merge strategy "replace").  The inbound *)
(* context of a task is the fold of the outbound contexts of the tasks     *)
(* that triggered it, in the order in which the database happens to list   *)
(* them (evaluate_upstream_context: pop the last one, then                 *)
(* merge_context_by_version the others into it):                           *)
(*    - a key missing on the left is taken from the right,                 *)
(*    - two dictionaries are merged key by key (recursively),              *)
(*    - otherwise the right value wins iff its leaf-path version is        *)
(*      strictly higher;  versions are merged by max.                      *)
(*                                                                         *)
(* A published value is a scalar or a one-level dictionary over Keys; a    *)
(* value is identified by the task that published it (src), 0 = nobody     *)
(* (fallback to input / absent).                                           *)
(*                                                                         *)
(* Init chooses the graph (every forward DAG over 1..N in which every      *)
(* task but the first has a parent; a task with several parents is a       *)
(* `join: all`) and what each task publishes; Run(t) starts and completes  *)
(* a task whose parents are done, choosing the fold order freely.          *)
(*                                                                         *)
(* SeesLatest is the property C05: the value a task sees is, as a whole,   *)
(* the value published by a causally latest publisher among its ancestors. *)
(***************************************************************************)
EXTENDS Integers, FiniteSets, Sequences, TLC

CONSTANTS N,            \* number of tasks
          Keys,         \* sub-keys of nested values
          AllowNested,  \* FALSE: scalars only
          Homogeneous   \* TRUE: all publishers publish values of one shape (all scalars, or dictionaries with the same keys)

Tasks == 1..N
Paths == {"."} \cup Keys                 \* "." = the variable itself, k = the leaf x.k
PubKinds == {"none", "scalar"} \cup (IF AllowNested THEN {"dict"} ELSE {})

VARIABLES edges,        \* the graph
          pub,          \* pub[t] = [kind, keys] what task t publishes for x
          done,         \* tasks that ran
          inb,          \* inb[t]  = inbound context of t (value of x and versions)
          outb          \* outb[t] = outbound context of t
vars == <<edges, pub, done, inb, outb>>

Absent == [kind |-> "absent", src |-> [p \in Paths |-> 0], ver |-> [p \in Paths |-> 0]]

Parents(t) == {p \in Tasks : <<p, t>> \in edges}
RECURSIVE Anc(_)
Anc(t) == Parents(t) \cup UNION {Anc(p) : p \in Parents(t)}

Publishes(t) == pub[t].kind # "none"
Pubs(t)   == {a \in Anc(t) : Publishes(a)}
Latest(t) == {a \in Pubs(t) : ~\E b \in Pubs(t) : a \in Anc(b)}

\* the value published by a, as a context entry without versions
ValueOf(a) == IF pub[a].kind = "scalar" THEN [kind |-> "scalar", src |-> [p \in Paths |-> IF p = "." THEN a ELSE 0]]
              ELSE [kind |-> "dict", src |-> [p \in Paths |-> IF p \in pub[a].keys THEN a ELSE 0]]
Val(c) == [kind |-> c.kind, src |-> c.src]

(* ---- the implementation's algorithm ---- *)
Outbound(t, c) ==
  IF ~Publishes(t) THEN c
  ELSE IF pub[t].kind = "scalar"
       THEN [kind |-> "scalar", src |-> [p \in Paths |-> IF p = "." THEN t ELSE 0],
             ver |-> [c.ver EXCEPT !["."] = @ + 1]]
       ELSE [kind |-> "dict", src |-> [p \in Paths |-> IF p \in pub[t].keys THEN t ELSE 0],
             ver |-> [p \in Paths |-> IF p \in pub[t].keys THEN c.ver[p] + 1 ELSE c.ver[p]]]

MaxV(a, b) == [p \in Paths |-> IF a[p] >= b[p] THEN a[p] ELSE b[p]]
Merge(l, r) ==
  LET v == MaxV(l.ver, r.ver) IN
  IF r.kind = "absent" THEN [l EXCEPT !.ver = v]
  ELSE IF l.kind = "absent" THEN [r EXCEPT !.ver = v]
  ELSE IF l.kind = "dict" /\ r.kind = "dict"
       THEN [kind |-> "dict",
             src |-> [p \in Paths |-> IF r.src[p] = 0 THEN l.src[p]
                                      ELSE IF l.src[p] = 0 THEN r.src[p]
                                      ELSE IF r.ver[p] > l.ver[p] THEN r.src[p] ELSE l.src[p]],
             ver |-> v]
       ELSE IF r.ver["."] > l.ver["."] THEN [r EXCEPT !.ver = v] ELSE [l EXCEPT !.ver = v]

RECURSIVE Fold(_, _)
Fold(acc, rest) == IF rest = <<>> THEN acc ELSE Fold(Merge(acc, outb[Head(rest)]), Tail(rest))

Perms(S) == {f \in [1..Cardinality(S) -> S] : \A i, j \in 1..Cardinality(S) : i # j => f[i] # f[j]}

Init ==
  /\ edges \in {E \in SUBSET {<<i, j>> \in Tasks \X Tasks : i < j} : \A t \in Tasks \ {1} : \E p \in Tasks : <<p, t>> \in E}
  /\ pub \in [Tasks -> {[kind |-> k, keys |-> ks] : k \in PubKinds, ks \in SUBSET Keys} ]
  /\ \A t \in Tasks : (pub[t].kind = "dict") = (pub[t].keys # {})
  /\ Homogeneous => \A a, b \in Tasks : (pub[a].kind # "none" /\ pub[b].kind # "none") => pub[a] = pub[b]
  /\ done = {}
  /\ inb = [t \in Tasks |-> Absent]
  /\ outb = [t \in Tasks |-> Absent]

Run(t) ==
  /\ t \notin done /\ Parents(t) \subseteq done
  /\ \E ord \in Perms(Parents(t)) :
        LET c == IF Parents(t) = {} THEN Absent ELSE Fold(outb[ord[1]], Tail(ord))
        IN /\ inb' = [inb EXCEPT ![t] = c]
           /\ outb' = [outb EXCEPT ![t] = Outbound(t, c)]
  /\ done' = done \cup {t}
  /\ UNCHANGED <<edges, pub>>

Next == \E t \in Tasks : Run(t)
Spec == Init /\ [][Next]_vars /\ WF_vars(Next)

(* ---- the property ---- *)
SeesLatestAt(t) == IF Latest(t) = {} THEN inb[t].kind = "absent"
                   ELSE \E a \in Latest(t) : Val(inb[t]) = ValueOf(a)
SeesLatest == \A t \in done : SeesLatestAt(t)
\* the "stale copy" clause alone: with a single causally latest publisher there is no choice
NoStaleCopy == \A t \in done : (Cardinality(Latest(t)) = 1) => SeesLatestAt(t)
\* the fold order does not matter when there is no genuine conflict
AllRun == <>(done = Tasks)
=============================================================================
