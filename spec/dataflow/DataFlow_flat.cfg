SPECIFICATION Spec
CONSTANTS
  N = 5
  Keys = {}
  AllowNested = FALSE
  Homogeneous = FALSE
INVARIANT SeesLatest
INVARIANT NoStaleCopy
CHECK_DEADLOCK FALSE
