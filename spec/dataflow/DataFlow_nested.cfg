SPECIFICATION Spec
CONSTANTS
  N = 4
  Keys = {"k", "m"}
  AllowNested = TRUE
  Homogeneous = FALSE
INVARIANT NoStaleCopy
CHECK_DEADLOCK FALSE
