------------------------------ MODULE CronProps ------------------------------
(***************************************************************************)
(* C17 - observable state of cron trigger processing and the property      *)
(* formulas over it (shared by the model CronTrigger.tla and by the        *)
(* observation spec CronObsTrace.tla fed from the real                     *)
(* process_cron_triggers_v2).  Time is in minutes; -1 encodes "none".      *)
(***************************************************************************)
EXTENDS Integers, FiniteSets, Sequences, TLC

CONSTANTS Trig,      \* trigger ids
          Proc,      \* processor ids
          Period,    \* [Trig -> Nat]  cron pattern as a period in minutes (0 = no pattern)
          First,     \* [Trig -> Int]  first_execution_time (-1 = none)
          Count,     \* [Trig -> Int]  count (-1 = unlimited)
          Project    \* [Trig -> STRING] owner project

VARIABLES
  now,
  created,    \* [Trig -> BOOLEAN]
  rowNext,    \* [Trig -> Int]  next_execution_time, -2 = no row
  rowRem,     \* [Trig -> Int]  remaining_executions (-1 = NULL)
  starts,     \* Seq of [t, occ, at, proj, inputOk]  start_workflow calls received by the engine client
  consumed,   \* [Trig -> SUBSET Int]  occurrences (next values) that some processor advanced past / deleted
  lost,       \* SUBSET (Trig \X Int)  occurrences whose winner died before starting the workflow
  alive,      \* [Proc -> BOOLEAN]
  busy,       \* [Proc -> BOOLEAN]  processor is in the middle of a pass
  mono        \* BOOLEAN  history: next_execution_time never moved backwards / off the pattern so far

obsvars == <<now, created, rowNext, rowRem, starts, consumed, lost, alive, busy, mono>>

StartsOf(t)   == {i \in 1..Len(starts) : starts[i].t = t}
Started(t, o) == \E i \in 1..Len(starts) : starts[i].t = t /\ starts[i].occ = o
OnGrid(t, x)  == (Period[t] > 0 /\ x % Period[t] = 0) \/ x = First[t]

OncePerOccurrence == \A i, j \in 1..Len(starts) :
                        (i # j) => ~(starts[i].t = starts[j].t /\ starts[i].occ = starts[j].occ)
OnlyDueOccurrences == \A i \in 1..Len(starts) :
                        /\ starts[i].occ <= starts[i].at              \* never before its due time
                        /\ OnGrid(starts[i].t, starts[i].occ)         \* an occurrence of the pattern / the first time
                        /\ starts[i].occ \in consumed[starts[i].t]
CountBound        == \A t \in Trig : Count[t] # -1 => Cardinality(StartsOf(t)) <= Count[t]
FirstTimeOnlyOnce == \A t \in Trig : (Period[t] = 0) => Cardinality(StartsOf(t)) <= 1
RemainingConsistent == \A t \in Trig : (created[t] /\ rowNext[t] # -2 /\ Count[t] # -1) =>
                          /\ rowRem[t] > 0
                          /\ rowRem[t] = Count[t] - Cardinality(consumed[t])
RemovedWhenExhausted == \A t \in Trig : (created[t] /\ Count[t] # -1 /\ Cardinality(consumed[t]) >= Count[t]) =>
                          rowNext[t] = -2
OnBehalfOfOwner   == \A i \in 1..Len(starts) : starts[i].proj = Project[starts[i].t] /\ starts[i].inputOk
NextMonotone      == mono
Quiescent         == \A p \in Proc : alive[p] => ~busy[p]
\* at rest every consumed occurrence was started exactly once, unless its winner died in between
ExactlyOnceAtRest == Quiescent => \A t \in Trig : \A o \in consumed[t] : Started(t, o) \/ <<t, o>> \in lost
=============================================================================
