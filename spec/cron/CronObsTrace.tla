---------------------------- MODULE CronObsTrace ----------------------------
(* Observations of the real process_cron_triggers_v2 (harness/cronworld.py):   *)
(* the observable variables take the logged values, every property formula of  *)
(* CronProps is evaluated at every step of every execution (decisive).         *)
EXTENDS CronProps, Json, IOUtils

TraceLog == ndJsonDeserialize(IOEnv.TRACE_FILE)
VARIABLES tid, l
tvars == <<obsvars, tid, l>>
ToSet(s) == {s[x] : x \in DOMAIN s}
Steps == TraceLog[tid].steps
O(k) == Steps[k].obs
Lost(o) == {<<o.lost[x][1], o.lost[x][2]>> : x \in DOMAIN o.lost}
MonoStep(a, b) == \A t \in Trig : (a.rowNext[t] # -2 /\ b.rowNext[t] # -2 /\ b.rowNext[t] # a.rowNext[t]) =>
                     (b.rowNext[t] > a.rowNext[t] /\ b.rowNext[t] > b.now /\ OnGrid(t, b.rowNext[t]))
TInit == /\ tid \in 1..Len(TraceLog) /\ l = 1
         /\ now = O(1).now
         /\ created = [t \in Trig |-> O(1).created[t]]
         /\ rowNext = [t \in Trig |-> O(1).rowNext[t]]
         /\ rowRem = [t \in Trig |-> O(1).rowRem[t]]
         /\ starts = O(1).starts
         /\ consumed = [t \in Trig |-> ToSet(O(1).consumed[t])]
         /\ lost = Lost(O(1))
         /\ alive = [p \in Proc |-> O(1).alive[p]]
         /\ busy = [p \in Proc |-> O(1).busy[p]]
         /\ mono = TRUE
TNext == /\ l < Len(Steps) /\ l' = l + 1 /\ UNCHANGED tid
         /\ now' = O(l + 1).now
         /\ created' = [t \in Trig |-> O(l + 1).created[t]]
         /\ rowNext' = [t \in Trig |-> O(l + 1).rowNext[t]]
         /\ rowRem' = [t \in Trig |-> O(l + 1).rowRem[t]]
         /\ starts' = O(l + 1).starts
         /\ consumed' = [t \in Trig |-> ToSet(O(l + 1).consumed[t])]
         /\ lost' = Lost(O(l + 1))
         /\ alive' = [p \in Proc |-> O(l + 1).alive[p]]
         /\ busy' = [p \in Proc |-> O(l + 1).busy[p]]
         /\ mono' = (mono /\ (Steps[l + 1].ev.a = "Create" \/ MonoStep(O(l), O(l + 1))))
TSpec == TInit /\ [][TNext]_tvars
Rep(name, f) == f \/ PrintT(<<"viol", tid, l, name>>)
Report ==
  /\ Rep("OncePerOccurrence", OncePerOccurrence)
  /\ Rep("OnlyDueOccurrences", OnlyDueOccurrences)
  /\ Rep("CountBound", CountBound)
  /\ Rep("FirstTimeOnlyOnce", FirstTimeOnlyOnce)
  /\ Rep("RemainingConsistent", RemainingConsistent)
  /\ Rep("RemovedWhenExhausted", RemovedWhenExhausted)
  /\ Rep("OnBehalfOfOwner", OnBehalfOfOwner)
  /\ Rep("NextMonotone", NextMonotone)
  /\ Rep("ExactlyOnceAtRest", ExactlyOnceAtRest)
  /\ (l = Len(Steps) => PrintT(<<"done", tid>>))
=============================================================================
