------------------------------ MODULE CronTrace ------------------------------
(* Strict validation: recorded executions of the real code must be behaviours  *)
(* of CronTrigger.tla (divergence check).                                       *)
EXTENDS CronTrigger, Json, IOUtils
TraceLog == ndJsonDeserialize(IOEnv.TRACE_FILE)
VARIABLES tid, l
tvars == <<vars, tid, l>>
ToSet(s) == {s[x] : x \in DOMAIN s}
Steps == TraceLog[tid].steps
O(k) == Steps[k].obs
Lost(o) == {<<o.lost[x][1], o.lost[x][2]>> : x \in DOMAIN o.lost}
TInit == tid \in 1..Len(TraceLog) /\ l = 1 /\ Init
Matches(o) ==
  /\ now' = o.now
  /\ created' = [t \in Trig |-> o.created[t]]
  /\ rowNext' = [t \in Trig |-> o.rowNext[t]]
  /\ rowRem' = [t \in Trig |-> o.rowRem[t]]
  /\ starts' = o.starts
  /\ consumed' = [t \in Trig |-> ToSet(o.consumed[t])]
  /\ lost' = Lost(o)
  /\ alive' = [p \in Proc |-> o.alive[p]]
  /\ busy' = [p \in Proc |-> o.busy[p]]
TNext == /\ l < Len(Steps) /\ l' = l + 1 /\ UNCHANGED tid
         /\ Next /\ ev' = Steps[l + 1].ev /\ Matches(O(l + 1))
TSpec == TInit /\ [][TNext]_tvars
Report == /\ PrintT(<<"reached", tid, l>>)
          /\ (l = Len(Steps) => PrintT(<<"accepted", tid>>))
=============================================================================
