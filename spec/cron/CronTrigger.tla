----------------------------- MODULE CronTrigger -----------------------------
(***************************************************************************)
(* C17 - model of mistral/services/periodic.py process_cron_triggers_v2    *)
(* and advance_cron_trigger run by several API/periodic processes.         *)
(*   Create(t)   triggers.create_cron_trigger (valid combinations only)    *)
(*   List(p)     get_next_cron_triggers: snapshot of the due rows          *)
(*   Advance(p)  advance_cron_trigger on the (possibly stale) snapshot     *)
(*               copy: last execution => delete by name; otherwise         *)
(*               conditional UPDATE on the next_execution_time that was    *)
(*               read, new next = NextOcc(pattern, max(now, read next))    *)
(*   Start(p)    start_workflow through the engine client (winner only)    *)
(*   Crash(p)    the process dies between any two steps                    *)
(*   Tick(d)     time passes (d large = lagging processors)                *)
(***************************************************************************)
EXTENDS CronProps

CONSTANTS MaxTime, Jumps, Immortal, CreateBy

VARIABLES snap,   \* [Proc -> Seq([t, next, rem])] rows read by the running pass, still to process
          stage,  \* [Proc -> {"idle","adv","start"}]
          won,    \* [Proc -> BOOLEAN] the last Advance modified the row
          ev
vars == <<obsvars, snap, stage, won, ev>>
view == <<obsvars, snap, stage, won>>

NextOcc(t, from) == IF Period[t] = 0 THEN 100000        \* the model default pattern "never"
                    ELSE ((from \div Period[t]) + 1) * Period[t]
Max(a, b) == IF a > b THEN a ELSE b

Init == /\ now = 0
        /\ created = [t \in Trig |-> FALSE]
        /\ rowNext = [t \in Trig |-> -2]
        /\ rowRem = [t \in Trig |-> -1]
        /\ starts = <<>>
        /\ consumed = [t \in Trig |-> {}]
        /\ lost = {}
        /\ alive = [p \in Proc |-> TRUE]
        /\ busy = [p \in Proc |-> FALSE]
        /\ mono = TRUE
        /\ snap = [p \in Proc |-> <<>>]
        /\ stage = [p \in Proc |-> "idle"]
        /\ won = [p \in Proc |-> FALSE]
        /\ ev = [a |-> "Init"]

\* validate_cron_trigger_input: first time at least a minute ahead; the rest is fixed by the constants
Create(t) ==
  /\ ~created[t] /\ now <= CreateBy
  /\ (First[t] # -1) => First[t] >= now + 1
  /\ created' = [created EXCEPT ![t] = TRUE]
  /\ rowNext' = [rowNext EXCEPT ![t] = IF First[t] # -1 THEN First[t] ELSE NextOcc(t, now)]
  /\ rowRem' = [rowRem EXCEPT ![t] = IF First[t] # -1 /\ Period[t] = 0 /\ Count[t] = -1 THEN 1 ELSE Count[t]]
  /\ UNCHANGED <<now, starts, consumed, lost, alive, busy, mono, snap, stage, won>>
  /\ ev' = [a |-> "Create", t |-> t]

\* rows with next_execution_time < now + 2s, ordered by next_execution_time
Due == {t \in Trig : rowNext[t] # -2 /\ rowNext[t] <= now}
IsOrdered(s) == \A a, b \in 1..Len(s) : a < b => rowNext[s[a]] <= rowNext[s[b]]
Perms(S) == {s \in [1..Cardinality(S) -> S] : \A a, b \in 1..Cardinality(S) : a # b => s[a] # s[b]}
List(p) ==
  /\ alive[p] /\ stage[p] = "idle"
  /\ \E s \in Perms(Due) :
       /\ IsOrdered(s)
       /\ snap' = [snap EXCEPT ![p] = [x \in 1..Len(s) |-> [t |-> s[x], next |-> rowNext[s[x]], rem |-> rowRem[s[x]]]]]
  /\ stage' = [stage EXCEPT ![p] = IF Due = {} THEN "idle" ELSE "adv"]
  /\ busy' = [busy EXCEPT ![p] = Due # {}]
  /\ UNCHANGED <<now, created, rowNext, rowRem, starts, consumed, lost, alive, mono, won>>
  /\ ev' = [a |-> "List", p |-> p, n |-> Cardinality(Due)]

Advance(p) ==
  /\ alive[p] /\ stage[p] = "adv"
  /\ LET c == Head(snap[p])
         t == c.t
         rem2 == IF c.rem > 0 THEN c.rem - 1 ELSE c.rem
     IN IF rem2 = 0
        THEN \* last execution: delete by name; gone already => lost the race
             /\ IF rowNext[t] # -2
                THEN /\ rowNext' = [rowNext EXCEPT ![t] = -2]
                     /\ rowRem' = [rowRem EXCEPT ![t] = -1]
                     /\ consumed' = [consumed EXCEPT ![t] = @ \cup {rowNext[t]}]
                     /\ won' = [won EXCEPT ![p] = TRUE]
                ELSE /\ UNCHANGED <<rowNext, rowRem, consumed>>
                     /\ won' = [won EXCEPT ![p] = FALSE]
             /\ UNCHANGED mono
        ELSE \* conditional UPDATE ... WHERE next_execution_time = <the value read>
             IF rowNext[t] # -2 /\ rowNext[t] = c.next
             THEN LET nn == NextOcc(t, Max(now, c.next)) IN
                  /\ rowNext' = [rowNext EXCEPT ![t] = nn]
                  /\ rowRem' = [rowRem EXCEPT ![t] = rem2]
                  /\ consumed' = [consumed EXCEPT ![t] = @ \cup {c.next}]
                  /\ mono' = (mono /\ nn > c.next /\ nn > now)
                  /\ won' = [won EXCEPT ![p] = TRUE]
             ELSE /\ UNCHANGED <<rowNext, rowRem, consumed, mono>>
                  /\ won' = [won EXCEPT ![p] = FALSE]
  /\ stage' = [stage EXCEPT ![p] = "start"]
  /\ UNCHANGED <<now, created, starts, lost, alive, busy, snap>>
  /\ ev' = [a |-> "Advance", p |-> p, t |-> Head(snap[p]).t]

Start(p) ==
  /\ alive[p] /\ stage[p] = "start"
  /\ LET c == Head(snap[p]) IN
       /\ starts' = IF won[p]
                    THEN Append(starts, [t |-> c.t, occ |-> c.next, at |-> now, proj |-> Project[c.t], inputOk |-> TRUE])
                    ELSE starts
       /\ ev' = [a |-> "Start", p |-> p, t |-> c.t, started |-> won[p]]
  /\ snap' = [snap EXCEPT ![p] = Tail(@)]
  /\ stage' = [stage EXCEPT ![p] = IF Len(snap[p]) = 1 THEN "idle" ELSE "adv"]
  /\ busy' = [busy EXCEPT ![p] = Len(snap[p]) > 1]
  /\ won' = [won EXCEPT ![p] = FALSE]
  /\ UNCHANGED <<now, created, rowNext, rowRem, consumed, lost, alive, mono>>

Crash(p) ==
  /\ alive[p] /\ p \notin Immortal
  /\ alive' = [alive EXCEPT ![p] = FALSE]
  /\ lost' = IF stage[p] = "start" /\ won[p] THEN lost \cup {<<Head(snap[p]).t, Head(snap[p]).next>>} ELSE lost
  /\ snap' = [snap EXCEPT ![p] = <<>>]
  /\ stage' = [stage EXCEPT ![p] = "idle"]
  /\ busy' = [busy EXCEPT ![p] = FALSE]
  /\ won' = [won EXCEPT ![p] = FALSE]
  /\ UNCHANGED <<now, created, rowNext, rowRem, starts, consumed, mono>>
  /\ ev' = [a |-> "Crash", p |-> p]

Tick(d) ==
  /\ now + d <= MaxTime
  /\ now' = now + d
  /\ UNCHANGED <<created, rowNext, rowRem, starts, consumed, lost, alive, busy, mono, snap, stage, won>>
  /\ ev' = [a |-> "Tick", d |-> d]

Next == \/ \E t \in Trig : Create(t)
        \/ \E p \in Proc : List(p) \/ Advance(p) \/ Start(p) \/ Crash(p)
        \/ \E d \in Jumps : Tick(d)
Spec == Init /\ [][Next]_vars
\* liveness: a due trigger is eventually consumed (some immortal processor keeps polling)
FairSpec == Spec /\ \A p \in Immortal : WF_vars(List(p) \/ Advance(p) \/ Start(p))
DueEventuallyHandled == \A t \in Trig : [](rowNext[t] # -2 /\ rowNext[t] <= now => <>(rowNext[t] = -2 \/ rowNext[t] > now \/ now = MaxTime))
TypeOK == now \in 0..MaxTime
=============================================================================
