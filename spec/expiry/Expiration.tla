----------------------------- MODULE Expiration -----------------------------
(***************************************************************************)
(* C18 - the execution expiration policy deletes only what it is           *)
(* configured to delete.                                                   *)
(*                                                                         *)
(* State: a population of n root executions, identified by their rank in   *)
(* update-time order (1 = least recently updated).  The roots 1..oldcut    *)
(* were last updated before the age cut-off (now - older_than).  Each root *)
(* has a state and a subtree shape (its tasks, actions and                 *)
(* sub-executions are deleted with it through ON DELETE CASCADE - one      *)
(* atomic step here, as in the database).                                  *)
(*                                                                         *)
(* The algorithm is modelled as the code does it                           *)
(* (services/expiration_policy.py, db api get_expired_executions /         *)
(* get_superfluous_executions): an "age" loop and then a "count" loop,     *)
(* each iteration = one transaction = fetch a batch, delete it; the        *)
(* unordered age query may return ANY batch-sized subset.                  *)
(* The declarative expectation ExpectDeleted is written independently.     *)
(***************************************************************************)
EXTENDS Naturals, FiniteSets, Sequences, TLC

CONSTANTS MaxRoots,
          AllStates,          \* workflow execution states that occur
          Terminal,           \* {"SUCCESS","ERROR","CANCELLED"}
          Shapes,             \* subtree shapes (data only)
          Configs             \* set of [age : {"unset","set"}, mfe : Nat, batch : Nat, ignored : SUBSET Terminal]

VARIABLES n, st, shape, oldcut, cfg, alive, phase, log
vars == <<n, st, shape, oldcut, cfg, alive, phase, log>>

Eligible(r)  == st[r] \in (Terminal \ cfg.ignored)
Expired      == IF cfg.age = "set" THEN {r \in 1..n : Eligible(r) /\ r <= oldcut} ELSE {}
Rest         == {r \in 1..n : Eligible(r)} \ Expired
Superfluous  == IF cfg.mfe = 0 THEN {}
                ELSE {r \in Rest : Cardinality({q \in Rest : q > r}) >= cfg.mfe}
ExpectDeleted == Expired \cup Superfluous

Min(a, b) == IF a < b THEN a ELSE b
BatchSize(S) == IF cfg.batch = 0 THEN Cardinality(S) ELSE Min(cfg.batch, Cardinality(S))

Init == /\ n \in 0..MaxRoots
        /\ st \in [1..n -> AllStates]
        /\ shape \in [1..n -> Shapes]
        /\ oldcut \in 0..n
        /\ cfg \in Configs
        /\ alive = 1..n
        /\ phase = "start"
        /\ log = <<>>

\* run_execution_expiration_policy computes now - timedelta(minutes=older_than) first:
\* with older_than unset the pinned code raises TypeError before deleting anything.
\* Skipping the age pass instead is the other admissible behaviour.
Start == /\ phase = "start"
         /\ \/ phase' = "age"
            \/ cfg.age = "unset" /\ phase' = "crashed"
         /\ UNCHANGED <<n, st, shape, oldcut, cfg, alive, log>>

\* one transaction of the age loop: expired candidates still alive
AgeCand == {r \in alive : Eligible(r) /\ cfg.age = "set" /\ r <= oldcut}
AgeBatch(B) == /\ phase = "age"
               /\ B \subseteq AgeCand /\ B # {} /\ Cardinality(B) = BatchSize(AgeCand)
               /\ alive' = alive \ B
               /\ log' = Append(log, B)
               /\ UNCHANGED <<n, st, shape, oldcut, cfg, phase>>
AgeEnd      == /\ phase = "age" /\ AgeCand = {}
               /\ phase' = "count"
               /\ UNCHANGED <<n, st, shape, oldcut, cfg, alive, log>>

\* one transaction of the count loop: ORDER BY updated_at DESC OFFSET mfe LIMIT batch
CountCand == IF cfg.mfe = 0 THEN {}
             ELSE LET E == {r \in alive : Eligible(r)}
                  IN {r \in E : Cardinality({q \in E : q > r}) >= cfg.mfe}
NewestK(S, k) == {r \in S : Cardinality({q \in S : q > r}) < k}
CountBatch  == /\ phase = "count" /\ CountCand # {}
               /\ LET B == NewestK(CountCand, BatchSize(CountCand))
                  IN alive' = alive \ B /\ log' = Append(log, B)
               /\ UNCHANGED <<n, st, shape, oldcut, cfg, phase>>
CountEnd    == /\ phase = "count" /\ CountCand = {}
               /\ phase' = "done"
               /\ UNCHANGED <<n, st, shape, oldcut, cfg, alive, log>>

Next == Start \/ (\E B \in SUBSET AgeCand : AgeBatch(B)) \/ AgeEnd \/ CountBatch \/ CountEnd
Spec == Init /\ [][Next]_vars /\ WF_vars(Next)

Deleted == (1..n) \ alive

(* ---- the property, at model level ---- *)
OnlyExpected      == Deleted \subseteq ExpectDeleted
NeverUnfinished   == \A r \in Deleted : st[r] \in Terminal /\ st[r] \notin cfg.ignored
ExactWhenDone     == phase = "done" => Deleted = ExpectDeleted
NoNewerWhileOlder == phase = "done" =>
                       \A d \in Deleted, k \in alive : Eligible(k) => k > d
Terminates        == <>(phase \in {"done", "crashed"})
=============================================================================
