-------------------------- MODULE ExpirationTrace --------------------------
(***************************************************************************)
(* Observed evaluations of the real run_execution_expiration_policy on     *)
(* real rows, one initial state per recorded case (tid).  Record:          *)
(*   n, st, shape, oldcut, cfg       the materialised population/config    *)
(*   batches   sequence of sets of root ranks, one per committed           *)
(*             transaction that deleted roots                              *)
(*   error     "none" or the exception class that escaped                  *)
(*   survivors set of root ranks still present afterwards                  *)
(*   orphans / incomplete   rows left without their parent / surviving     *)
(*             roots that lost part of their subtree                       *)
(*   terminated  the evaluation returned within the step budget            *)
(* (a) the decisive property formulas are evaluated on the observation;    *)
(* (b) the batches must be a behaviour of Expiration (divergence check).   *)
(***************************************************************************)
EXTENDS Expiration, Json, IOUtils

TraceLog == ndJsonDeserialize(IOEnv.TRACE_FILE)
VARIABLES tid, l
tvars == <<vars, tid, l>>

R == TraceLog[tid]
ToSet(s) == {s[i] : i \in DOMAIN s}
CfgOf(r) == [age |-> r.cfg.age, mfe |-> r.cfg.mfe, batch |-> r.cfg.batch, ignored |-> ToSet(r.cfg.ignored)]

TInit == /\ tid \in 1..Len(TraceLog)
         /\ l = 0
         /\ n = R.n
         /\ st = [i \in 1..R.n |-> R.st[i]]
         /\ shape = [i \in 1..R.n |-> R.shape[i]]
         /\ oldcut = R.oldcut
         /\ cfg = CfgOf(R)
         /\ alive = 1..R.n
         /\ phase = "start"
         /\ log = <<>>

Logged(k) == ToSet(R.batches[k])
TNext == /\ UNCHANGED tid
         /\ \/ Start /\ UNCHANGED l
            \/ AgeEnd /\ UNCHANGED l
            \/ CountEnd /\ UNCHANGED l
            \/ /\ l < Len(R.batches)
               /\ (AgeBatch(Logged(l + 1)) \/ (CountBatch /\ alive \ alive' = Logged(l + 1)))
               /\ l' = l + 1
TSpec == TInit /\ [][TNext]_tvars

Matches == /\ l = Len(R.batches)
           /\ \/ phase = "done" /\ R.error = "none"
              \/ phase = "crashed" /\ R.error # "none" /\ Len(R.batches) = 0
           /\ alive = ToSet(R.survivors)

(* ---- decisive formulas over the observation only ---- *)
ObsDeleted == (1..n) \ ToSet(R.survivors)
ObsOnlyExpected    == ObsDeleted \subseteq ExpectDeleted
ObsNeverUnfinished == \A r \in ObsDeleted : st[r] \in Terminal /\ st[r] \notin cfg.ignored
ObsNoNewerWhileOlder == \A d \in ObsDeleted, k \in ToSet(R.survivors) : Eligible(k) => k > d
ObsTreesComplete   == R.orphans = 0 /\ R.incomplete = 0
ObsTerminated      == R.terminated
ObsExact           == ObsDeleted = ExpectDeleted

Report == /\ (l = 0 /\ phase = "start") =>
               PrintT(<<"case", tid, ObsOnlyExpected, ObsNeverUnfinished, ObsNoNewerWhileOlder,
                        ObsTreesComplete, ObsTerminated, ObsExact>>)
          /\ Matches => PrintT(<<"accepted", tid>>)
=============================================================================
