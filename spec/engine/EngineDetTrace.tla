--------------------------- MODULE EngineDetTrace ---------------------------
(***************************************************************************)
(* C02 - the result of a run does not depend on event order, timing or     *)
(* engine caches.  One JSON line per program of the deterministic class    *)
(* (deterministic actions, no conflicting publishers, no partial join with *)
(* surplus triggers, no terminating command racing a branch):              *)
(*    finals[k] = the final observable outcome of the k-th real run of     *)
(*    that program - same definition, input and action results, different  *)
(*    delivery order of messages / post-commit operations / scheduler      *)
(*    jobs, different scheduler implementation, with and without eviction  *)
(*    of the specification caches between steps.                           *)
(* Deterministic: every run came to rest and all outcomes are equal        *)
(* (execution state and output; per task: state, published variables,      *)
(* routed-to set; per action: state and result).                           *)
(***************************************************************************)
EXTENDS EngineProps, Json, IOUtils
TraceLog == ndJsonDeserialize(IOEnv.TRACE_FILE)
VARIABLE tid
R == TraceLog[tid]
TInit == tid \in 1..Len(TraceLog)
TNext == UNCHANGED tid
TSpec == TInit /\ [][TNext]_tid
Same(a, b) == /\ a.wf = b.wf
              /\ Rng(a.tk) = Rng(b.tk)
              /\ Rng(a.ax) = Rng(b.ax)
Report == /\ \A k \in 1..Len(R.finals) :
               /\ (R.finals[k].quiet \/ PrintT(<<"viol", tid, k, "CameToRest">>))
               /\ (Same(R.finals[1], R.finals[k]) \/ PrintT(<<"viol", tid, k, "Deterministic">>))
          /\ PrintT(<<"done", tid, Len(R.finals)>>)
=============================================================================
