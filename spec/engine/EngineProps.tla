----------------------------- MODULE EngineProps -----------------------------
(***************************************************************************)
(* The engine-related properties (C01-C12, C20), written once over the     *)
(* OBSERVABLE state of a run:                                              *)
(*    O.wf, O.tk, O.ax   sequences of records = the committed rows of      *)
(*                       workflow / task / action executions, with         *)
(*                       structural ids (sid)                              *)
(*    O.pend             what is still in flight (messages, post-commit    *)
(*                       operations, jobs) and the quiescence flag         *)
(*    ev                 the step that led to O (kind, what, exception,    *)
(*                       duplicate flag, individual state writes)          *)
(*    D                  the abstract definition of the program            *)
(* Every operator takes the observations as arguments, so the same text is *)
(* evaluated (i) by EngineObsTrace on every step of every recorded run of  *)
(* the real engine and (ii) by MistralEngine on every reachable state of   *)
(* the model (where O is the projection of the model's variables).         *)
(***************************************************************************)
EXTENDS Integers, FiniteSets, Sequences, TLC

Final    == {"SUCCESS", "ERROR", "CANCELLED"}
Done(s)  == s \in Final \cup {"SKIPPED"}
Rng(s)   == {s[i] : i \in DOMAIN s}
Has(S, sid)  == \E x \in S : x.sid = sid
By(S, sid)   == CHOOSE x \in S : x.sid = sid
TasksOf(O, w) == {t \in Rng(O.tk) : t.wf = w}
KidsAx(O, t)  == {a \in Rng(O.ax) : a.task = t}
KidsWf(O, t)  == {w \in Rng(O.wf) : w.parent = t}
Sids(S)       == {x.sid : x \in S}
\* children of a task, actions and sub-workflows alike, reduced to what with-items accounting looks at
Kids(O, t)    == {[sid |-> a.sid, idx |-> a.idx, state |-> a.state, accepted |-> a.accepted] : a \in KidsAx(O, t)} \cup
                 {[sid |-> w.sid, idx |-> w.idx, state |-> w.state, accepted |-> w.accepted] : w \in KidsWf(O, t)}

(* ------------------------------- C01 ---------------------------------- *)
\* once everything in flight has been delivered no execution is left unfinished
\* (PAUSED only when a pause was requested by the operator or by the definition)
NoHang(O, mayPause) ==
  O.pend.quiet => \A w \in Rng(O.wf) : w.state \in Final \/ (w.state = "PAUSED" /\ mayPause)
\* ... and no join is left waiting inside a workflow that is still considered running
NoWaitingAtRest(O) ==
  O.pend.quiet => \A t \in Rng(O.tk) : t.state = "WAITING" => By(Rng(O.wf), t.wf).state \in Final \cup {"PAUSED"}
\* only tasks of the definition (of the workflow and of the sub-workflows it calls) are ever executed
KnownTasksOnly(D, O) == \A t \in Rng(O.tk) : D.tasks[t.name].wf # "unknown"
DeclaredErrorsOnly(ev, declared, faulty) ==
  /\ \/ ev.exc = "none" \/ ev.exc \in declared
     \/ (ev.exc = "ValueError" /\ (ev.dup \/ faulty))      \* "already completed" rejection of a redelivered / racing result
  \* ... including the exceptions that the post-commit queue and the schedulers catch and only log
  /\ \A x \in Rng(ev.swallowed) : x \in declared \/ (x = "ValueError" /\ (ev.dup \/ faulty))

(* ------------------------------- C03 ---------------------------------- *)
LegalWf(a, b, what) ==
  \/ a = b
  \/ <<a, b>> \in {<<"IDLE", "RUNNING">>, <<"RUNNING", "PAUSED">>, <<"RUNNING", "SUCCESS">>, <<"RUNNING", "ERROR">>,
                   <<"RUNNING", "CANCELLED">>, <<"PAUSED", "RUNNING">>, <<"PAUSED", "ERROR">>, <<"PAUSED", "CANCELLED">>}
  \/ (a \in {"ERROR", "CANCELLED"} /\ b = "RUNNING" /\ what = "rerun")
\* every committed change of an execution's state AND every individual state write made inside the
\* step (decoded from the UPDATE statements) follows the table; writes of one step form a chain
\* from the previously committed state to the newly committed one
WfWrites(ev, sid) == SelectSeq(ev.writes, LAMBDA x : x.kind = "wf" /\ x.sid = sid)
WfMoves(P, O, ev) ==
  /\ \A w \in Rng(O.wf) : Has(Rng(P.wf), w.sid) =>
        LET prev == By(Rng(P.wf), w.sid).state
            ws   == WfWrites(ev, w.sid)
            chain == <<prev>> \o [i \in 1..Len(ws) |-> ws[i].to]
        IN IF Len(ws) = 0 \/ ev.exc # "none"
           THEN LegalWf(prev, w.state, ev.what)
           ELSE /\ \A i \in 1..(Len(chain) - 1) : LegalWf(chain[i], chain[i + 1], ev.what)
                /\ chain[Len(chain)] = w.state
  /\ \A i \in DOMAIN ev.writes : LET wr == ev.writes[i] IN
        (wr.kind = "wf" /\ wr.frm # "") => LegalWf(wr.frm, wr.to, ev.what)
ResultOnce(P, O) ==
  \A a \in Rng(P.ax) : a.state \in Final =>
     /\ Has(Rng(O.ax), a.sid)
     /\ By(Rng(O.ax), a.sid).state = a.state /\ By(Rng(O.ax), a.sid).out = a.out
SuccessSticky(P, O) ==
  \A t \in Rng(P.tk) : t.state = "SUCCESS" => (Has(Rng(O.tk), t.sid) /\ By(Rng(O.tk), t.sid).state = "SUCCESS")
FinishedFrozen(P, O, ev) ==
  \A w \in Rng(P.wf) : (w.state \in Final /\ ev.what # "rerun") =>
     /\ Has(Rng(O.wf), w.sid)
     /\ By(Rng(O.wf), w.sid).state = w.state /\ By(Rng(O.wf), w.sid).output = w.output

(* ------------------------------- C04 ---------------------------------- *)
Started(O, t) == t.state \in {"RUNNING", "DELAYED", "SUCCESS"} \/ KidsAx(O, t.sid) # {} \/ KidsWf(O, t.sid) # {}
Need(D, n)    == IF D.tasks[n].join = -1 THEN Cardinality(Rng(D.inbound[n])) ELSE D.tasks[n].join
FedNames(O, t) == {i.name : i \in {x \in TasksOf(O, t.wf) : Done(x.state) /\ t.name \in Rng(x.next)}}
\* a join leaves WAITING for RUNNING only when enough inbound tasks completed AND routed to it
\* (whether a task is a join is read from the DEFINITION, not from the row: a row created without the join's unique key
\*  is still an execution of a join task)
JoinGate(D, P, O) ==
  \A t \in Rng(O.tk) :
     (D.tasks[t.name].join # 0 /\ Started(O, t) /\ (~Has(Rng(P.tk), t.sid) \/ ~Started(P, By(Rng(P.tk), t.sid))))
        => Cardinality(FedNames(O, t)) >= Need(D, t.name)
\* one execution per join and per run; it starts its action once (no retry / items / rerun involved)
JoinOnce(D, O, rerunSeen) ==
  \A t \in Rng(O.tk) : D.tasks[t.name].join # 0 =>
     /\ \A u \in Rng(O.tk) : (u.wf = t.wf /\ u.name = t.name) => u.sid = t.sid
     /\ (D.tasks[t.name].retry = 0 /\ D.tasks[t.name].items = -1 /\ ~rerunSeen)
           => Cardinality(KidsAx(O, t.sid)) + Cardinality(KidsWf(O, t.sid)) <= 1
\* a task that is not a start task comes into existence only because a completed task routed to it
\* (judged at the step that creates it: what happens to the routing task later is other clauses' business)
Caused(D, P, O) ==
  \A t \in Rng(O.tk) : (D.type = "direct" /\ Rng(D.inbound[t.name]) # {} /\ ~Has(Rng(P.tk), t.sid)) =>
     \E i \in TasksOf(O, t.wf) : t.name \in Rng(i.next) /\ Done(i.state)
\* reverse workflows
ReqGate(D, P, O) ==
  \A t \in Rng(O.tk) :
     (D.type = "reverse" /\ Started(O, t) /\ (~Has(Rng(P.tk), t.sid) \/ ~Started(P, By(Rng(P.tk), t.sid))))
        => \A r \in Rng(D.tasks[t.name].requires) :
              \E i \in TasksOf(O, t.wf) : i.name = r /\ i.state = "SUCCESS"
OnlyNeededOnce(D, O) ==
  D.type = "reverse" =>
     \A t \in Rng(O.tk) : /\ t.name \in Rng(D.closure)
                          /\ \A u \in Rng(O.tk) : (u.wf = t.wf /\ u.name = t.name) => u.sid = t.sid

(* ------------------------------- C06 ---------------------------------- *)
\* (a redelivered run_action request is the executor's business: it answers with one error, see Executor.tla)
DupNoEffect(P, O, ev) == (ev.dup /\ ev.what # "run_action") => (Rng(O.wf) = Rng(P.wf) /\ Rng(O.tk) = Rng(P.tk) /\ Rng(O.ax) = Rng(P.ax))
NoDoubleDispatch(O)   == \A a \in Rng(O.ax) : a.disp <= 1

\* a task without retry / items / rerun starts its action (or sub-workflow) once
StartOnce(D, O, rerunSeen) ==
  \A t \in Rng(O.tk) : (D.tasks[t.name].retry = 0 /\ D.tasks[t.name].items = -1 /\ ~rerunSeen /\ ~t.isJoin) =>
     Cardinality(KidsAx(O, t.sid)) + Cardinality(KidsWf(O, t.sid)) <= 1

(* ------------------------------- C07 ---------------------------------- *)
Live(s) == s \in {"RUNNING", "IDLE", "PAUSED", "DELAYED", "WAITING"}
WithinLimit(D, O) ==
  \A t \in Rng(O.tk) : D.tasks[t.name].conc > 0 =>
     Cardinality({a \in KidsAx(O, t.sid) : Live(a.state)}) + Cardinality({w \in KidsWf(O, t.sid) : Live(w.state)})
        <= D.tasks[t.name].conc
OnePerIndex(D, O, rerunSeen) ==
  \A t \in Rng(O.tk) : D.tasks[t.name].items >= 0 =>
     /\ \A a, b \in Kids(O, t.sid) : (a.accepted /\ b.accepted /\ a.idx = b.idx) => a.sid = b.sid
     /\ \A a \in Kids(O, t.sid) : a.idx >= 0 /\ a.idx < D.tasks[t.name].items
     /\ (D.tasks[t.name].retry = 0 /\ ~rerunSeen) =>
           \A a, b \in Kids(O, t.sid) : a.idx = b.idx => a.sid = b.sid
CompleteAfterAll(D, O) ==
  \* (t.wiCount >= 0: the task did start iterating - a with-items task can also fail before that,
  \*  e.g. as a join whose inbound route died)
  \A t \in Rng(O.tk) : (D.tasks[t.name].items >= 0 /\ t.state \in {"SUCCESS", "ERROR"} /\ t.wiCount >= 0) =>
     /\ \A a \in Kids(O, t.sid) : ~Live(a.state) \/ ~a.accepted
     /\ (By(Rng(O.wf), t.wf).state \notin Final \/ t.state = "SUCCESS") =>
           Cardinality({a.idx : a \in {x \in Kids(O, t.sid) : x.accepted}}) = D.tasks[t.name].items
\* at rest no with-items task is left RUNNING although every one of its items has finished (its accounting never closes)
ItemsTaskCompletes(D, O) ==
  O.pend.quiet => \A t \in Rng(O.tk) :
     (D.tasks[t.name].items >= 0 /\ t.state = "RUNNING" /\ By(Rng(O.wf), t.wf).state = "RUNNING") =>
        (Kids(O, t.sid) = {} \/ \E a \in Kids(O, t.sid) : a.state \notin Final)
WithItemsFinalState(D, O) ==
  \A t \in Rng(O.tk) : (D.tasks[t.name].items >= 0 /\ t.state \in Final /\ t.wiCount >= 0
                          /\ By(Rng(O.wf), t.wf).state \notin Final) =>
     LET acc == {a \in Kids(O, t.sid) : a.accepted} IN
       t.state = IF \E a \in acc : a.state = "CANCELLED" THEN "CANCELLED"
                 ELSE IF \E a \in acc : a.state = "ERROR" THEN "ERROR" ELSE "SUCCESS"

(* ------------------------------- C10 / C11 ---------------------------- *)
NoNewTasksWhilePaused(P, O) ==
  \A w \in Rng(P.wf) : (w.state = "PAUSED" /\ Has(Rng(O.wf), w.sid) /\ By(Rng(O.wf), w.sid).state = "PAUSED")
       => Sids(TasksOf(O, w.sid)) = Sids(TasksOf(P, w.sid))
NoNewTasksAfterStop(P, O, ev) ==
  \A w \in Rng(P.wf) : (w.state \in Final /\ ev.what # "rerun")
       => Sids(TasksOf(O, w.sid)) = Sids(TasksOf(P, w.sid))
\* ... and no join that was still WAITING when the workflow stopped is woken afterwards (its refresh job may still be in the
\* scheduler: it must find the workflow finished), so nothing is started by it
WaitingStaysAfterStop(P, O, ev) ==
  \A w \in Rng(P.wf) : (w.state \in Final /\ ev.what # "rerun" /\ Has(Rng(O.wf), w.sid) /\ By(Rng(O.wf), w.sid).state \in Final)
       \* (a join that had started already and was set back to WAITING by a later trigger - KF-C04-1 - still has its action in
       \*  flight: the late result completes it; the clause is about joins that never started)
       => \A t \in TasksOf(P, w.sid) : (t.state = "WAITING" /\ Kids(P, t.sid) = {} /\ Has(Rng(O.tk), t.sid)) =>
             /\ By(Rng(O.tk), t.sid).state \in {"WAITING", "ERROR", "CANCELLED"}
             /\ Kids(O, t.sid) = Kids(P, t.sid)
\* an acknowledged pause: the execution and its unfinished sub-executions are PAUSED
PauseAck(P, O, ev, target) ==
  \* (a pause of an execution that is PAUSED already is acknowledged too: sub-workflows that started meanwhile - a task created
  \*  before the first pause may start after it - are paused by it)
  (ev.kind = "op" /\ ev.what = "pause" /\ ev.exc = "none" /\ Has(Rng(P.wf), target) /\ By(Rng(P.wf), target).state \in {"RUNNING", "PAUSED"})
     => /\ By(Rng(O.wf), target).state = "PAUSED"
        /\ \A c \in Rng(O.wf) : (c.parent # "" /\ By(Rng(O.tk), c.parent).wf = target /\ c.state \notin Final)
               => c.state = "PAUSED"
\* an acknowledged stop: the execution holds the requested state (unless it had finished before)
StopAck(P, O, ev, target, st) ==
  (ev.kind = "op" /\ ev.what = "stop" /\ ev.exc = "none" /\ Has(Rng(P.wf), target)
      /\ By(Rng(P.wf), target).state \in {"RUNNING", "PAUSED"})
     => By(Rng(O.wf), target).state = st
\* at rest, below a cancelled execution nothing unfinished is left and parents mirror children
TreeCancelled(O) ==
  O.pend.quiet => \A w \in Rng(O.wf) : (w.state = "CANCELLED") =>
     \A c \in Rng(O.wf) : (c.parent # "" /\ By(Rng(O.tk), c.parent).wf = w.sid) =>
         (c.state \in Final /\ (c.state = "CANCELLED" => By(Rng(O.tk), c.parent).state = "CANCELLED"))

(* ------------------------------- C08 ---------------------------------- *)
\* The policy formulas look at a whole recorded run S (sequence of [ev, obs]) up to position l.
FirstSeen(S, l, kind, sid) ==        \* first position at which the row exists (0 if never)
  LET ks == {k \in 1..l : Has(Rng(IF kind = "tk" THEN S[k].obs.tk ELSE IF kind = "ax" THEN S[k].obs.ax ELSE S[k].obs.wf), sid)}
  IN IF ks = {} THEN 0 ELSE CHOOSE k \in ks : \A j \in ks : k <= j
DoneAt(S, l, kind, sid) ==           \* first position at which the row is in a final state (0 if never)
  LET rows(k) == Rng(IF kind = "tk" THEN S[k].obs.tk ELSE IF kind = "ax" THEN S[k].obs.ax ELSE S[k].obs.wf)
      ks == {k \in 1..l : Has(rows(k), sid) /\ By(rows(k), sid).state \in Final}
  IN IF ks = {} THEN 0 ELSE CHOOSE k \in ks : \A j \in ks : k <= j
TimeAt(S, k) == S[k].ev.now
\* retry: at most count+1 attempts, none after the first success, final state = state of the last attempt
AttemptBound(D, O, rerunSeen) ==
  \* (a join that waits for ALL its inbound tasks cannot be triggered again once it started, so it is covered too;
  \*  partial joins can be re-armed by surplus triggers - known finding KF-C04-1 - and are left to JoinOnce)
  \A t \in Rng(O.tk) : (D.tasks[t.name].items = -1 /\ ~rerunSeen /\ (~t.isJoin \/ D.tasks[t.name].join = -1)) =>
     Cardinality(Kids(O, t.sid)) <= D.tasks[t.name].retry + 1
StopAtFirstSuccess(D, S, l) ==
  LET O == S[l].obs IN
  \* (with a continue-on clause a successful attempt may be repeated: RetryStopsWhenTold covers that case)
  \A t \in Rng(O.tk) : (D.tasks[t.name].retry > 0 /\ D.tasks[t.name].items = -1 /\ ~D.tasks[t.name].failOn /\ D.tasks[t.name].contOn = "none") =>
     \A a, b \in Kids(O, t.sid) :
        (a.state = "SUCCESS" /\ a.sid # b.sid) => FirstSeen(S, l, "ax", b.sid) <= FirstSeen(S, l, "ax", a.sid)
\* continue-on / break-on: an attempt is followed by another one only if the policy says so - a failed attempt unless break-on is
\* true or continue-on is false, a successful one only if continue-on is true
Repeatable(d, st) == \/ (st = "ERROR" /\ d.breakOn # "true" /\ d.contOn # "false")
                     \/ (st = "SUCCESS" /\ d.contOn = "true")
PlainRetryTask(D, t) == D.tasks[t.name].retry > 0 /\ D.tasks[t.name].items = -1 /\ ~D.tasks[t.name].failOn /\ D.tasks[t.name].timeout = 0
                        /\ ~D.tasks[t.name].pauseBefore /\ D.tasks[t.name].waitAfter = 0 /\ (~t.isJoin \/ D.tasks[t.name].join = -1)
RetryStopsWhenTold(D, S, l, rerunSeen, opSeen) ==
  LET O == S[l].obs IN
  (~rerunSeen /\ ~opSeen) =>
  \A t \in Rng(O.tk) : PlainRetryTask(D, t) =>
     \A a, b \in KidsAx(O, t.sid) :
        (a.sid # b.sid /\ FirstSeen(S, l, "ax", a.sid) < FirstSeen(S, l, "ax", b.sid) /\ a.state \in Final) => Repeatable(D.tasks[t.name], a.state)
\* ... and at rest a finished task has not stopped early: its last attempt is not repeatable, or the attempts are used up
RetryExhausted(D, S, l, rerunSeen, opSeen) ==
  LET O == S[l].obs IN
  (O.pend.quiet /\ ~rerunSeen /\ ~opSeen) =>
  \A t \in Rng(O.tk) : (PlainRetryTask(D, t) /\ KidsAx(O, t.sid) # {} /\ t.state \in Final /\ By(Rng(O.wf), t.wf).state \in {"SUCCESS", "ERROR"}) =>
     LET last == CHOOSE a \in KidsAx(O, t.sid) :
                    \A b \in KidsAx(O, t.sid) : FirstSeen(S, l, "ax", b.sid) <= FirstSeen(S, l, "ax", a.sid)
     IN (last.state \in Final /\ Repeatable(D.tasks[t.name], last.state)) => Cardinality(KidsAx(O, t.sid)) >= D.tasks[t.name].retry + 1
FinalIffLast(D, S, l, rerunSeen, opSeen) ==
  LET O == S[l].obs IN
  (O.pend.quiet /\ ~rerunSeen /\ ~opSeen) =>
  \A t \in Rng(O.tk) : (D.tasks[t.name].retry > 0 /\ D.tasks[t.name].items = -1 /\ D.tasks[t.name].timeout = 0
                          /\ ~D.tasks[t.name].failOn /\ KidsAx(O, t.sid) # {} /\ t.state \in Final) =>
     LET last == CHOOSE a \in KidsAx(O, t.sid) :
                    \A b \in KidsAx(O, t.sid) : FirstSeen(S, l, "ax", b.sid) <= FirstSeen(S, l, "ax", a.sid)
     IN (t.state = "SUCCESS") <=> (last.state = "SUCCESS")
\* the delay between attempts is respected (virtual time)
DelayRespected(D, S, l) ==
  LET O == S[l].obs IN
  \A t \in Rng(O.tk) : (D.tasks[t.name].retry > 0 /\ D.tasks[t.name].items = -1) =>
     \A a, b \in KidsAx(O, t.sid) :
        (a.sid # b.sid /\ FirstSeen(S, l, "ax", a.sid) < FirstSeen(S, l, "ax", b.sid) /\ DoneAt(S, l, "ax", a.sid) > 0)
          => TimeAt(S, FirstSeen(S, l, "ax", b.sid)) >= TimeAt(S, DoneAt(S, l, "ax", a.sid)) + D.tasks[t.name].delay
\* wait-before: the first action of the task is not created before the delay has elapsed
WaitBeforeRespected(D, S, l) ==
  LET O == S[l].obs IN
  \A t \in Rng(O.tk) : (D.tasks[t.name].waitBefore > 0 /\ ~t.isJoin) =>
     \A a \in Kids(O, t.sid) :
        TimeAt(S, FirstSeen(S, l, IF Has(Rng(O.ax), a.sid) THEN "ax" ELSE "wf", a.sid))
           >= TimeAt(S, FirstSeen(S, l, "tk", t.sid)) + D.tasks[t.name].waitBefore
\* pause-before: the workflow is PAUSED before the task's action (or sub-workflow) is started, and the action is
\* started only after somebody resumed the workflow
PauseBeforeRespected(D, S, l) ==
  LET O == S[l].obs IN
  \A t \in Rng(O.tk) : (D.tasks[t.name].pauseBefore /\ ~t.isJoin) =>
     \A a \in Kids(O, t.sid) :
        LET born == FirstSeen(S, l, "tk", t.sid)
            f    == FirstSeen(S, l, IF Has(Rng(O.ax), a.sid) THEN "ax" ELSE "wf", a.sid)
        IN \E kp \in born..(f - 1) :
              /\ Has(Rng(S[kp].obs.wf), t.wf) /\ By(Rng(S[kp].obs.wf), t.wf).state = "PAUSED"
              /\ \E kr \in (kp + 1)..f : S[kr].ev.kind = "op" /\ S[kr].ev.what = "resume"
\* wait-after: the follow-up tasks are not created before the delay has elapsed - and they are not lost
WaitAfterRespected(D, S, l) ==
  LET O == S[l].obs IN
  \A t \in Rng(O.tk) : (D.tasks[t.name].waitAfter > 0 /\ D.tasks[t.name].items = -1 /\ D.tasks[t.name].retry = 0) =>
     \A u \in Rng(O.tk) : (t.sid \in Rng(u.trig) /\ ~u.isJoin) =>
        \A a \in KidsAx(O, t.sid) : DoneAt(S, l, "ax", a.sid) > 0 =>
           TimeAt(S, FirstSeen(S, l, "tk", u.sid)) >= TimeAt(S, DoneAt(S, l, "ax", a.sid)) + D.tasks[t.name].waitAfter
\* timeout: a task still incomplete when its timeout expires ends in ERROR; one that completed in time is untouched
TimeoutJudged(D, S, l, opSeen) ==
  LET O == S[l].obs IN
  (O.pend.quiet /\ ~opSeen) =>
  \A t \in Rng(O.tk) : (D.tasks[t.name].timeout > 0 /\ ~t.isJoin /\ D.tasks[t.name].retry = 0 /\ D.tasks[t.name].items = -1
                          /\ D.tasks[t.name].waitBefore = 0 /\ By(Rng(O.wf), t.wf).state # "PAUSED") =>
     LET born == FirstSeen(S, l, "tk", t.sid)
         \* position at which the task itself first reached a final state
         fin  == DoneAt(S, l, "tk", t.sid)
         started == {k \in 1..l : Has(Rng(S[k].obs.tk), t.sid) /\ By(Rng(S[k].obs.tk), t.sid).state = "RUNNING"}
     IN (started # {} /\ fin > 0) =>
          LET st == CHOOSE k \in started : \A j \in started : k <= j IN
            \* finished strictly before the deadline => not failed by the timer
            (TimeAt(S, fin) < TimeAt(S, st) + D.tasks[t.name].timeout) =>
                 (\A k \in fin..l : By(Rng(S[k].obs.tk), t.sid).state = By(Rng(S[fin].obs.tk), t.sid).state)
FailOnApplied(D, O) ==
  \A t \in Rng(O.tk) : (D.tasks[t.name].failOn /\ t.state \in Final /\ D.tasks[t.name].retry = 0 /\ D.tasks[t.name].items = -1) =>
     t.state # "SUCCESS"

(* ------------------------------- C20 ---------------------------------- *)
Expired(a, now, thr) == a.state = "RUNNING" /\ a.isSync /\ a.hb >= 0 /\ a.hb < now - thr
\* a checker pass fails exactly the running synchronous actions whose last heartbeat (or first-heartbeat
\* deadline) is older than max_missed * interval, with the heartbeat error
\* (batch > 0: [action_heartbeat] batch_size is configured - a pass may then fail as few as `batch` of them, but that many it must:
\*  expired actions the checker cannot process - they belong to no task - must not use the batch up pass after pass)
ExpiredFailed(P, O, ev, thr, batch) ==
  (ev.kind = "hb" /\ ev.exc = "none") =>
     LET exp == {a \in Rng(P.ax) : Expired(a, ev.now, thr) /\ Has(Rng(O.ax), a.sid)}
         failed == {a \in exp : By(Rng(O.ax), a.sid).state = "ERROR"}
     IN IF batch = 0 THEN failed = exp
        ELSE Cardinality(failed) >= (IF Cardinality(exp) < batch THEN Cardinality(exp) ELSE batch)
NeverExpireFresh(P, O, ev, thr) ==
  (ev.kind = "hb") =>
     \A a \in Rng(P.ax) : ~Expired(a, ev.now, thr) =>
        (Has(Rng(O.ax), a.sid) => By(Rng(O.ax), a.sid).state = a.state)
\* at rest no task is left RUNNING although all of its actions / sub-workflows have finished
NoStuckTaskAtRest(O) ==
  O.pend.quiet => \A t \in Rng(O.tk) :
     (t.state = "RUNNING" /\ By(Rng(O.wf), t.wf).state = "RUNNING") =>
        (Kids(O, t.sid) = {} \/ \E a \in Kids(O, t.sid) : a.state \notin Final)

(* ------------------------------- C12 ---------------------------------- *)
Ancestors(O, w) ==       \* enclosing executions of execution w (via parent tasks), w included
  LET RECURSIVE Up(_)
      Up(x) == IF x.parent = "" THEN {x.sid}
               ELSE {x.sid} \cup Up(By(Rng(O.wf), By(Rng(O.tk), x.parent).wf))
  IN Up(By(Rng(O.wf), w))
\* an accepted rerun of an ERROR task puts its workflow, all enclosing workflows and their parent tasks back to RUNNING
RerunRestores(P, O, ev) ==
  (ev.kind = "op" /\ ev.what = "rerun" /\ ev.exc = "none" /\ ev.arg # "skip" /\ Has(Rng(P.tk), ev.target)
      /\ By(Rng(P.tk), ev.target).state = "ERROR" /\ By(Rng(P.wf), By(Rng(P.tk), ev.target).wf).state \in {"ERROR", "RUNNING"})
   => LET t == By(Rng(O.tk), ev.target) IN
        \A a \in Ancestors(O, t.wf) :
           /\ By(Rng(O.wf), a).state = "RUNNING"
           /\ By(Rng(O.wf), a).parent # "" => By(Rng(O.tk), By(Rng(O.wf), a).parent).state = "RUNNING"
\* skipping an ERROR task marks it SKIPPED at once
SkipApplied(P, O, ev) ==
  (ev.kind = "op" /\ ev.what = "rerun" /\ ev.exc = "none" /\ ev.arg = "skip" /\ Has(Rng(P.tk), ev.target)
      /\ By(Rng(P.tk), ev.target).state = "ERROR" /\ By(Rng(P.wf), By(Rng(P.tk), ev.target).wf).state \in {"ERROR", "RUNNING"})
   => By(Rng(O.tk), ev.target).state = "SKIPPED"
\* at rest after a rerun: the task was re-executed (it has more children than when the rerun was issued)
RerunReexecutes(Before, O, target, isItems) ==
  (O.pend.quiet /\ Has(Rng(Before.tk), target) /\ ~isItems) =>
      Cardinality(Kids(O, target)) > Cardinality(Kids(Before, target))
\* with-items, reset = FALSE: an item that already succeeded is never executed again
PartialRerunOnlyFailed(Before, O, target) ==
  LET succeeded == {a.idx : a \in {x \in Kids(Before, target) : x.accepted /\ x.state = "SUCCESS"}}
      new == {a \in Kids(O, target) : ~(\E b \in Kids(Before, target) : b.sid = a.sid)}
  IN \A a \in new : a.idx \notin succeeded

(* ------------------------------- C09 ---------------------------------- *)
ParentMirrorsChild(D, O) ==
  O.pend.quiet => \A c \in Rng(O.wf) : (c.parent # "" /\ c.state \in Final /\ c.accepted) =>
     LET pt == By(Rng(O.tk), c.parent) IN
       \* (a parent task the operator SKIPPED keeps that state whatever its failed child says)
       (D.tasks[pt.name].items = -1 /\ D.tasks[pt.name].retry = 0 /\ pt.state # "SKIPPED") => pt.state = c.state
\* a task that calls sub-workflows (one, or one per item) is SUCCESS only when every execution it started has finished
ParentSuccessNeedsChildren(O) ==
  \A c \in Rng(O.wf) : (c.parent # "" /\ By(Rng(O.tk), c.parent).state = "SUCCESS") => c.state \in Final
\* the execution started by a task with `workflow: X` is an execution of the definition X denotes for the caller: the
\* workbook-relative one (<workbook>.X) when the caller lives in a workbook that has it
CalledDefinition(D, O) ==
  \A c \in Rng(O.wf) : c.parent # "" =>
     LET pt == By(Rng(O.tk), c.parent) IN D.tasks[pt.name].sub # "" => c.name = D.wbprefix \o D.tasks[pt.name].sub
RootAndNamespace(O) ==
  \A c \in Rng(O.wf) : c.parent # "" =>
     LET pw == By(Rng(O.wf), By(Rng(O.tk), c.parent).wf) IN c.root = pw.root /\ c.ns = pw.ns /\ c.project = pw.project
=============================================================================
