---------------------------- MODULE MistralEngine ----------------------------
(***************************************************************************)
(* The mistral engine at atomic-step granularity (direct workflows): one   *)
(* action per step that the code commits atomically                        *)
(*   StartWorkflow         DefaultEngine.start_workflow (one transaction)  *)
(*   PtqStep(b)            the next operation of a post-commit batch       *)
(*                         (engine/post_tx_queue.py): send start_task /    *)
(*                         run_action, check_and_complete [own tx],        *)
(*                         schedule_if_needed [own tx]                     *)
(*   DeliverStartTask      task_handler.run_task                           *)
(*   DeliverRunAction      the executor runs the action, result message    *)
(*   DeliverActionComplete action_handler.on_action_complete ->            *)
(*                         Task.complete -> routing -> dispatch            *)
(*   JobCapture / JobInvoke / JobDelete   the three separately committed   *)
(*                         steps of a scheduler job (_refresh_task_state,  *)
(*                         _check_and_fix_integrity)                       *)
(*   Tick                  the clock jumps to the next due time            *)
(* It models what the pinned code does, including the dedupe rule of join  *)
(* refreshes ("only jobs not yet captured count") and the re-arming of a   *)
(* join by Task.defer.                                                     *)
(*                                                                         *)
(* The definition D is a record (tasks, inbound, order) produced by the    *)
(* workflow generator together with the YAML given to mistral; guards are  *)
(* truth values by construction, action results come from the oracle.      *)
(* D is carried as a never-changing variable so that the same module is    *)
(* used with a constant definition (exhaustive model checking, MC files)   *)
(* and with the definition logged in a trace (EngineTrace).                *)
(*                                                                         *)
(* Deliberate abstractions: expressions (guard table, symbolic results),   *)
(* data flow, notifications; one execution per task name (programs in      *)
(* which a non-join task is triggered twice are outside this module);      *)
(* policies, with-items, sub-workflows and operator commands are not       *)
(* modelled here yet (EngineProps judges those on real runs).              *)
(***************************************************************************)
EXTENDS Integers, FiniteSets, Sequences, TLC

VARIABLES D,        \* the abstract definition (never changes)
          wf,       \* state of the root execution: "none", "RUNNING", "SUCCESS", "ERROR"
          tk,       \* [task name -> [state, next, processed, errHandled]]   state "none" = no row
          ax,       \* [task name -> state of its action execution]  "none" | "RUNNING" | "SUCCESS" | "ERROR"
          msgs,     \* in-flight RPC messages: set of [id, m, t, res]
          ptq,      \* post-commit batches: set of [id, ops]   (ops: sequence of [op, t])
          jobs,     \* scheduler job rows: set of [id, func, t, at, phase]   phase "new" | "captured" | "ran"
          now, nid,
          starts,   \* [task name -> number of action executions started]  (history)
          rearmed,  \* a started / finished join was set back to WAITING by Task.defer (history, known finding KF-C04-1)
          ev        \* last event (history)
vars == <<D, wf, tk, ax, msgs, ptq, jobs, now, nid, starts, rearmed, ev>>
view == <<D, wf, tk, ax, msgs, ptq, jobs, now, starts, rearmed>>

Final   == {"SUCCESS", "ERROR", "CANCELLED"}
Done(s) == s \in Final \cup {"SKIPPED"}
Rng(s)  == {s[i] : i \in DOMAIN s}
Names   == Rng(D.order)
IsJoin(t) == D.tasks[t].join # 0
IntegrityDelay == 10    \* workflow_handler.start_workflow: _schedule_check_and_fix_integrity(delay=10)
NoRow == [state |-> "none", next |-> {}, processed |-> FALSE, errHandled |-> FALSE]
Row(s) == [state |-> s, next |-> {}, processed |-> FALSE, errHandled |-> FALSE]
AnyPerm(S) == {s \in [1..Cardinality(S) -> S] : \A a, b \in 1..Cardinality(S) : a # b => s[a] # s[b]}

(* ---- language helpers ---- *)
Fired(edges) == SelectSeq(edges, LAMBDA e : e.fires)
\* commands computed when task t completes with state s: on-error | on-success, then on-complete
NextCmds(t, s) ==
  (IF s = "ERROR" THEN Fired(D.tasks[t].err) ELSE IF s = "SUCCESS" THEN Fired(D.tasks[t].succ) ELSE <<>>)
     \o (IF s \in {"SUCCESS", "ERROR"} THEN Fired(D.tasks[t].comp) ELSE <<>>)
ErrHandled(t, s) == s = "ERROR" /\ Fired(D.tasks[t].err) # <<>>
Targets(cmds) == [i \in 1..Len(cmds) |-> cmds[i].to]
\* dispatcher._rearrange_commands: noop dropped; everything after the first state-changing command dropped
NoNoop(c) == SelectSeq(c, LAMBDA x : x # "noop")
FirstState(c) == LET S == {i \in 1..Len(c) : c[i] \in {"fail", "succeed", "pause"}}
                 IN IF S = {} THEN 0 ELSE CHOOSE i \in S : \A j \in S : i <= j
Rearranged(c0) ==
  LET c == NoNoop(c0)
      i == FirstState(c)
  IN IF i = 0 THEN [tasks |-> c, cmd |-> "none"]
     ELSE [tasks |-> SubSeq(c, 1, i - 1), cmd |-> c[i]]

(* ---- join logic (workflow/direct_workflow.py) ---- *)
Inbound(t) == Rng(D.inbound[t])
RECURSIVE PossibleRoute(_, _, _)
PossibleRoute(t, tks, depth) ==
  IF Inbound(t) = {} \/ depth > 8 THEN TRUE
  ELSE \E i \in Inbound(t) :
         IF tks[i].state = "none" THEN PossibleRoute(i, tks, depth + 1)
         ELSE ~Done(tks[i].state) \/ t \in tks[i].next
Induced(i, j, tks) ==
  IF tks[i].state = "none" THEN (IF PossibleRoute(i, tks, 1) THEN "WAITING" ELSE "ERROR")
  ELSE IF ~Done(tks[i].state) THEN "WAITING"
  ELSE IF j \in tks[i].next THEN "RUNNING" ELSE "ERROR"
JoinLogical(j, tks) ==
  LET ins == Inbound(j)
      cnt(s) == Cardinality({i \in ins : Induced(i, j, tks) = s})
      card == D.tasks[j].join
  IN IF ins = {} THEN "RUNNING"
     ELSE IF card = -1
          THEN (IF cnt("RUNNING") = Cardinality(ins) THEN "RUNNING" ELSE IF cnt("ERROR") > 0 THEN "ERROR" ELSE "WAITING")
          ELSE (IF cnt("RUNNING") >= card THEN "RUNNING"
                ELSE IF cnt("ERROR") > Cardinality(ins) - card THEN "ERROR" ELSE "WAITING")
\* find_indirectly_affected_task_executions: EXISTING joins reachable downstream of t, walking
\* through everything that is not an existing join
Outbound(t) == {e.to : e \in Rng(D.tasks[t].succ) \cup Rng(D.tasks[t].err) \cup Rng(D.tasks[t].comp)} \cap Names
RECURSIVE Walk(_, _, _)
Walk(front, seen, tks) ==
  IF front = {} THEN {}
  ELSE LET x == CHOOSE y \in front : TRUE
           rest == front \ {x}
       IN IF x \in seen THEN Walk(rest, seen, tks)
          ELSE IF IsJoin(x) /\ tks[x].state # "none" THEN {x} \cup Walk(rest, seen \cup {x}, tks)
          ELSE Walk(rest \cup Outbound(x), seen \cup {x}, tks)
Affected(t, tks) == Walk(Outbound(t), {t}, tks)

(* ---- Task.complete + dispatch_workflow_commands + _check_affected_tasks ---- *)
\* rows created / re-armed by dispatching RunTask commands for the names in ts
Dispatched(tks, ts) ==
  [x \in Names |->
     IF x \in ts /\ ~IsJoin(x) THEN Row("IDLE")
     ELSE IF x \in ts /\ IsJoin(x)
          THEN (IF tks[x].state = "none" THEN Row("WAITING") ELSE [tks[x] EXCEPT !.state = "WAITING"])   \* Task.defer
          ELSE tks[x]]
\* The set of possible outcomes [tk, wf, ops]: the order of the task commands (dispatcher._rearrange_commands
\* sorts them with an inconsistent comparator: non-waiting commands first in an implementation-defined order,
\* then the join commands by unique key) and of the schedule_if_needed operations (a Python set) is left
\* open and inferred when validating traces.
Completion(t, s, tks, w) ==
  LET tos   == Targets(NextCmds(t, s))
      nexts == {x \in Rng(tos) : x \in Names}
      tk1   == [tks EXCEPT ![t] = [state |-> s, next |-> nexts, processed |-> (w # "PAUSED"), errHandled |-> ErrHandled(t, s)]]
      check == IF nexts = {} THEN <<[op |-> "check", t |-> ""]>> ELSE <<>>
      r     == Rearranged(tos)
      plain == {x \in Rng(r.tasks) : x \in Names /\ ~IsJoin(x)}
      joins == {x \in Rng(r.tasks) : x \in Names /\ IsJoin(x)}
      tk2   == Dispatched(tk1, plain \cup joins)
      w2    == IF r.cmd = "fail" THEN "ERROR" ELSE IF r.cmd = "succeed" THEN "SUCCESS" ELSE w
      aff   == IF w2 \in Final THEN {} ELSE Affected(t, tk2)
      tseq  == SelectSeq(r.tasks, LAMBDA x : x \in Names)        \* one RunTask command per clause entry (duplicates kept)
      Send(pm) == [i \in 1..Len(tseq) |-> [op |-> "start_task", t |-> tseq[pm[i]]]]
      Refr(seq) == [i \in 1..Len(seq) |-> [op |-> "sched_refresh", t |-> seq[i]]]
  IN IF w = "PAUSED" THEN {[tk |-> tk1, wf |-> w, ops |-> <<>>]}
     ELSE IF w \in Final THEN {[tk |-> tk1, wf |-> w, ops |-> check]}       \* the dispatcher stops on a completed workflow
     ELSE {[tk |-> tk2, wf |-> w2, ops |-> check \o Send(pm) \o Refr(ap)] : pm \in AnyPerm(1..Len(tseq)), ap \in AnyPerm(aff)}

Rearms(tk0, tk1) == \E x \in Names : IsJoin(x) /\ tk0[x].state \notin {"none", "WAITING"} /\ tk1[x].state = "WAITING"
NewBatch(ops) == IF ops = <<>> THEN ptq ELSE ptq \cup {[id |-> nid, ops |-> ops]}

(* ---- actions ---- *)
Init == /\ wf = "none"
        /\ tk = [x \in Names |-> NoRow]
        /\ ax = [x \in Names |-> "none"]
        /\ msgs = {} /\ ptq = {} /\ jobs = {} /\ now = 0 /\ nid = 1
        /\ starts = [x \in Names |-> 0] /\ rearmed = FALSE
        /\ ev = [a |-> "Init"]

StartTasks == {x \in Names : Inbound(x) = {} /\ D.tasks[x].wf = D.name}
StartWorkflow ==
  /\ wf = "none"
  /\ wf' = "RUNNING"
  /\ tk' = Dispatched(tk, StartTasks)
  \* (the order in which the start tasks are dispatched is the iteration order of the specification's task
  \*  dictionary: left open here, inferred from the trace)
  /\ \E pp \in AnyPerm({x \in StartTasks : ~IsJoin(x)}), jp \in AnyPerm({x \in StartTasks : IsJoin(x)}) :
        ptq' = NewBatch([i \in 1..Len(pp \o jp) |-> [op |-> "start_task", t |-> (pp \o jp)[i]]])
  /\ jobs' = jobs \cup {[id |-> nid + 1, func |-> "integrity", t |-> "", at |-> now + IntegrityDelay, phase |-> "new"]}
  /\ nid' = nid + 2
  /\ UNCHANGED <<D, ax, msgs, now, starts, rearmed>>
  /\ ev' = [a |-> "StartWorkflow"]

PtqStep(b) ==
  /\ b \in ptq
  /\ LET o == Head(b.ops)
         rest == IF Len(b.ops) = 1 THEN ptq \ {b} ELSE (ptq \ {b}) \cup {[b EXCEPT !.ops = Tail(b.ops)]}
     IN /\ ev' = [a |-> "PtqStep", op |-> o.op]
        /\ CASE o.op = "start_task" ->
                  /\ msgs' = msgs \cup {[id |-> nid, m |-> "start_task", t |-> o.t, res |-> ""]}
                  /\ ptq' = rest /\ nid' = nid + 1 /\ UNCHANGED <<wf, tk, ax, jobs>>
             [] o.op = "run_action" ->
                  /\ msgs' = msgs \cup {[id |-> nid, m |-> "run_action", t |-> o.t, res |-> ""]}
                  /\ ptq' = rest /\ nid' = nid + 1 /\ UNCHANGED <<wf, tk, ax, jobs>>
             [] o.op = "check" ->              \* workflow_handler.check_and_complete, own transaction
                  /\ ptq' = rest /\ UNCHANGED <<tk, ax, msgs, jobs, nid>>
                  /\ wf' = IF wf # "RUNNING" \/ \E x \in Names : tk[x].state \in {"IDLE", "RUNNING", "WAITING", "DELAYED", "PAUSED"}
                           THEN wf
                           ELSE IF \E x \in Names : tk[x].state = "ERROR" /\ ~tk[x].errHandled THEN "ERROR" ELSE "SUCCESS"
             [] o.op = "sched_refresh" ->      \* task_handler._schedule_if_needed: only jobs not yet captured count
                  /\ ptq' = rest /\ UNCHANGED <<wf, tk, ax, msgs>>
                  /\ IF \E j \in jobs : j.func = "refresh" /\ j.t = o.t /\ j.phase = "new"
                     THEN UNCHANGED <<jobs, nid>>
                     ELSE /\ jobs' = jobs \cup {[id |-> nid, func |-> "refresh", t |-> o.t, at |-> now, phase |-> "new"]}
                          /\ nid' = nid + 1
  /\ UNCHANGED <<D, now, starts, rearmed>>

\* task_handler.run_task, first run
DeliverStartTask(m) ==
  /\ m \in msgs /\ m.m = "start_task"
  /\ msgs' = msgs \ {m}
  /\ IF tk[m.t].state = "IDLE"
     THEN /\ tk' = [tk EXCEPT ![m.t].state = "RUNNING"]
          /\ ax' = [ax EXCEPT ![m.t] = "RUNNING"]
          /\ ptq' = NewBatch(<<[op |-> "run_action", t |-> m.t]>>)
          /\ nid' = nid + 1
          /\ starts' = [starts EXCEPT ![m.t] = @ + 1]
     ELSE UNCHANGED <<tk, ax, ptq, nid, starts>>          \* a waiting join, or a task that is not IDLE any more
  /\ UNCHANGED <<D, wf, jobs, now, rearmed>>
  /\ ev' = [a |-> "DeliverStartTask", t |-> m.t]

Outcome(t) == IF D.tasks[t].outcome[1][1] = "ok" THEN "SUCCESS" ELSE "ERROR"
DeliverRunAction(m) ==
  /\ m \in msgs /\ m.m = "run_action"
  /\ msgs' = (msgs \ {m}) \cup {[id |-> nid, m |-> "on_action_complete", t |-> m.t, res |-> Outcome(m.t)]}
  /\ nid' = nid + 1
  /\ UNCHANGED <<D, wf, tk, ax, ptq, jobs, now, starts, rearmed>>
  /\ ev' = [a |-> "DeliverRunAction", t |-> m.t]

DeliverActionComplete(m) ==
  /\ m \in msgs /\ m.m = "on_action_complete"
  /\ ax[m.t] = "RUNNING"
  /\ msgs' = msgs \ {m}
  /\ ax' = [ax EXCEPT ![m.t] = m.res]
  /\ \E c \in Completion(m.t, m.res, tk, wf) :
        /\ tk' = c.tk /\ wf' = c.wf /\ ptq' = NewBatch(c.ops)
        /\ rearmed' = (rearmed \/ Rearms(tk, c.tk))
  /\ nid' = nid + 1
  /\ UNCHANGED <<D, jobs, now, starts>>
  /\ ev' = [a |-> "DeliverActionComplete", t |-> m.t]

JobCapture(j) ==
  /\ j \in jobs /\ j.phase = "new" /\ j.at <= now
  /\ jobs' = (jobs \ {j}) \cup {[j EXCEPT !.phase = "captured"]}
  /\ UNCHANGED <<D, wf, tk, ax, msgs, ptq, now, nid, starts, rearmed>>
  /\ ev' = [a |-> "JobCapture", func |-> j.func]
JobInvoke(j) ==
  /\ j \in jobs /\ j.phase = "captured"
  /\ ev' = [a |-> "JobInvoke", func |-> j.func]
  /\ IF j.func = "integrity"
     THEN \* _check_and_fix_integrity: nothing to fix in these runs; re-arms itself while the execution is unfinished
          /\ jobs' = (jobs \ {j}) \cup {[j EXCEPT !.phase = "ran"]} \cup
                     (IF wf \in Final THEN {} ELSE {[id |-> nid, func |-> "integrity", t |-> "", at |-> now + 120, phase |-> "new"]})
          /\ nid' = nid + 1
          /\ UNCHANGED <<wf, tk, ax, msgs, ptq, starts, rearmed>>
     ELSE \* _refresh_task_state(join)
          LET t == j.t
              ls == JoinLogical(t, tk)
              done == (jobs \ {j}) \cup {[j EXCEPT !.phase = "ran"]}
          IN /\ jobs' = done
             /\ IF tk[t].state \in {"none", "RUNNING"} \/ Done(tk[t].state) \/ wf \in Final \/ ls = "WAITING"
                THEN UNCHANGED <<wf, tk, ax, msgs, ptq, nid, starts, rearmed>>
                ELSE IF ls = "RUNNING"
                THEN \* continue_task -> _run_existing: the join starts its action
                     /\ tk' = [tk EXCEPT ![t].state = "RUNNING"]
                     /\ ax' = [ax EXCEPT ![t] = "RUNNING"]
                     /\ ptq' = NewBatch(<<[op |-> "run_action", t |-> t]>>)
                     /\ nid' = nid + 1
                     /\ starts' = [starts EXCEPT ![t] = @ + 1]
                     /\ UNCHANGED <<wf, msgs, rearmed>>
                ELSE \* complete_task(ERROR, 'Failed by tasks: ...') with the usual routing
                     /\ \E c \in Completion(t, "ERROR", tk, wf) :
                           /\ tk' = c.tk /\ wf' = c.wf /\ ptq' = NewBatch(c.ops)
                           /\ rearmed' = (rearmed \/ Rearms(tk, c.tk))
                     /\ nid' = nid + 1
                     /\ UNCHANGED <<ax, msgs, starts>>
  /\ UNCHANGED <<D, now>>
JobDelete(j) ==
  /\ j \in jobs /\ j.phase = "ran"
  /\ jobs' = jobs \ {j}
  /\ UNCHANGED <<D, wf, tk, ax, msgs, ptq, now, nid, starts, rearmed>>
  /\ ev' = [a |-> "JobDelete", func |-> j.func]

Enabled == msgs # {} \/ ptq # {} \/ \E j \in jobs : j.phase # "new" \/ j.at <= now
Tick ==
  /\ ~Enabled /\ \E j \in jobs : j.at > now
  /\ now' = CHOOSE x \in {j.at : j \in jobs} : x > now /\ \A j \in jobs : j.at > now => x <= j.at
  /\ UNCHANGED <<D, wf, tk, ax, msgs, ptq, jobs, nid, starts, rearmed>>
  /\ ev' = [a |-> "Tick"]

Next == \/ StartWorkflow
        \/ \E b \in ptq : PtqStep(b)
        \/ \E m \in msgs : DeliverStartTask(m) \/ DeliverRunAction(m) \/ DeliverActionComplete(m)
        \/ \E j \in jobs : JobCapture(j) \/ JobInvoke(j) \/ JobDelete(j)
        \/ Tick
Spec == /\ Init /\ [][Next]_vars
FairSpec == Spec /\ WF_vars(Next)

(* ---- the observable projection, in the shape EngineProps expects ---- *)
ToSeq(S) == CHOOSE s \in AnyPerm(S) : TRUE
ObsTk == ToSeq({[sid |-> "r/" \o x \o "#0", wf |-> "r", name |-> x, state |-> tk[x].state, next |-> ToSeq(tk[x].next),
                 isJoin |-> IsJoin(x), info |-> "", wiCount |-> -1, trig |-> <<>>] : x \in {y \in Names : tk[y].state # "none"}})
ObsAx == ToSeq({[sid |-> "r/" \o x \o "#0@0.0", task |-> "r/" \o x \o "#0", idx |-> 0, state |-> ax[x], accepted |-> ax[x] \in Final,
                 out |-> ax[x], isSync |-> TRUE, disp |-> 1, hb |-> -1] : x \in {y \in Names : ax[y] # "none"}})
ObsWf == IF wf = "none" THEN <<>>
         ELSE <<[sid |-> "r", state |-> wf, parent |-> "", root |-> "r", accepted |-> wf \in Final, output |-> "", ns |-> "",
                 project |-> "", idx |-> 0, info |-> ""]>>
Quiet == ~Enabled /\ ~(\E j \in jobs : j.func # "integrity") /\ wf # "none"
Obs == [wf |-> ObsWf, tk |-> ObsTk, ax |-> ObsAx, pend |-> [quiet |-> Quiet]]

(* ---- model-level properties (the EngineProps formulas on the projection, plus liveness) ---- *)
NoHangM   == Quiet => wf \in Final
NoWaitingAtRestM == Quiet => \A x \in Names : tk[x].state # "WAITING" \/ wf \in Final
\* a join starts its action at most once per run - modulo the known finding KF-C04-1 (re-armed join)
JoinOnceM == rearmed \/ \A x \in Names : starts[x] <= 1
KF_JoinRearmedReached == rearmed
\* a join starts only when enough inbound tasks completed and routed to it
JoinGateM == \A x \in Names : (IsJoin(x) /\ tk[x].state = "RUNNING" /\ ax[x] = "RUNNING") =>
                LET fed == {i \in Inbound(x) : Done(tk[i].state) /\ x \in tk[i].next}
                IN rearmed \/ Cardinality(fed) >= (IF D.tasks[x].join = -1 THEN Cardinality(Inbound(x)) ELSE D.tasks[x].join)
\* finished executions stay finished
FinishedFrozenM == [][(wf \in Final) => (wf' = wf)]_vars
\* confluence (C02 at model level): every terminal state projects to one and the same outcome
\* (checked with one TLC worker: the first terminal outcome seen is kept in TLC register 1)
FinalP == <<wf, [x \in Names |-> <<tk[x].state, tk[x].next, tk[x].errHandled>>], ax>>
Confluent == Quiet => (IF TLCGet(1) = <<>> THEN TLCSet(1, FinalP) ELSE TLCGet(1) = FinalP)
Terminates == <>[](wf \in Final)
TypeOK == wf \in {"none", "RUNNING", "SUCCESS", "ERROR"}
=============================================================================
