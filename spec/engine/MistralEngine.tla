---------------------------- MODULE MistralEngine ----------------------------
(***************************************************************************)
(* The mistral engine at atomic-step granularity (direct workflows): one   *)
(* action per step that the code commits atomically                        *)
(*   StartWorkflow         DefaultEngine.start_workflow (one transaction)  *)
(*   PtqStep(b)            the next operation of a post-commit batch       *)
(*                         (engine/post_tx_queue.py): send start_task /    *)
(*                         run_action, check_and_complete [own tx],        *)
(*                         schedule_if_needed [own tx]                     *)
(*   DeliverStartTask      task_handler.run_task (first run: _run_new;     *)
(*                         otherwise _run_existing)                        *)
(*   DeliverRunAction      the executor runs the action, result message    *)
(*   DeliverActionComplete action_handler.on_action_complete ->            *)
(*                         Task.complete -> routing -> dispatch            *)
(*   JobCapture / JobInvoke / JobDelete   the three separately committed   *)
(*                         steps of a scheduler job (_refresh_task_state,  *)
(*                         _check_and_fix_integrity)                       *)
(*   OpPause / OpResume / OpStop(s)       operator commands                *)
(*                         (DefaultEngine.pause/resume/stop_workflow)      *)
(*   Dup(m)                redelivery of an already delivered message      *)
(*   Tick                  the clock jumps to the next due time            *)
(* It models what the pinned code does, defects included: the dedupe rule  *)
(* of join refreshes ("only jobs not yet captured count"), the re-arming   *)
(* of a join by Task.defer (KF-C04-1), resume dispatching a join without   *)
(* scheduling its refresh (KF-C10-1), resume re-dispatching IDLE tasks     *)
(* whose start message is still in flight (KF-C10-5), stop(ERROR) ignored  *)
(* on a PAUSED execution (KF-C11-1), resume with only noop commands        *)
(* (KF-C10-8).  The history record `hist` names these situations so that   *)
(* the property formulas can be checked modulo the known findings.         *)
(*                                                                         *)
(* The definition D is a record (tasks, inbound, order) produced by the    *)
(* workflow generator together with the YAML given to mistral; guards are  *)
(* truth values by construction, action results come from the oracle.      *)
(* D is carried as a never-changing variable so that the same module is    *)
(* used with a constant definition (exhaustive model checking, MC files)   *)
(* and with the definition logged in a trace (EngineTrace).                *)
(*                                                                         *)
(* Deliberate abstractions: expressions (guard table, symbolic results),   *)
(* data flow, notifications; one execution per task name (programs in      *)
(* which a non-join task is triggered twice are outside this module);      *)
(* policies, with-items, sub-workflows and rerun are not modelled here yet *)
(* (EngineProps judges those on real runs).                                *)
(***************************************************************************)
EXTENDS Integers, FiniteSets, Sequences, TLC

CONSTANTS OpBudget,    \* how many operator commands may be issued (model checking bound)
          OpKinds,     \* which of "pause", "resume", "stop" the operator may issue
          DupBudget,   \* how many redeliveries may happen
          Scheduler,   \* "default" (scheduler/default_scheduler.py: capture / invoke / delete per job) or "legacy"
                       \* (services/legacy_scheduler.py, the configured default: one poll pass captures every due call, invokes them one
                       \* by one, deletes them all)
          QuietRerun,  \* TRUE: the two integrity checks a rerun schedules are left out (they have no effect in these runs; exhaustive
                       \* runs drop them to keep the interleavings down, trace validation and the replayed behaviours keep them)
          NoopOps      \* TRUE: operator commands without effect (pause of a PAUSED execution, resume of a RUNNING one, any
                       \* command on a finished one) are steps too - needed to follow recorded runs, wasteful when model checking

VARIABLES D,        \* the abstract definition (never changes)
          wf,       \* state of the root execution: "none", "RUNNING", "PAUSED", "SUCCESS", "ERROR", "CANCELLED"
          tk,       \* [task name -> [state, next, processed, errHandled]]   state "none" = no row
          ax,       \* [task name -> sequence of its action executions in creation order: [s (state), i (item index), a (accepted)]]
          msgs,     \* in-flight RPC messages: set of [id, m, t, k, res, fr, w]
          seen,     \* delivered messages (without id): candidates for redelivery
          ptq,      \* post-commit batches: set of [id, ops]   (ops: sequence of [op, t, k, fr, w])
          jobs,     \* scheduler job rows: set of [id, func, t, at, phase]   phase "new" | "captured" | "ran"
          backlog,  \* commands saved in the execution's runtime context while it is PAUSED (sequence of [c, t])
          lpass,    \* legacy scheduler only: the poll pass in progress [active, todo (job ids still to invoke), all (ids captured)]
          now,
          hist,     \* history of the run: situations of the known findings, budgets used
          ev        \* last event (history)
vars == <<D, wf, tk, ax, msgs, seen, ptq, jobs, backlog, lpass, now, hist, ev>>
view == <<D, wf, tk, ax, msgs, seen, ptq, jobs, backlog, lpass, now, hist>>

Final   == {"SUCCESS", "ERROR", "CANCELLED"}
Done(s) == s \in Final \cup {"SKIPPED"}
Rng(s)  == {s[i] : i \in DOMAIN s}
Names   == Rng(D.order)
IsJoin(t) == D.tasks[t].join # 0
IntegrityDelay == 10    \* workflow_handler.start_workflow: _schedule_check_and_fix_integrity(delay=10)
\* retryNo: retry_task_policy.retry_no of the runtime context (0 = absent); wbSkip / waSkip: the 'skip' marks of wait-before / wait-after
\* wiCount / wiCap: with_items.count / capacity of the runtime context (-1 = absent / None); conc: the concurrency stored by the
\* before-start policies (0 = none)
NoRow == [state |-> "none", next |-> {}, processed |-> FALSE, errHandled |-> FALSE, retryNo |-> 0, wbSkip |-> FALSE, waSkip |-> FALSE,
          wiCount |-> -1, wiCap |-> -1, conc |-> 0]
Row(s) == [NoRow EXCEPT !.state = s]
AnyPerm(S) == {s \in [1..Cardinality(S) -> S] : \A a, b \in 1..Cardinality(S) : a # b => s[a] # s[b]}
SeqOf(S) == CHOOSE s \in AnyPerm(S) : TRUE
Permute(s, pm) == [i \in 1..Len(s) |-> s[pm[i]]]
Fresh(used) == CHOOSE i \in 1..(Cardinality(used) + 1) : i \notin used
Ids(S) == {x.id : x \in S}
NoPass == [active |-> FALSE, todo |-> <<>>, all |-> {}]
H0 == [rearmed |-> FALSE,     \* a started / finished join was set back to WAITING by Task.defer (KF-C04-1)
       resumeJoin |-> {},     \* joins created or re-armed by the dispatch inside resume_workflow (KF-C10-1 / KF-C10-6)
       noopResume |-> FALSE,  \* a resume found only commands without effect to dispatch (KF-C10-8)
       existingSent |-> FALSE,\* resume re-dispatched an IDLE task as RunExistingTask (KF-C10-5)
       stopIgnored |-> FALSE, \* stop(ERROR) on a PAUSED execution returned without effect (KF-C11-1)
       paused |-> FALSE,      \* a pause was requested (operator or pause command)
       delayedRestart |-> FALSE, \* a _refresh_task_state job restarted a join that was DELAYED (wait-after / retry delay): KF-C08-14
       idxTwice |-> FALSE,       \* a with-items index was started while its previous execution was still RUNNING (KF-C07-5 / -18)
       dupExisting |-> FALSE,    \* a start_task(first_run = False) was redelivered (KF-C06-1)
       reruns |-> 0,             \* accepted rerun / skip commands
       rerunT |-> {},            \* tasks the operator reran (a failed join that is rerun starts by the operator's decision)
       rerunWaiting |-> {},      \* joins that were WAITING when a finished execution was rerun (KF-C12-9)
       itemsRestart |-> FALSE,   \* a start_task sent by resume (KF-C10-5) reached a with-items task that had started already (KF-C07-7)
       timeoutRetry |-> FALSE,   \* the timeout timer failed a task that has a retry policy (KF-C08-1 / -4 / -8)
       multi |-> FALSE,       \* a second execution of a plain task was requested: outside this model (one row per task name)
       ops |-> 0, dups |-> 0]

(* ---- language helpers ---- *)
Fired(edges) == SelectSeq(edges, LAMBDA e : e.fires)
\* commands computed when task t completes with state s: on-error | on-success, then on-complete
NextTargets(t, s) ==
  \* (a SKIPPED task without an on-skip clause follows on-success - and not on-complete)
  LET c == (IF s = "ERROR" THEN Fired(D.tasks[t].err) ELSE IF s \in {"SUCCESS", "SKIPPED"} THEN Fired(D.tasks[t].succ) ELSE <<>>)
             \o (IF s \in {"SUCCESS", "ERROR"} THEN Fired(D.tasks[t].comp) ELSE <<>>)
  IN [i \in 1..Len(c) |-> c[i].to]
Cmd(to) == IF to \in Names THEN [c |-> "run", t |-> to] ELSE [c |-> to, t |-> ""]     \* to in fail / succeed / pause / noop
Cmds(t, s) == LET ts == NextTargets(t, s) IN [i \in 1..Len(ts) |-> Cmd(ts[i])]
\* (reverse workflows: no error handling - an ERROR task is never "handled")
IsReverse == D.type = "reverse"
ErrHandled(t, s) == ~IsReverse /\ s = "ERROR" /\ Fired(D.tasks[t].err) # <<>>
\* dispatcher._rearrange_commands: noop dropped; the task commands before the first state-changing command are sorted
\* (inconsistent comparator: the resulting order is left open); everything after a fail / succeed is dropped; what
\* follows a pause is kept (it goes to the backlog)
StateCmd(c) == c.c \in {"fail", "succeed", "pause"}
FirstState(c) == LET S == {i \in 1..Len(c) : StateCmd(c[i])}
                 IN IF S = {} THEN 0 ELSE CHOOSE i \in S : \A j \in S : i <= j
Arrangements(c0) ==
  LET c == SelectSeq(c0, LAMBDA x : x.c # "noop")
      i == FirstState(c)
  IN IF i = 0 THEN {Permute(c, pm) : pm \in AnyPerm(1..Len(c))}
     ELSE IF i = 1 /\ c[1].c # "pause" THEN {<<c[1]>>}
     ELSE {Permute(SubSeq(c, 1, i - 1), pm) \o <<c[i]>> \o (IF c[i].c = "pause" THEN SubSeq(c, i + 1, Len(c)) ELSE <<>>)
             : pm \in AnyPerm(1..(i - 1))}

(* ---- join logic (workflow/direct_workflow.py) ---- *)
Inbound(t) == Rng(D.inbound[t])
RECURSIVE PossibleRoute(_, _, _)
PossibleRoute(t, tks, depth) ==
  IF Inbound(t) = {} \/ depth > 8 THEN TRUE
  ELSE \E i \in Inbound(t) :
         IF tks[i].state = "none" THEN PossibleRoute(i, tks, depth + 1)
         ELSE ~Done(tks[i].state) \/ t \in tks[i].next
Induced(i, j, tks) ==
  IF tks[i].state = "none" THEN (IF PossibleRoute(i, tks, 1) THEN "WAITING" ELSE "ERROR")
  ELSE IF ~Done(tks[i].state) THEN "WAITING"
  ELSE IF j \in tks[i].next THEN "RUNNING" ELSE "ERROR"
JoinLogical(j, tks) ==
  LET ins == Inbound(j)
      cnt(s) == Cardinality({i \in ins : Induced(i, j, tks) = s})
      card == D.tasks[j].join
  IN IF ins = {} THEN "RUNNING"
     ELSE IF card = -1
          THEN (IF cnt("RUNNING") = Cardinality(ins) THEN "RUNNING" ELSE IF cnt("ERROR") > 0 THEN "ERROR" ELSE "WAITING")
          ELSE (IF cnt("RUNNING") >= card THEN "RUNNING"
                ELSE IF cnt("ERROR") > Cardinality(ins) - card THEN "ERROR" ELSE "WAITING")
\* find_indirectly_affected_task_executions: EXISTING joins reachable downstream of t, walking
\* through everything that is not an existing join
Outbound(t) == {e.to : e \in Rng(D.tasks[t].succ) \cup Rng(D.tasks[t].err) \cup Rng(D.tasks[t].comp)} \cap Names
RECURSIVE Walk(_, _, _)
Walk(front, visited, tks) ==
  IF front = {} THEN {}
  ELSE LET x == CHOOSE y \in front : TRUE
           rest == front \ {x}
       IN IF x \in visited THEN Walk(rest, visited, tks)
          ELSE IF IsJoin(x) /\ tks[x].state # "none" THEN {x} \cup Walk(rest, visited \cup {x}, tks)
          ELSE Walk(rest \cup Outbound(x), visited \cup {x}, tks)
Affected(t, tks) == Walk(Outbound(t), {t}, tks)

(* ---- the transaction state threaded through the handlers ----                                  *)
(* S = [wf, tk, ax, backlog, ops, hist]: ops = the post-commit operations registered so far, in order *)
\* newjobs = the scheduler jobs the transaction persists (policies), in order: [func, t, at, st]
\* (rr: "" | "reset" | "noreset" - a start_task sent by rerun_workflow: RunExistingTask(rerun = True, reset))
Op(o, t) == [op |-> o, t |-> t, k |-> 0, fr |-> TRUE, w |-> FALSE, rr |-> ""]
Cur == [wf |-> wf, tk |-> tk, ax |-> ax, backlog |-> backlog, ops |-> <<>>, hist |-> hist, newjobs |-> <<>>]
Pol(t) == D.tasks[t]
IsItems(t) == D.tasks[t].items >= 0
AxRec(st, i) == [s |-> st, i |-> i, a |-> FALSE]
\* ordinal of the k-th action execution of t among those of the same item index (1 = first execution of that item)
Ord(axs, k) == Cardinality({j \in 1..k : axs[j].i = axs[k].i})
PJob(f, t, at, st) == [func |-> f, t |-> t, at |-> at, st |-> st]

\* Task.create_new for a RunTask command: a plain task gets a new IDLE row; a join is deferred (Task.defer)
Created(tks, t) ==
  IF ~IsJoin(t) THEN (IF tks[t].state = "none" THEN [tks EXCEPT ![t] = Row("IDLE")] ELSE tks)
  ELSE IF tks[t].state = "none" THEN [tks EXCEPT ![t] = Row("WAITING")]
  ELSE [tks EXCEPT ![t].state = "WAITING"]
RearmsOne(tks, t) == IsJoin(t) /\ tks[t].state \notin {"none", "WAITING"}

\* one command in dispatcher._process_commands
Step1(S, c, inResume) ==
  IF S.wf \in Final THEN S
  ELSE IF S.wf = "PAUSED" THEN [S EXCEPT !.backlog = Append(@, c)]
  ELSE CASE c.c = "run" ->
              [S EXCEPT !.tk = Created(@, c.t),
                        !.ops = Append(@, [Op("start_task", c.t) EXCEPT !.w = IsJoin(c.t)]),
                        !.hist.rearmed = @ \/ RearmsOne(S.tk, c.t),
                        !.hist.multi = @ \/ (~IsJoin(c.t) /\ S.tk[c.t].state # "none"),
                        !.hist.resumeJoin = IF inResume /\ IsJoin(c.t) /\ S.tk[c.t].state # "WAITING" THEN @ \cup {c.t} ELSE @]
         [] c.c = "existing" ->
              [S EXCEPT !.ops = Append(@, [Op("start_task", c.t) EXCEPT !.fr = FALSE, !.w = (S.tk[c.t].state = "WAITING")]),
                        !.hist.existingSent = TRUE]
         [] c.c = "rerun" ->    \* create_task(RunExistingTask(rerun = True)): the task is in ERROR, not WAITING - nothing but the message
              [S EXCEPT !.ops = Append(@, [Op("start_task", c.t) EXCEPT !.fr = FALSE, !.rr = c.rr])]
         [] c.c = "fail"    -> [S EXCEPT !.wf = "ERROR"]
         [] c.c = "succeed" -> [S EXCEPT !.wf = "SUCCESS"]
         [] c.c = "pause"   -> [S EXCEPT !.wf = "PAUSED", !.hist.paused = TRUE]
         [] OTHER -> S
RECURSIVE Fold(_, _, _)
Fold(S, cs, inResume) == IF cs = <<>> THEN S ELSE Fold(Step1(S, Head(cs), inResume), Tail(cs), inResume)
\* dispatcher.dispatch_workflow_commands: first the backlog (popped), then the new commands
Dispatch(S, cmds, inResume) ==
  LET S0 == [S EXCEPT !.backlog = <<>>]
      afterBacklog == IF S.backlog = <<>> THEN {S} ELSE {Fold(S0, a, inResume) : a \in Arrangements(S.backlog)}
  IN IF cmds = <<>> THEN afterBacklog
     ELSE UNION {{Fold(S1, a, inResume) : a \in Arrangements(cmds)} : S1 \in afterBacklog}

\* reverse workflows (ReverseWorkflowController._find_next_commands): every task of the target's dependency closure that has no
\* execution yet and whose required tasks have all succeeded - after ANY completion, and at start / resume
RevReady(tks) == {x \in Rng(D.closure) : tks[x].state = "none" /\ \A r \in Rng(D.tasks[x].requires) : tks[r].state = "SUCCESS"}
CmdsR(tks) == LET rs == SeqOf(RevReady(tks)) IN [i \in 1..Len(rs) |-> Cmd(rs[i])]
\* Workflow.check_and_complete
Incomplete(s) == s \in {"IDLE", "RUNNING", "WAITING", "DELAYED", "PAUSED"}
Checked(w, tks) ==
  IF w # "RUNNING" \/ \E x \in Names : Incomplete(tks[x].state) THEN w
  ELSE IF \E x \in Names : tks[x].state = "CANCELLED" THEN "CANCELLED"
  ELSE IF \E x \in Names : tks[x].state = "ERROR" /\ ~tks[x].errHandled THEN "ERROR" ELSE "SUCCESS"

\* policies applied after a task reached state s0 (policies.py, in this order: wait-after, retry): the task's row after
\* them and the jobs they schedule
AfterComplete(S, t, s0) ==
  LET r0 == [S.tk[t] EXCEPT !.state = s0]
      \* wait-after: the first completion is postponed - DELAYED until _complete_task(state) fires
      wa == Pol(t).waitAfter > 0 /\ ~r0.waSkip
      r1 == IF wa THEN [r0 EXCEPT !.state = "DELAYED", !.waSkip = TRUE] ELSE r0
      j1 == IF wa THEN <<PJob("complete", t, now + Pol(t).waitAfter, s0)>> ELSE <<>>
      \* fail-on: a task that is SUCCESS (not one that wait-after has just postponed) becomes ERROR
      r1f == IF r1.state = "SUCCESS" /\ Pol(t).failOn THEN [r1 EXCEPT !.state = "ERROR"] ELSE r1
      \* retry: only for a task that is (still) in a final state; the counter is taken out of the context and put back
      \* (incremented) only if another attempt follows
      applies == Pol(t).retry > 0 /\ r1f.state \in {"SUCCESS", "ERROR"}
      \* (continue-on / break-on: a failed attempt is repeated unless break-on is true or continue-on is false; a successful one only
      \*  if continue-on is true)
      repeatable == \/ (r1f.state = "ERROR" /\ Pol(t).breakOn # "true" /\ Pol(t).contOn # "false")
                    \/ (r1f.state = "SUCCESS" /\ Pol(t).contOn = "true")
      again == applies /\ repeatable /\ r1f.retryNo < Pol(t).retry
      \* (when no further attempt follows the policy removes the counter from its in-memory context only - nested changes of
      \*  the runtime context are not persisted without touch_runtime_context() - the stored counter stays)
      r2 == IF ~again THEN r1f
            ELSE [r1f EXCEPT !.retryNo = @ + 1, !.state = IF IsJoin(t) THEN "WAITING" ELSE "DELAYED"]
      j2 == IF again THEN <<PJob(IF IsJoin(t) THEN "refresh" ELSE "continue", t, now + Pol(t).delay, "")>> ELSE <<>>
  IN [row |-> r2, jobs |-> j1 \o j2, again |-> again]
\* Task.complete(state): ignored for a completed task; the policies may postpone the completion (DELAYED: nothing else
\* happens) or start another attempt; next tasks and error handling are recorded; while the execution is PAUSED nothing
\* is dispatched and the task stays unprocessed; a completed execution routes nowhere
Complete(S, t, s0) ==
  IF Done(S.tk[t].state) THEN {S}
  ELSE LET ac == AfterComplete(S, t, s0)
           s  == ac.row.state
           \* (another attempt: Task.invalidate_result - no execution of the task stays accepted)
           Sj == [S EXCEPT !.newjobs = @ \o ac.jobs,
                           !.ax[t] = IF ac.again THEN [k \in 1..Len(@) |-> [@[k] EXCEPT !.a = FALSE]] ELSE @]
       IN IF s = "DELAYED" THEN {[Sj EXCEPT !.tk[t] = ac.row]}
          ELSE LET cmds  == IF S.wf \in Final THEN <<>> ELSE IF IsReverse THEN CmdsR([S.tk EXCEPT ![t].state = s]) ELSE Cmds(t, s)
                   nexts == {cmds[i].t : i \in {j \in 1..Len(cmds) : cmds[j].c = "run"}}
                   \* (while PAUSED the processed flag is left as it is - FALSE for a fresh row, possibly TRUE for a re-armed join)
                   tk1   == [S.tk EXCEPT ![t] = [ac.row EXCEPT !.next = nexts, !.processed = (IF S.wf = "PAUSED" THEN S.tk[t].processed ELSE TRUE),
                                                                !.errHandled = IF s = "ERROR" THEN (ErrHandled(t, s) /\ S.wf \notin Final) ELSE @]]
               IN IF S.wf = "PAUSED" THEN {[Sj EXCEPT !.tk = tk1]}
                  ELSE Dispatch([Sj EXCEPT !.tk = tk1, !.ops = IF (nexts = {} \/ IsReverse) /\ Done(s) THEN Append(@, Op("check", "")) ELSE @], cmds, FALSE)
\* task_handler._check_affected_tasks: one schedule_if_needed per existing downstream join (a Python set: any order)
CheckAffected(S, t) ==
  IF ~Done(S.tk[t].state) \/ S.wf \in Final THEN {S}
  ELSE {[S EXCEPT !.ops = @ \o [i \in 1..Len(ap) |-> Op("sched_refresh", ap[i])]] : ap \in AnyPerm(Affected(t, S.tk))}
CompleteAndCheck(S, t, s) == UNION {CheckAffected(S1, t) : S1 \in Complete(S, t, s)}
\* RegularTask._schedule_actions: a new action execution and its run_action request
\* (hist.idxTwice: an index is started while an execution of that index is still RUNNING - KF-C07-5 / KF-C07-18)
StartOne(S, t, i) ==
  [S EXCEPT !.hist.idxTwice = @ \/ \E k \in 1..Len(S.ax[t]) : S.ax[t][k].i = i /\ S.ax[t][k].s = "RUNNING" /\ IsItems(t),
            !.ax[t] = Append(@, AxRec("RUNNING", i)), !.ops = Append(@, [Op("run_action", t) EXCEPT !.k = Len(S.ax[t]) + 1])]
\* WithItemsTask._schedule_actions: the first time count and capacity are fixed; the next indexes (those not yet accepted or
\* running, in order, as many as the capacity allows) get an action execution each; no index at all completes the task
Busy(a) == a.a \/ a.s \in {"RUNNING", "IDLE"}
RECURSIVE Sorted(_)
Sorted(S) == IF S = {} THEN <<>> ELSE LET m == CHOOSE i \in S : \A i2 \in S : i <= i2 IN <<m>> \o Sorted(S \ {m})
RECURSIVE StartMany(_, _, _)
StartMany(S, t, idxs) == IF idxs = <<>> THEN S
                         ELSE StartMany([StartOne(S, t, Head(idxs)) EXCEPT !.tk[t].wiCap = IF @ = -1 THEN -1 ELSE @ - 1], t, Tail(idxs))
ScheduleItems(S, t) ==
  LET fresh == S.tk[t].wiCount = -1
      S1 == IF fresh THEN [S EXCEPT !.tk[t].wiCount = Pol(t).items, !.tk[t].wiCap = IF S.tk[t].conc > 0 THEN S.tk[t].conc ELSE -1] ELSE S
      axs == S1.ax[t]
      cnt == S1.tk[t].wiCount
      from == Cardinality({k \in 1..Len(axs) : Busy(axs[k])})
      \* (_get_next_indexes: indexes whose only finished executions are unaccepted ones come first, then everything above them)
      accI == {axs[k].i : k \in {j \in 1..Len(axs) : axs[j].a /\ axs[j].s \in Final}}
      cand == {axs[k].i : k \in {j \in 1..Len(axs) : ~axs[j].a /\ axs[j].s \in Final}} \ accI
      mx == CHOOSE i \in cand : \A i2 \in cand : i2 <= i
      all == IF cand # {} THEN Sorted(cand) \o [j \in 1..(IF cnt - 1 > mx THEN cnt - 1 - mx ELSE 0) |-> mx + j]
             ELSE [j \in 1..(IF cnt > from THEN cnt - from ELSE 0) |-> from + j - 1]
      idxs == IF S1.tk[t].wiCap = -1 \/ S1.tk[t].wiCap >= Len(all) THEN all ELSE SubSeq(all, 1, S1.tk[t].wiCap)
  IN [S2 |-> StartMany(S1, t, idxs), none |-> idxs = <<>>]
\* RegularTask / WithItemsTask._schedule_actions
\* (_reset_actions of _run_existing: accepted ERROR executions are un-accepted first)
Unaccept(S, t) == [S EXCEPT !.ax[t] = [k \in 1..Len(@) |-> IF @[k].a /\ @[k].s = "ERROR" THEN [@[k] EXCEPT !.a = FALSE] ELSE @[k]]]
UnacceptAll(S, t) == [S EXCEPT !.ax[t] = [k \in 1..Len(@) |-> [@[k] EXCEPT !.a = FALSE]]]
Start(S, t) == IF ~IsItems(t) THEN {StartOne(S, t, 0)}
               ELSE LET r == ScheduleItems(S, t) IN IF r.none THEN CompleteAndCheck(r.S2, t, "SUCCESS") ELSE {r.S2}

(* ---- committing a transaction ---- *)
NewBatch(ops) == IF ops = <<>> THEN ptq ELSE ptq \cup {[id |-> Fresh(Ids(ptq)), ops |-> ops]}
Commit(S) == /\ wf' = S.wf /\ tk' = S.tk /\ ax' = S.ax /\ backlog' = S.backlog /\ hist' = S.hist
             /\ ptq' = NewBatch(S.ops)
NewJob(J, func, t, at) == J \cup {[id |-> Fresh(Ids(J)), func |-> func, t |-> t, at |-> at, phase |-> "new", st |-> ""]}
RECURSIVE AddJobs(_, _)
AddJobs(J, js) == IF js = <<>> THEN J
                  ELSE AddJobs(J \cup {[id |-> Fresh(Ids(J)), func |-> Head(js).func, t |-> Head(js).t, at |-> Head(js).at, phase |-> "new", st |-> Head(js).st]}, Tail(js))
Msg(m, t, k, res, fr, w) == [m |-> m, t |-> t, k |-> k, res |-> res, fr |-> fr, w |-> w]
WithId(M, c) == [id |-> Fresh(Ids(M)), m |-> c.m, t |-> c.t, k |-> c.k, res |-> c.res, fr |-> c.fr, w |-> c.w]
NoId(m) == Msg(m.m, m.t, m.k, m.res, m.fr, m.w)
Remember(m) == IF DupBudget > hist.dups THEN seen \cup {NoId(m)} ELSE {}

(* ---- actions ---- *)
Init == /\ wf = "none"
        /\ tk = [x \in Names |-> NoRow]
        /\ ax = [x \in Names |-> <<>>]
        /\ msgs = {} /\ seen = {} /\ ptq = {} /\ jobs = {} /\ backlog = <<>> /\ now = 0
        /\ lpass = NoPass
        /\ hist = H0
        /\ ev = [a |-> "Init"]

StartTasks == IF IsReverse THEN RevReady(tk) ELSE {x \in Names : Inbound(x) = {} /\ D.tasks[x].wf = D.name}
StartWorkflow ==
  /\ wf = "none"
  \* (the order in which the start tasks are dispatched is the iteration order of the specification's task
  \*  dictionary: left open here, inferred from the trace)
  /\ \E S \in Dispatch([Cur EXCEPT !.wf = "RUNNING"], [i \in 1..Cardinality(StartTasks) |-> Cmd(SeqOf(StartTasks)[i])], FALSE) :
        Commit(S)
  /\ jobs' = NewJob(jobs, "integrity", "", now + IntegrityDelay)
  /\ seen' = IF DupBudget > hist.dups THEN {Msg("start_workflow", "", 0, "", TRUE, FALSE)} ELSE {}
  /\ UNCHANGED <<D, msgs, lpass, now>>
  /\ ev' = [a |-> "StartWorkflow"]

PtqStep(b) ==
  /\ b \in ptq
  /\ LET o == Head(b.ops)
         rest == IF Len(b.ops) = 1 THEN ptq \ {b} ELSE (ptq \ {b}) \cup {[b EXCEPT !.ops = Tail(b.ops)]}
     IN /\ ev' = [a |-> "PtqStep", op |-> o.op, t |-> o.t, k |-> o.k, fr |-> o.fr]
        /\ ptq' = rest
        /\ CASE o.op \in {"start_task", "run_action"} ->
                  /\ msgs' = msgs \cup {WithId(msgs, Msg(o.op, o.t, o.k, o.rr, o.fr, o.w))}
                  /\ UNCHANGED <<wf, jobs>>
             [] o.op = "check" ->              \* workflow_handler.check_and_complete, own transaction
                  /\ wf' = Checked(wf, tk)
                  /\ UNCHANGED <<msgs, jobs>>
             [] o.op = "sched_refresh" ->      \* task_handler._schedule_if_needed: only jobs not yet captured count
                  /\ UNCHANGED <<wf, msgs>>
                  /\ jobs' = IF \E j \in jobs : j.func = "refresh" /\ j.t = o.t /\ j.phase = "new"
                             THEN jobs ELSE NewJob(jobs, "refresh", o.t, now)
  /\ UNCHANGED <<D, tk, ax, seen, backlog, lpass, now, hist>>

\* the policies before a start, in this order: wait-before - DELAYED + _continue_task, no action yet; timeout -
\* _fail_task_if_incomplete is armed whether or not the task was delayed; concurrency - the limit goes into the runtime context
\* (pause-before comes first: the task goes back to IDLE and the execution is paused - pause_workflow acts on a RUNNING execution
\*  only; wait-before then finds the task IDLE and does nothing; the task is started by the resume of the execution)
BeforeStart(S, t) ==
  LET pb == Pol(t).pauseBefore
      wb == ~pb /\ Pol(t).waitBefore > 0 /\ ~S.tk[t].wbSkip
      S1 == IF pb THEN [S EXCEPT !.tk[t].state = "IDLE", !.wf = IF @ = "RUNNING" THEN "PAUSED" ELSE @, !.hist.paused = @ \/ (S.wf = "RUNNING")]
            ELSE IF wb THEN [S EXCEPT !.tk[t].state = "DELAYED", !.tk[t].wbSkip = TRUE,
                                 !.newjobs = Append(@, PJob("continue", t, now + Pol(t).waitBefore, ""))]
            ELSE [S EXCEPT !.tk[t].state = "RUNNING"]
      S2 == IF Pol(t).timeout > 0 THEN [S1 EXCEPT !.newjobs = Append(@, PJob("timeout", t, now + Pol(t).timeout, ""))] ELSE S1
  IN [S |-> [S2 EXCEPT !.tk[t].conc = Pol(t).conc], wb |-> wb \/ pb]
\* task_handler.run_task
HandleStartTask(m) ==
  LET t == m.t IN
  IF m.fr
  THEN \* RegularTask._run_new: nothing for a waiting (join) command; an IDLE task starts
       \* (policies before the start, in this order: wait-before - DELAYED + _continue_task, no action yet; timeout -
       \*  _fail_task_if_incomplete is armed whether or not the task was delayed)
       IF ~m.w /\ tk[t].state = "IDLE"
       THEN LET b == BeforeStart(Cur, t) IN IF b.wb THEN {b.S} ELSE Start(b.S, t)
       ELSE CheckAffected(Cur, t)
  ELSE IF m.res # ""
  THEN \* sent by rerun_workflow: _run_existing(rerun = True) - refuses a SUCCESS task; RUNNING, unprocessed; the before-start
       \* policies run again (their context was cleared by the rerun); reset = True un-accepts every execution, otherwise only the
       \* failed ones; a new action (for a with-items task: the next indexes)
       IF m.w THEN CheckAffected(Cur, t)
       ELSE IF tk[t].state \in {"SUCCESS", "none"} THEN {Cur}
       ELSE LET S0 == [Cur EXCEPT !.tk[t].processed = FALSE]
                b == BeforeStart(S0, t)
            IN IF b.wb THEN {b.S} ELSE Start(IF m.res = "reset" THEN UnacceptAll(b.S, t) ELSE Unaccept(b.S, t), t)
  ELSE \* RegularTask._run_existing: refuses a SUCCESS task (MistralError: the transaction rolls back), otherwise sets
       \* RUNNING whatever the state was and starts a new action
       IF m.w THEN CheckAffected(Cur, t)
       ELSE IF tk[t].state \in {"SUCCESS", "none"} THEN {Cur}
       \* (these messages come from the resume of the execution - RunExistingTask with reset = True: no execution stays accepted)
       ELSE Start(UnacceptAll([Cur EXCEPT !.tk[t].state = "RUNNING", !.hist.itemsRestart = @ \/ (IsItems(t) /\ ax[t] # <<>>),
                                          !.tk[t].processed = IF tk[t].state = "RUNNING" THEN @ ELSE FALSE], t), t)
\* the executor: runs the action and sends the result; a redelivered request is answered with an error without running
PendingRun(t, k) == \/ \E m \in msgs : m.m = "run_action" /\ m.t = t /\ m.k = k
                    \/ \E b \in ptq : \E n \in 1..Len(b.ops) : b.ops[n].op = "run_action" /\ b.ops[n].t = t /\ b.ops[n].k = k
\* (the oracle: per item index the outcomes of its successive executions)
Outcome(t, k) == LET i == ax[t][k].i
                     row == IF i + 1 <= Len(D.tasks[t].outcome) THEN D.tasks[t].outcome[i + 1] ELSE <<"ok">>
                     \* (the n-th RUN of that item: executions whose request has not reached the executor yet do not count)
                     n == Cardinality({j \in 1..Len(ax[t]) : ax[t][j].i = i /\ j # k /\ ~PendingRun(t, j)}) + 1
                 IN IF row[IF n <= Len(row) THEN n ELSE Len(row)] = "ok" THEN "SUCCESS" ELSE "ERROR"
\* action_handler.on_action_complete: a completed action refuses a second result (ValueError, rollback)
\* for a with-items task the task-level accounting is decoupled: a keyed scheduler job _scheduled_on_action_complete
HandleActionComplete(m) ==
  IF m.k > Len(ax[m.t]) \/ ax[m.t][m.k].s # "RUNNING" THEN {Cur}
  ELSE LET S1 == [Cur EXCEPT !.ax[m.t][m.k].s = m.res, !.ax[m.t][m.k].a = TRUE]
       IN IF IsItems(m.t) THEN {[S1 EXCEPT !.newjobs = Append(@, PJob("items", m.t, now, ""))]}
          ELSE CompleteAndCheck(S1, m.t, m.res)

Handle(m, isDup) ==
  CASE m.m = "start_task" -> /\ \E S \in HandleStartTask(m) : Commit(S) /\ jobs' = AddJobs(jobs, S.newjobs)
                             /\ msgs' = msgs \ {m}
    [] m.m = "run_action" -> /\ msgs' = (msgs \ {m}) \cup {WithId(msgs \ {m}, Msg("on_action_complete", m.t, m.k, Outcome(m.t, m.k), TRUE, FALSE))}
                             /\ UNCHANGED <<wf, tk, ax, ptq, backlog, hist, jobs>>
    [] m.m = "on_action_complete" -> /\ \E S \in HandleActionComplete(m) : Commit(S) /\ jobs' = AddJobs(jobs, S.newjobs)
                                     /\ msgs' = msgs \ {m}
Deliver(m) ==
  /\ m \in msgs
  /\ Handle(m, FALSE)
  /\ seen' = Remember(m)
  /\ UNCHANGED <<D, lpass, now>>
  /\ ev' = [a |-> "Deliver", m |-> m.m, t |-> m.t, k |-> m.k, fr |-> m.fr, res |-> m.res]
\* redelivery of a message that was delivered before (reliable messaging may deliver twice)
Dup(c) ==
  /\ c \in seen /\ hist.dups < DupBudget
  /\ LET m == [id |-> 0, m |-> c.m, t |-> c.t, k |-> c.k, res |-> c.res, fr |-> c.fr, w |-> c.w]
     \* (a redelivered start_task(first_run = False) - sent by resume or rerun - runs _run_existing once more: KF-C06-1)
     IN /\ CASE c.m = "start_task" -> \E S \in HandleStartTask(m) : Commit([S EXCEPT !.hist.dups = @ + 1, !.hist.dupExisting = @ \/ ~c.fr])
                                                                      /\ jobs' = AddJobs(jobs, S.newjobs) /\ UNCHANGED msgs
             \* the executor refuses to run a redelivered request and reports an error SYNCHRONOUSLY: the engine handles
             \* on_action_complete(error) inside this very step
             [] c.m = "run_action" -> \E S \in HandleActionComplete([m EXCEPT !.res = "ERROR"]) : Commit([S EXCEPT !.hist.dups = @ + 1]) /\ jobs' = AddJobs(jobs, S.newjobs) /\ UNCHANGED msgs
             \* start_workflow with the id of an existing execution returns that execution
             [] c.m = "start_workflow" -> Commit([Cur EXCEPT !.hist.dups = @ + 1]) /\ UNCHANGED <<msgs, jobs>>
             [] c.m = "on_action_complete" -> \E S \in HandleActionComplete(m) : Commit([S EXCEPT !.hist.dups = @ + 1]) /\ jobs' = AddJobs(jobs, S.newjobs) /\ UNCHANGED msgs
  \* (the synchronous error report of the executor is itself a delivered message that may be delivered again)
  /\ seen' = IF DupBudget > hist.dups + 1
             THEN seen \cup (IF c.m = "run_action" THEN {Msg("on_action_complete", c.t, c.k, "ERROR", TRUE, FALSE)} ELSE {})
             ELSE {}
  /\ UNCHANGED <<D, lpass, now>>
  /\ ev' = [a |-> "Dup", m |-> c.m, t |-> c.t, k |-> c.k, fr |-> c.fr, res |-> c.res]

JobCapture(j) ==
  /\ Scheduler = "default"
  /\ j \in jobs /\ j.phase = "new" /\ j.at <= now
  /\ jobs' = (jobs \ {j}) \cup {[j EXCEPT !.phase = "captured"]}
  /\ UNCHANGED <<D, wf, tk, ax, msgs, seen, ptq, backlog, lpass, now, hist>>
  /\ ev' = [a |-> "JobCapture", func |-> j.func, t |-> j.t]
\* the body of a scheduled job (one transaction); `ran` = the job rows after this invocation
InvokeBody(j, ran) ==
     IF j.func = "integrity"
     THEN \* _check_and_fix_integrity: nothing to fix in these runs; re-arms itself while the execution is unfinished
          /\ jobs' = IF wf \in Final THEN ran ELSE NewJob(ran, "integrity", "", now + 120)
          /\ UNCHANGED <<wf, tk, ax, ptq, backlog, hist>>
     ELSE IF j.func = "items"
     THEN \* _scheduled_on_action_complete -> WithItemsTask.on_action_complete (under its named lock, after a refresh): capacity back,
          \* completed (every index accepted and the capacity fully restored) -> final state; else more indexes if a concurrency limit
          \* holds some back
          LET t == j.t
              r == tk[t]
              cap1 == IF r.conc > 0 /\ r.wiCap < r.conc THEN r.wiCap + 1 ELSE r.wiCap
              S1 == [Cur EXCEPT !.tk[t].wiCap = cap1]
              acc == {k \in 1..Len(ax[t]) : ax[t][k].a}
              cnt == IF r.wiCount > 0 THEN r.wiCount ELSE 1
              done == cnt = Cardinality(acc) /\ (r.conc = 0 \/ cap1 = r.conc)
              final == IF \E k \in acc : ax[t][k].s = "ERROR" THEN "ERROR" ELSE "SUCCESS"
              more == r.wiCount > Cardinality({k \in 1..Len(ax[t]) : ax[t][k].a \/ ax[t][k].s = "RUNNING"})
          IN IF r.state = "none" THEN jobs' = ran /\ UNCHANGED <<wf, tk, ax, ptq, backlog, hist>>
             \* (a task that is completed already: nothing - but _check_affected_tasks still runs after it)
             ELSE IF Done(r.state) THEN \E S \in CheckAffected(Cur, t) : Commit(S) /\ jobs' = AddJobs(ran, S.newjobs)
             ELSE IF done THEN \E S \in CompleteAndCheck(S1, t, final) : Commit(S) /\ jobs' = AddJobs(ran, S.newjobs)
             ELSE IF more /\ r.conc > 0 THEN \E S \in Start(S1, t) : Commit(S) /\ jobs' = AddJobs(ran, S.newjobs)
             ELSE Commit(S1) /\ jobs' = ran
     ELSE IF j.func = "continue"
     THEN \* policies._continue_task -> task_handler.continue_task: RUNNING whatever the state was (the compare-and-swap's result
          \* is ignored, a completed task is restarted too), then _run_existing: a new action
          IF tk[j.t].state = "none" THEN jobs' = ran /\ UNCHANGED <<wf, tk, ax, ptq, backlog, hist>>
          ELSE \E S \in Start(Unaccept([Cur EXCEPT !.tk[j.t].state = "RUNNING"], j.t), j.t) : Commit(S) /\ jobs' = AddJobs(ran, S.newjobs)
     ELSE IF j.func \in {"complete", "timeout"}
     THEN \* policies._complete_task(state) / _fail_task_if_incomplete: complete_task unless the task is completed already
          \* (_complete_task on a completed task: Task.complete returns at once, _check_affected_tasks still runs;
          \*  _fail_task_if_incomplete tests the state itself and does nothing)
          IF tk[j.t].state = "none" \/ (Done(tk[j.t].state) /\ j.func = "timeout") THEN jobs' = ran /\ UNCHANGED <<wf, tk, ax, ptq, backlog, hist>>
          ELSE IF Done(tk[j.t].state) THEN \E S \in CheckAffected(Cur, j.t) : Commit(S) /\ jobs' = AddJobs(ran, S.newjobs)
          ELSE \E S \in CompleteAndCheck([Cur EXCEPT !.hist.timeoutRetry = @ \/ (j.func = "timeout" /\ Pol(j.t).retry > 0)], j.t,
                                         IF j.func = "timeout" THEN "ERROR" ELSE j.st) : Commit(S) /\ jobs' = AddJobs(ran, S.newjobs)
     ELSE \* _refresh_task_state(join)
          LET t == j.t
              ls == JoinLogical(t, tk)
          IN /\ IF tk[t].state \in {"none", "RUNNING"} \/ Done(tk[t].state) \/ wf \in Final \/ ls = "WAITING"
                THEN jobs' = ran /\ UNCHANGED <<wf, tk, ax, ptq, backlog, hist>>
                ELSE IF ls = "RUNNING"
                THEN \* continue_task -> _run_existing: the join starts its action
                     \E S \in Start(Unaccept([Cur EXCEPT !.tk[t].state = "RUNNING", !.hist.delayedRestart = @ \/ (tk[t].state = "DELAYED")], t), t) :
                        Commit(S) /\ jobs' = AddJobs(ran, S.newjobs)
                ELSE \* complete_task(ERROR, 'Failed by tasks: ...') with the usual routing
                     \E S \in CompleteAndCheck(Cur, t, "ERROR") : Commit(S) /\ jobs' = AddJobs(ran, S.newjobs)
JobInvoke(j) ==
  /\ Scheduler = "default"
  /\ j \in jobs /\ j.phase = "captured"
  /\ ev' = [a |-> "JobInvoke", func |-> j.func, t |-> j.t]
  /\ InvokeBody(j, (jobs \ {j}) \cup {[j EXCEPT !.phase = "ran"]})
  /\ UNCHANGED <<D, msgs, seen, lpass, now>>
JobDelete(j) ==
  /\ Scheduler = "default"
  /\ j \in jobs /\ j.phase = "ran"
  /\ jobs' = jobs \ {j}
  /\ UNCHANGED <<D, wf, tk, ax, msgs, seen, ptq, backlog, lpass, now, hist>>
  /\ ev' = [a |-> "JobDelete", func |-> j.func, t |-> j.t]

(* ---- legacy scheduler: one poll pass = capture every due call, invoke them one by one, delete them all ---- *)
LPoll ==
  /\ Scheduler = "legacy" /\ ~lpass.active
  /\ LET due == {j \in jobs : j.phase = "new" /\ j.at <= now} IN
       /\ due # {}
       /\ jobs' = (jobs \ due) \cup {[j EXCEPT !.phase = "captured"] : j \in due}
       \* (the calls are invoked in the order of their execution time; ties in an order the database chooses)
       /\ \E ord \in AnyPerm({j.id : j \in due}) :
             /\ \A a, b \in 1..Len(ord) : a < b => (CHOOSE j \in due : j.id = ord[a]).at <= (CHOOSE j \in due : j.id = ord[b]).at
             /\ lpass' = [active |-> TRUE, todo |-> ord, all |-> {j.id : j \in due}]
  /\ UNCHANGED <<D, wf, tk, ax, msgs, seen, ptq, backlog, now, hist>>
  /\ ev' = [a |-> "LPoll"]
LInvoke ==
  /\ Scheduler = "legacy" /\ lpass.active /\ lpass.todo # <<>>
  /\ LET j == CHOOSE x \in jobs : x.id = Head(lpass.todo) IN
       /\ ev' = [a |-> "LInvoke", func |-> j.func, t |-> j.t]
       /\ InvokeBody(j, (jobs \ {j}) \cup {[j EXCEPT !.phase = "ran"]})
  /\ lpass' = [lpass EXCEPT !.todo = Tail(@)]
  /\ UNCHANGED <<D, msgs, seen, now>>
LDelete ==
  /\ Scheduler = "legacy" /\ lpass.active /\ lpass.todo = <<>>
  /\ jobs' = {j \in jobs : j.id \notin lpass.all}
  /\ lpass' = NoPass
  /\ UNCHANGED <<D, wf, tk, ax, msgs, seen, ptq, backlog, now, hist>>
  /\ ev' = [a |-> "LDelete"]

(* ---- operator commands (each is one transaction of DefaultEngine) ---- *)
Spend(S) == [S EXCEPT !.hist.ops = @ + 1]
\* pause_workflow: PAUSED already -> nothing; RUNNING -> PAUSED; a finished execution refuses (WorkflowException)
OpPause ==
  /\ wf # "none" /\ hist.ops < OpBudget /\ "pause" \in OpKinds /\ (NoopOps \/ wf = "RUNNING")
  /\ Commit(Spend(IF wf = "RUNNING" THEN [Cur EXCEPT !.wf = "PAUSED", !.hist.paused = TRUE] ELSE Cur))
  /\ UNCHANGED <<D, msgs, seen, jobs, lpass, now>>
  /\ ev' = [a |-> "OpPause"]
\* resume_workflow: only for a PAUSED execution.  Workflow.resume: RUNNING; commands = RunExistingTask for every IDLE task
\* + the routing of every task that completed while paused (pause commands dropped); those tasks become processed; then
\* dispatch (backlog first) - or, when there is nothing at all to dispatch, an inline completion check
OpResume ==
  /\ wf # "none" /\ hist.ops < OpBudget /\ "resume" \in OpKinds /\ (NoopOps \/ wf = "PAUSED")
  /\ IF wf # "PAUSED" THEN Commit(Spend(Cur))
     ELSE LET idle == {x \in Names : tk[x].state = "IDLE"}
              unproc == {x \in Names : Done(tk[x].state) /\ ~tk[x].processed}
              tk1 == [x \in Names |-> IF x \in unproc THEN [tk[x] EXCEPT !.processed = TRUE] ELSE tk[x]]
              S0 == Spend([Cur EXCEPT !.wf = "RUNNING", !.tk = tk1])
          \* (the commands are permuted once more by the dispatcher: Arrangements; a fixed order of the IDLE tasks loses nothing)
          IN \E ip \in {SeqOf(idle)}, up \in AnyPerm(unproc) :
               LET ex == [i \in 1..Len(ip) |-> [c |-> "existing", t |-> ip[i]]]
                   RECURSIVE Routes(_)
                   Routes(k) == IF k > Len(up) THEN <<>> ELSE Cmds(up[k], tk[up[k]].state) \o Routes(k + 1)
                   cmds == SelectSeq(ex \o (IF IsReverse THEN CmdsR(tk) ELSE Routes(1)), LAMBDA c : c.c # "pause")
               IN IF cmds = <<>> /\ backlog = <<>>
                  THEN Commit([S0 EXCEPT !.wf = Checked("RUNNING", tk1)])
                  ELSE \E S \in Dispatch(S0, cmds, TRUE) :
                          Commit([S EXCEPT !.hist.noopResume = @ \/ (backlog = <<>> /\ \A i \in 1..Len(cmds) : cmds[i].c = "noop")])
  /\ UNCHANGED <<D, msgs, seen, jobs, lpass, now>>
  /\ ev' = [a |-> "OpResume"]
\* stop_workflow(state): SUCCESS only from RUNNING (else WorkflowException); ERROR ignored for a PAUSED or finished
\* execution (KF-C11-1); CANCELLED from RUNNING or PAUSED
OpStop(s) ==
  /\ wf # "none" /\ hist.ops < OpBudget /\ "stop" \in OpKinds /\ (NoopOps \/ wf \in {"RUNNING", "PAUSED"})
  /\ Commit(Spend(CASE s = "SUCCESS" -> IF wf = "RUNNING" THEN [Cur EXCEPT !.wf = "SUCCESS"] ELSE Cur
                    [] s = "ERROR" -> IF wf = "RUNNING" THEN [Cur EXCEPT !.wf = "ERROR"]
                                      ELSE [Cur EXCEPT !.hist.stopIgnored = @ \/ (wf = "PAUSED")]
                    [] s = "CANCELLED" -> IF wf \in {"RUNNING", "PAUSED"} THEN [Cur EXCEPT !.wf = "CANCELLED"] ELSE Cur))
  /\ UNCHANGED <<D, msgs, seen, jobs, lpass, now>>
  /\ ev' = [a |-> "OpStop", s |-> s]
\* rerun_workflow(task, reset) / (skip): nothing for a PAUSED execution; a SUCCESS execution refuses (WorkflowException: SUCCESS ->
\* RUNNING is no valid move, the transaction rolls back); otherwise the execution is RUNNING again, two integrity checks are
\* scheduled (now and after the configured delay), the runtime context of the task is cleared (retry counter, policy flags,
\* with-items accounting, concurrency), finished unprocessed tasks become processed, and the one command is dispatched (after the
\* backlog, if the execution had been stopped while PAUSED)
ClearCtx(r) == [r EXCEPT !.retryNo = 0, !.wbSkip = FALSE, !.waSkip = FALSE, !.wiCount = -1, !.wiCap = -1, !.conc = 0]
RerunPrefix(t) ==
  LET unproc == {x \in Names : Done(tk[x].state) /\ ~tk[x].processed}
      tk1 == [x \in Names |-> IF x = t THEN ClearCtx(tk[x]) ELSE IF x \in unproc THEN [tk[x] EXCEPT !.processed = TRUE] ELSE tk[x]]
  IN Spend([Cur EXCEPT !.wf = "RUNNING", !.tk = tk1, !.hist.reruns = @ + 1, !.hist.rerunT = @ \cup {t},
                       !.hist.rerunWaiting = IF wf \in Final THEN @ \cup {x \in Names : tk[x].state = "WAITING"} ELSE @])
ConfIntegrityDelay == 20     \* [engine] execution_integrity_check_delay (default)
RerunJobs(J) == IF QuietRerun THEN J ELSE NewJob(NewJob(J, "integrity", "", now), "integrity", "", now + ConfIntegrityDelay)
OpRerun(t, reset) ==
  /\ wf # "none" /\ hist.ops < OpBudget /\ "rerun" \in OpKinds /\ tk[t].state = "ERROR" /\ (NoopOps \/ wf \in {"RUNNING", "ERROR", "CANCELLED"})
  /\ IF wf \in {"PAUSED", "SUCCESS"} THEN Commit(Spend(Cur)) /\ UNCHANGED jobs
     ELSE /\ \E S \in Dispatch(RerunPrefix(t), <<[c |-> "rerun", t |-> t, rr |-> IF reset THEN "reset" ELSE "noreset"]>>, FALSE) : Commit(S)
          /\ jobs' = RerunJobs(jobs)
  /\ UNCHANGED <<D, msgs, seen, lpass, now>>
  /\ ev' = [a |-> "OpRerun", t |-> t, reset |-> reset]
\* skip: the command is carried out inside the dispatcher - Task.complete(SKIPPED, skip = True): no policies, the task follows
\* on-success, then _check_affected_tasks
CompleteSkip(S, t) ==
  LET cmds  == IF S.wf \in Final THEN <<>> ELSE IF IsReverse THEN CmdsR([S.tk EXCEPT ![t].state = "SKIPPED"]) ELSE Cmds(t, "SKIPPED")
      nexts == {cmds[i].t : i \in {j \in 1..Len(cmds) : cmds[j].c = "run"}}
      tk1   == [S.tk EXCEPT ![t] = [@ EXCEPT !.state = "SKIPPED", !.next = nexts, !.processed = (IF S.wf = "PAUSED" THEN @ ELSE TRUE)]]
  IN IF S.wf = "PAUSED" THEN {[S EXCEPT !.tk = tk1]}
     ELSE Dispatch([S EXCEPT !.tk = tk1, !.ops = IF nexts = {} \/ IsReverse THEN Append(@, Op("check", "")) ELSE @], cmds, FALSE)
OpSkip(t) ==
  /\ wf # "none" /\ hist.ops < OpBudget /\ "skip" \in OpKinds /\ tk[t].state = "ERROR" /\ (NoopOps \/ wf \in {"RUNNING", "ERROR", "CANCELLED"})
  /\ IF wf \in {"PAUSED", "SUCCESS"} THEN Commit(Spend(Cur)) /\ UNCHANGED jobs
     ELSE /\ \E S1 \in Dispatch(RerunPrefix(t), <<>>, FALSE) :
               IF S1.wf \in Final THEN Commit(S1)
               ELSE IF S1.wf = "PAUSED" THEN Commit([S1 EXCEPT !.hist.multi = TRUE])      \* (a skip command in the backlog: outside the model)
               ELSE \E S2 \in CompleteSkip(S1, t) : \E S3 \in CheckAffected(S2, t) : Commit(S3)
          /\ jobs' = RerunJobs(jobs)
  /\ UNCHANGED <<D, msgs, seen, lpass, now>>
  /\ ev' = [a |-> "OpSkip", t |-> t]

Enabled == msgs # {} \/ ptq # {} \/ lpass.active \/ \E j \in jobs : j.phase # "new" \/ j.at <= now
TickTo(x) ==
  /\ now' = x
  /\ UNCHANGED <<D, wf, tk, ax, msgs, seen, ptq, jobs, backlog, lpass, hist>>
  /\ ev' = [a |-> "Tick"]
Tick ==
  /\ ~Enabled /\ \E j \in jobs : j.at > now
  /\ TickTo(CHOOSE x \in {j.at : j \in jobs} : x > now /\ \A j \in jobs : j.at > now => x <= j.at)

Next == \/ StartWorkflow
        \/ \E b \in ptq : PtqStep(b)
        \/ \E m \in msgs : Deliver(m)
        \/ \E c \in seen : Dup(c)
        \/ \E j \in jobs : JobCapture(j) \/ JobInvoke(j) \/ JobDelete(j)
        \/ LPoll \/ LInvoke \/ LDelete
        \/ OpPause \/ OpResume \/ \E s \in Final : OpStop(s)
        \/ \E t \in Names : OpSkip(t) \/ \E r \in BOOLEAN : OpRerun(t, r)
        \/ Tick
Spec == /\ Init /\ [][Next]_vars
FairSpec == Spec /\ WF_vars(Next)

(* ---- the observable projection, in the shape EngineProps expects ---- *)
Quiet == ~Enabled /\ ~(\E j \in jobs : j.func # "integrity") /\ wf # "none"
AllDone == \A x \in Names : tk[x].state = "none" \/ Done(tk[x].state)

(* ---- model-level properties: the EngineProps formulas on the model's state, modulo the known findings ---- *)
\* the situations of the known findings, as they appear in a hanging state
KF_ResumeJoin   == \E x \in hist.resumeJoin : tk[x].state = "WAITING"                    \* KF-C10-1 / KF-C10-6
KF_NoopResume   == hist.noopResume /\ AllDone                                              \* KF-C10-8
KF_Rearmed      == hist.rearmed                                                            \* KF-C04-1
KF_DoubleStart  == hist.existingSent                                                       \* KF-C10-5
KF_RerunJoin    == \E x \in hist.rerunWaiting : tk[x].state = "WAITING"                  \* KF-C12-9
IsRerunStep     == ev'.a \in {"OpRerun", "OpSkip"}
\* KF-C12-1 / -2 / KF-C07-5: a with-items task that is rerun re-executes indexes that are accepted already / an index twice
KF_ItemsRerun   == \E x \in hist.rerunT : IsItems(x)
KF_ItemsRestart == hist.itemsRestart                                                       \* KF-C07-7
\* C01 / C10: at rest the execution is finished - or PAUSED because somebody asked for it
NoHangM   == Quiet => (wf \in Final \/ (wf = "PAUSED" /\ hist.paused) \/ KF_ResumeJoin \/ KF_NoopResume \/ KF_RerunJoin
                       \/ (\E x \in hist.rerunT : IsItems(x) /\ tk[x].state = "RUNNING")
                       \/ (KF_ItemsRestart /\ \E x \in Names : IsItems(x) /\ tk[x].state = "RUNNING"))
NoWaitingAtRestM == Quiet => ((\A x \in Names : tk[x].state # "WAITING") \/ wf \in Final \cup {"PAUSED"} \/ KF_ResumeJoin \/ KF_RerunJoin)
\* C04: a join starts its action at most once per run - modulo re-arming
\* (C08: with a retry policy at most count + 1 attempts)
\* (every accepted rerun allows as many attempts again)
Attempts(x) == (IF IsItems(x) THEN Pol(x).items * (Pol(x).retry + 1) ELSE Pol(x).retry + 1) * (1 + hist.reruns)
JoinOnceM == KF_Rearmed \/ hist.dupExisting \/ hist.delayedRestart \/ hist.timeoutRetry \/ \A x \in Names : IsJoin(x) => Len(ax[x]) <= Attempts(x)
\* C06 / C10: a plain task starts its action once - modulo the double start after resume; redeliveries never start anything
StartOnceM == KF_DoubleStart \/ hist.dupExisting \/ hist.timeoutRetry \/ \A x \in Names : ~IsJoin(x) => Len(ax[x]) <= Attempts(x)
\* C07: one execution per item index (no retry / rerun here), never more live executions than the concurrency limit (a with-items
\* JOIN is started without its policies - KF-C07-1 - and has no limit), the task completes only when every index is accepted, in ERROR
\* iff an accepted item failed
OnePerIndexM == \A x \in Names : (IsItems(x) /\ Pol(x).retry = 0 /\ hist.reruns = 0 /\ ~KF_ItemsRestart /\ ~KF_Rearmed /\ ~hist.delayedRestart) =>
                   \A k1, k2 \in 1..Len(ax[x]) : ax[x][k1].i = ax[x][k2].i => k1 = k2
WithinLimitM == \A x \in Names : (IsItems(x) /\ tk[x].conc > 0 /\ ~KF_ItemsRestart) =>
                   Cardinality({k \in 1..Len(ax[x]) : ax[x][k].s = "RUNNING"}) <= tk[x].conc
CompleteAfterAllM == \A x \in Names : (IsItems(x) /\ hist.reruns = 0 /\ ~hist.idxTwice /\ tk[x].state \in {"SUCCESS", "ERROR"} /\ tk[x].wiCount >= 0 /\ ~KF_ItemsRestart /\ ~KF_Rearmed) =>
                        /\ \A k \in 1..Len(ax[x]) : ax[x][k].s # "RUNNING"
                        /\ (wf \notin Final \/ tk[x].state = "SUCCESS") => {ax[x][k].i : k \in {j \in 1..Len(ax[x]) : ax[x][j].a}} = 0..(Pol(x).items - 1)
                        /\ (wf \notin Final) => ((tk[x].state = "ERROR") <=> \E k \in 1..Len(ax[x]) : ax[x][k].a /\ ax[x][k].s = "ERROR")
\* C08: at rest a task with a retry policy (and no timeout) ends in the state of its last attempt; no attempt after a success
FinalIffLastM == Quiet => \A x \in Names : (Pol(x).retry > 0 /\ hist.reruns <= 1 /\ ~IsItems(x) /\ ~Pol(x).failOn /\ Pol(x).timeout = 0 /\ Done(tk[x].state) /\ ax[x] # <<>>
                                               /\ ~KF_Rearmed /\ ~hist.delayedRestart /\ ~KF_DoubleStart /\ tk[x].state # "SKIPPED")
                               => ((tk[x].state = "SUCCESS") <=> (ax[x][Len(ax[x])].s = "SUCCESS"))
\* (two reruns accepted back to back - the second before the first one's start_task is delivered - give the task two new attempts)
StopAtFirstSuccessM == \A x \in Names : (Pol(x).retry > 0 /\ hist.reruns <= 1 /\ ~IsItems(x) /\ ~Pol(x).failOn /\ Pol(x).contOn = "none" /\ ~KF_Rearmed /\ ~hist.delayedRestart /\ ~KF_DoubleStart /\ ~hist.timeoutRetry)
                          => \A k \in 1..Len(ax[x]) : ax[x][k].s = "SUCCESS" => k = Len(ax[x])
\* C04 / C01 (reverse workflows): only tasks of the target's dependency closure are ever created, and only once everything they
\* require has succeeded
ReqGateM == IsReverse => \A x \in Names : tk[x].state # "none" =>
                            (x \in Rng(D.closure) /\ \A r \in Rng(D.tasks[x].requires) : tk[r].state = "SUCCESS")
\* C08: fail-on - a task with fail-on never ends SUCCESS; pause-before - the action of such a task is not started before the
\* execution has been PAUSED for it (hist.paused) - modulo the double start after resume
FailOnAppliedM == \A x \in Names : Pol(x).failOn => tk[x].state # "SUCCESS"
PauseBeforeM == \A x \in Names : (Pol(x).pauseBefore /\ ~IsJoin(x) /\ ax[x] # <<>>) => hist.paused
\* C04: a join starts (its first action appears) only when enough inbound tasks completed and routed to it
JoinGateM == [][\A x \in Names : (IsJoin(x) /\ Len(ax[x]) = 0 /\ Len(ax'[x]) = 1) =>
                   LET fed == {i \in Inbound(x) : Done(tk'[i].state) /\ x \in tk'[i].next}
                   IN hist'.rearmed \/ x \in hist'.rerunT \/ Cardinality(fed) >= (IF D.tasks[x].join = -1 THEN Cardinality(Inbound(x)) ELSE D.tasks[x].join)]_vars
\* C03 / C11: finished executions stay finished; a result is recorded once; SUCCESS tasks stay SUCCESS (modulo re-arming)
FinishedFrozenM == [][(wf \in Final /\ ~IsRerunStep) => (wf' = wf)]_vars
ResultOnceM == [][\A x \in Names : \A k \in 1..Len(ax[x]) : ax[x][k].s \in Final => (Len(ax'[x]) >= k /\ ax'[x][k].s = ax[x][k].s)]_vars
\* (a task started twice after resume - KF-C10-5 - may be restarted by the stale _continue_task job of its other start)
SuccessStickyM == [][\A x \in Names : tk[x].state = "SUCCESS" => (tk'[x].state = "SUCCESS" \/ hist'.rearmed \/ (hist'.existingSent /\ (Pol(x).retry > 0 \/ Pol(x).waitBefore > 0)))]_vars
\* C03: the execution's state changes only along the documented lifecycle
LegalPairs == {<<"none", "RUNNING">>, <<"RUNNING", "PAUSED">>, <<"RUNNING", "SUCCESS">>, <<"RUNNING", "ERROR">>,
               <<"RUNNING", "CANCELLED">>, <<"PAUSED", "RUNNING">>, <<"PAUSED", "CANCELLED">>, <<"PAUSED", "ERROR">>}
\* (resume_workflow of an execution whose tasks all finished while it was PAUSED writes PAUSED -> RUNNING -> final state in
\*  one transaction: the committed change is the composition of two legal moves)
LegalWfM == [][(wf' = wf) \/ (<<wf, wf'>> \in LegalPairs) \/ (ev'.a = "OpResume" /\ wf = "PAUSED" /\ wf' \in Final)
                \/ (IsRerunStep /\ wf \in {"ERROR", "CANCELLED"})]_vars
\* C12: an accepted rerun puts the execution back to RUNNING and sends the task its new start; a skip marks the task SKIPPED
RerunAckM == [][(ev'.a = "OpRerun" /\ wf \in {"RUNNING", "ERROR", "CANCELLED"} /\ backlog = <<>>) =>
                  (wf' = "RUNNING" /\ \E b \in ptq' : \E n \in 1..Len(b.ops) : b.ops[n].op = "start_task" /\ b.ops[n].t = ev'.t /\ b.ops[n].rr # "")]_vars
SkipAckM  == [][(ev'.a = "OpSkip" /\ wf \in {"RUNNING", "ERROR", "CANCELLED"} /\ backlog = <<>>) => tk'[ev'.t].state = "SKIPPED"]_vars
\* C10: while the execution stays PAUSED no task row comes into existence
NoNewTasksWhilePausedM == [][(wf = "PAUSED" /\ wf' = "PAUSED") => \A x \in Names : (tk[x].state = "none") = (tk'[x].state = "none")]_vars
\* C11: after the execution finished no task row comes into existence
NoNewTasksAfterStopM == [][(wf \in Final /\ ~IsRerunStep) => \A x \in Names : (tk[x].state = "none") = (tk'[x].state = "none")]_vars
\* C10 / C11: an acknowledged pause / stop takes effect at once (stop(ERROR) on PAUSED: KF-C11-1)
PauseAckM == [][(ev'.a = "OpPause" /\ wf = "RUNNING") => wf' = "PAUSED"]_vars
StopAckM  == [][(ev'.a = "OpStop" /\ wf \in {"RUNNING", "PAUSED"} /\ ~(ev'.s = "SUCCESS" /\ wf = "PAUSED")) =>
                   (wf' = ev'.s \/ (ev'.s = "ERROR" /\ wf = "PAUSED"))]_vars
\* C06: a redelivered engine message changes nothing observable (the executor answers a redelivered request itself)
DupNoEffectM == [][(ev'.a = "Dup" /\ ev'.m # "run_action" /\ ~(ev'.m = "start_task" /\ ~ev'.fr)) => (wf' = wf /\ tk' = tk /\ ax' = ax)]_vars
\* confluence (C02 at model level): every terminal state projects to one and the same outcome
\* (checked with one TLC worker: the first terminal outcome seen is kept in TLC register 1)
FinalP == <<wf, [x \in Names |-> <<tk[x].state, tk[x].next, tk[x].errHandled>>], ax>>
Confluent == Quiet => (IF TLCGet(1) = <<>> THEN TLCSet(1, FinalP) ELSE TLCGet(1) = FinalP)
Terminates == <>[](wf \in Final)
\* how often the situations of the known findings are reachable (reported in the evidence)
InDomain == ~hist.multi
TypeOK == wf \in {"none", "RUNNING", "PAUSED", "SUCCESS", "ERROR", "CANCELLED"}
=============================================================================
