----------------------------- MODULE WfSemantics -----------------------------
(***************************************************************************)
(* Schedule-free semantics of the workflow language (direct workflows),    *)
(* written from the language description (doc/source/user/wf_lang_v2.rst), *)
(* not from the engine: an abstract machine over task instances.           *)
(*   - the tasks without inbound transitions start;                        *)
(*   - a task that finishes SUCCESS / ERROR fires its on-success /         *)
(*     on-error transitions, then its on-complete transitions, each only   *)
(*     if its guard holds; a fired transition starts the target task,      *)
(*     triggers the target join, or executes an engine command;            *)
(*   - fail / succeed end the workflow at once: nothing is started         *)
(*     afterwards (tasks already running still finish), transitions listed *)
(*     after the command are dropped; noop does nothing;                   *)
(*   - a join starts when the required number of inbound tasks (all, N,    *)
(*     one) finished AND routed to it; it fails as soon as that number     *)
(*     cannot be reached any more;                                         *)
(*   - an ERROR is handled iff the failing task has a fired on-error       *)
(*     transition; the workflow ends ERROR iff some task ended in an       *)
(*     unhandled ERROR (or fail was executed), else SUCCESS.               *)
(* There are no messages, jobs or transactions at this level; the only     *)
(* nondeterminism is which running task finishes next.  Its terminal       *)
(* states are the PRESCRIBED OUTCOMES of a program.                        *)
(*                                                                         *)
(* Batch evaluation: the programs come from a file (one JSON line per      *)
(* program with the outcomes observed on the real engine); Init chooses    *)
(* the program, TLC explores its semantic state graph, and every terminal  *)
(* state reports which of the observed outcomes it matches.  An observed   *)
(* outcome matched by no terminal state is not prescribed by the language. *)
(* The per-task outcome `eff` (SUCCESS / ERROR of the task's last attempt, *)
(* all items taken together) is derived from the action-result oracle and  *)
(* the attempts the executor actually ran, never from observed states.     *)
(***************************************************************************)
EXTENDS Integers, FiniteSets, Sequences, TLC, Json, IOUtils

Progs == ndJsonDeserialize(IOEnv.TRACE_FILE)

VARIABLES pid, st, nx, wfs, created
vars == <<pid, st, nx, wfs, created>>

D == Progs[pid].prog
Rng(s)  == {s[i] : i \in DOMAIN s}
Names   == Rng(D.order)
IsJoin(t) == D.tasks[t].join # 0
Inbound(t) == Rng(D.inbound[t])
Final == {"SUCCESS", "ERROR"}

Fired(edges) == SelectSeq(edges, LAMBDA e : e.fires)
Clauses(t, s) == (IF s = "ERROR" THEN Fired(D.tasks[t].err) ELSE Fired(D.tasks[t].succ)) \o Fired(D.tasks[t].comp)
Targets(t, s) == LET c == Clauses(t, s) IN [i \in 1..Len(c) |-> c[i].to]
\* transitions listed after the first fail / succeed are dropped; noop is ignored
UpToCommand(ts) == LET S == {i \in 1..Len(ts) : ts[i] \in {"fail", "succeed"}}
                   IN IF S = {} THEN [tasks |-> Rng(ts) \cap Names, cmd |-> "none"]
                      ELSE LET i == CHOOSE k \in S : \A j \in S : k <= j
                           IN [tasks |-> Rng(SubSeq(ts, 1, i - 1)) \cap Names, cmd |-> ts[i]]
Handled(t) == Fired(D.tasks[t].err) # <<>>

\* can the join still be reached through inbound task i ?
RECURSIVE Reachable(_, _)
Reachable(t, depth) ==       \* may task t still run (it has not run yet)
  IF Inbound(t) = {} \/ depth > 8 THEN TRUE
  ELSE \E i \in Inbound(t) :
         IF st[i] = "none" THEN Reachable(i, depth + 1)
         ELSE st[i] \notin Final \/ t \in nx[i]
Routed(j)  == {i \in Inbound(j) : st[i] \in Final /\ j \in nx[i]}
Dead(j)    == {i \in Inbound(j) : (st[i] \in Final /\ j \notin nx[i]) \/ (st[i] = "none" /\ ~Reachable(i, 1))}
Need(j)    == IF D.tasks[j].join = -1 THEN Cardinality(Inbound(j)) ELSE D.tasks[j].join
JoinReady(j)  == Cardinality(Routed(j)) >= Need(j)
JoinFailed(j) == Cardinality(Dead(j)) > Cardinality(Inbound(j)) - Need(j)

Init == /\ pid \in 1..Len(Progs)
        /\ st = [t \in Rng(Progs[pid].prog.order) |->
                   IF Rng(Progs[pid].prog.inbound[t]) = {} /\ Progs[pid].prog.tasks[t].wf = Progs[pid].prog.name
                   THEN (IF Progs[pid].prog.tasks[t].join # 0 THEN "WAITING" ELSE "RUNNING") ELSE "none"]
        /\ nx = [t \in Rng(Progs[pid].prog.order) |-> {}]
        /\ wfs = "RUNNING"
        /\ created = {}

\* effects of a task reaching a final state
Route(t, s) ==
  LET u == UpToCommand(Targets(t, s))
      live == wfs = "RUNNING"
  IN /\ nx' = [nx EXCEPT ![t] = Rng(Targets(t, s)) \cap Names]
     /\ st' = [x \in Names |->
                 IF x = t THEN s
                 ELSE IF live /\ x \in u.tasks /\ st[x] = "none" THEN (IF IsJoin(x) THEN "WAITING" ELSE "RUNNING")
                 ELSE st[x]]
     /\ wfs' = IF live /\ u.cmd = "fail" THEN "ERROR" ELSE IF live /\ u.cmd = "succeed" THEN "SUCCESS" ELSE wfs
     /\ UNCHANGED <<pid, created>>

Finish(t)    == st[t] = "RUNNING" /\ Route(t, D.tasks[t].eff)
JoinStart(j) == st[j] = "WAITING" /\ wfs = "RUNNING" /\ JoinReady(j)
                /\ st' = [st EXCEPT ![j] = "RUNNING"] /\ UNCHANGED <<pid, nx, wfs, created>>
JoinFail(j)  == st[j] = "WAITING" /\ wfs = "RUNNING" /\ ~JoinReady(j) /\ JoinFailed(j) /\ Route(j, "ERROR")
Busy == \E t \in Names : st[t] = "RUNNING" \/ (st[t] = "WAITING" /\ wfs = "RUNNING" /\ (JoinReady(t) \/ JoinFailed(t)))
Complete == /\ ~Busy /\ wfs = "RUNNING"
            /\ wfs' = IF \E t \in Names : st[t] = "ERROR" /\ ~Handled(t) THEN "ERROR" ELSE "SUCCESS"
            /\ UNCHANGED <<pid, st, nx, created>>
Next == (\E t \in Names : Finish(t) \/ JoinStart(t) \/ JoinFail(t)) \/ Complete
Spec == Init /\ [][Next]_vars /\ WF_vars(Next)

Terminal == ~Busy /\ wfs \in Final
\* a join that was triggered but can neither start nor fail stays WAITING only in a finished workflow
Outcome == [wf |-> wfs, tasks |-> {<<t, st[t]>> : t \in {x \in Names : st[x] # "none"}}]
ObsOutcome(f) == [wf |-> f.wf, tasks |-> {<<f.tasks[i][1], f.tasks[i][2]>> : i \in DOMAIN f.tasks}]
Report == Terminal =>
            /\ PrintT(<<"terminal", pid>>)
            /\ \A k \in DOMAIN Progs[pid].finals :
                  (ObsOutcome(Progs[pid].finals[k]) = Outcome) => PrintT(<<"match", pid, k>>)
Terminates == <>Terminal
=============================================================================
