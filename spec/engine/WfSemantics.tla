----------------------------- MODULE WfSemantics -----------------------------
(***************************************************************************)
(* Schedule-free semantics of the workflow language, written from the      *)
(* language description (doc/source/user/wf_lang_v2.rst), not from the     *)
(* engine: an abstract machine over task instances.                        *)
(* Direct workflows                                                        *)
(*   - the tasks without inbound transitions start;                        *)
(*   - a task that finishes SUCCESS / ERROR fires its on-success /         *)
(*     on-error transitions, then its on-complete transitions, each only   *)
(*     if its guard holds; a fired transition starts the target task,      *)
(*     triggers the target join, or executes an engine command; a task     *)
(*     that was SKIPPED by the operator continues like a successful one    *)
(*     (no on-skip clause in these programs);                              *)
(*   - fail / succeed end the workflow at once: nothing is started         *)
(*     afterwards (tasks already running still finish), transitions listed *)
(*     after the command are dropped; noop does nothing;                   *)
(*   - a join starts when the required number of inbound tasks (all, N,    *)
(*     one) finished AND routed to it; it fails as soon as that number     *)
(*     cannot be reached any more;                                         *)
(*   - an ERROR is handled iff the failing task has a fired on-error       *)
(*     transition; the workflow ends ERROR iff some task ended in an       *)
(*     unhandled ERROR (or fail was executed), else SUCCESS.               *)
(* Reverse workflows                                                       *)
(*   - only the tasks the target task transitively requires ever run; a    *)
(*     task starts when all the tasks it requires succeeded; the workflow  *)
(*     ends ERROR iff some task failed (the tasks that do not depend on    *)
(*     the failed one still run), else SUCCESS.                            *)
(* Sub-workflows                                                           *)
(*   - a task with `workflow:` starts an instance of that workflow when it *)
(*     starts, and finishes SUCCESS / ERROR as that instance does.         *)
(* There are no messages, jobs or transactions at this level; the only     *)
(* nondeterminism is which running task finishes next.  Its terminal       *)
(* states are the PRESCRIBED OUTCOMES of a program.                        *)
(*                                                                         *)
(* Batch evaluation: the programs come from a file (one JSON line per      *)
(* program with the outcomes observed on the real engine); Init chooses    *)
(* the program, TLC explores its semantic state graph, and every terminal  *)
(* state reports which of the observed outcomes it matches.  An observed   *)
(* outcome matched by no terminal state is not prescribed by the language. *)
(* The per-task outcome `eff` (SUCCESS / ERROR of the task's last attempt, *)
(* all items taken together; SKIPPED when the operator skipped it) is      *)
(* derived from the action-result oracle and the attempts the executor     *)
(* actually ran, never from observed states.                               *)
(***************************************************************************)
EXTENDS Integers, FiniteSets, Sequences, TLC, Json, IOUtils

Progs == ndJsonDeserialize(IOEnv.TRACE_FILE)

VARIABLES pid,
          st,     \* [task name -> "none" | "WAITING" | "RUNNING" | "SUCCESS" | "ERROR" | "SKIPPED"]
          nx,     \* [task name -> set of task names it routed to]
          wfs     \* [workflow name -> "none" | "RUNNING" | "SUCCESS" | "ERROR"]
vars == <<pid, st, nx, wfs>>

D == Progs[pid].prog
Rng(s)  == {s[i] : i \in DOMAIN s}
Names   == Rng(D.order)
Root    == D.name
WfNames == {D.tasks[t].wf : t \in Names}
TasksOf(w) == {t \in Names : D.tasks[t].wf = w}
WfOf(t) == D.tasks[t].wf
IsJoin(t) == D.tasks[t].join # 0
IsSub(t)  == D.tasks[t].kind = "workflow"
Inbound(t) == Rng(D.inbound[t])
Final == {"SUCCESS", "ERROR"}
Fin(s) == s \in {"SUCCESS", "ERROR", "SKIPPED"}
Reverse == D.type = "reverse"

Fired(edges) == SelectSeq(edges, LAMBDA e : e.fires)
Clauses(t, s) == (IF s = "ERROR" THEN Fired(D.tasks[t].err) ELSE Fired(D.tasks[t].succ)) \o Fired(D.tasks[t].comp)
Targets(t, s) == LET c == Clauses(t, s) IN [i \in 1..Len(c) |-> c[i].to]
\* transitions listed after the first fail / succeed are dropped; noop is ignored
UpToCommand(ts) == LET S == {i \in 1..Len(ts) : ts[i] \in {"fail", "succeed"}}
                   IN IF S = {} THEN [tasks |-> Rng(ts) \cap Names, cmd |-> "none"]
                      ELSE LET i == CHOOSE k \in S : \A j \in S : k <= j
                           IN [tasks |-> Rng(SubSeq(ts, 1, i - 1)) \cap Names, cmd |-> ts[i]]
Handled(t) == Fired(D.tasks[t].err) # <<>>

\* can the join still be reached through inbound task i ?
RECURSIVE Reachable(_, _)
Reachable(t, depth) ==       \* may task t still run (it has not run yet)
  IF Inbound(t) = {} \/ depth > 8 THEN TRUE
  ELSE \E i \in Inbound(t) :
         IF st[i] = "none" THEN Reachable(i, depth + 1)
         ELSE ~Fin(st[i]) \/ t \in nx[i]
Routed(j)  == {i \in Inbound(j) : Fin(st[i]) /\ j \in nx[i]}
Dead(j)    == {i \in Inbound(j) : (Fin(st[i]) /\ j \notin nx[i]) \/ (st[i] = "none" /\ ~Reachable(i, 1))}
Need(j)    == IF D.tasks[j].join = -1 THEN Cardinality(Inbound(j)) ELSE D.tasks[j].join
JoinReady(j)  == Cardinality(Routed(j)) >= Need(j)
JoinFailed(j) == Cardinality(Dead(j)) > Cardinality(Inbound(j)) - Need(j)

\* the tasks with which an instance of workflow w begins (direct: no inbound transitions; reverse: the tasks of the
\* target's closure that require nothing), and everything that starts with them (sub-workflow instances, recursively)
FirstTasks(P, w) == IF P.type = "reverse" /\ w = P.name
                    THEN {t \in Rng(P.closure) : P.tasks[t].requires = <<>>}
                    ELSE {t \in Rng(P.order) : P.tasks[t].wf = w /\ Rng(P.inbound[t]) = {}}
RECURSIVE Begun(_, _, _)
Begun(P, ts, depth) ==      \* [tasks |-> tasks that start, wfs |-> workflow instances that start] when the tasks ts start
  LET subs == {P.tasks[t].sub : t \in {x \in ts : P.tasks[x].kind = "workflow" /\ P.tasks[x].join = 0}}   \* (a join waits first)
  IN IF subs = {} \/ depth > 4 THEN [tasks |-> ts, wfs |-> {}]
     ELSE LET inner == Begun(P, UNION {FirstTasks(P, s) : s \in subs}, depth + 1)
          IN [tasks |-> ts \cup inner.tasks, wfs |-> subs \cup inner.wfs]
StartState(P, t) == IF P.tasks[t].join # 0 THEN "WAITING" ELSE "RUNNING"

Init == /\ pid \in 1..Len(Progs)
        /\ LET P == Progs[pid].prog
               b == Begun(P, FirstTasks(P, P.name), 0)
           IN /\ st = [t \in Rng(P.order) |-> IF t \in b.tasks THEN StartState(P, t) ELSE "none"]
              /\ nx = [t \in Rng(P.order) |-> {}]
              /\ wfs = [w \in {P.tasks[t].wf : t \in Rng(P.order)} |-> IF w = P.name \/ w \in b.wfs THEN "RUNNING" ELSE "none"]

\* tasks ts (not yet instantiated) start, together with the sub-workflow instances they call
Starting(ts) ==
  LET b == Begun(D, ts, 0)
  IN [st |-> [x \in Names |-> IF x \in b.tasks /\ st[x] = "none" THEN StartState(D, x) ELSE st[x]],
      wfs |-> [w \in WfNames |-> IF w \in b.wfs /\ wfs[w] = "none" THEN "RUNNING" ELSE wfs[w]]]

\* effects of a task of a direct workflow reaching a final state
Route(t, s) ==
  LET w == WfOf(t)
      \* a skipped task continues along its on-success transitions only (on-skip is absent in these programs; what is
      \* documented for a skipped task is on-skip / on-success, not on-complete)
      ts == IF s = "SKIPPED" THEN LET c == Fired(D.tasks[t].succ) IN [i \in 1..Len(c) |-> c[i].to] ELSE Targets(t, s)
      u == UpToCommand(ts)
      live == wfs[w] = "RUNNING"
      b == Starting(IF live THEN {x \in u.tasks : st[x] = "none"} ELSE {})
  IN /\ nx' = [nx EXCEPT ![t] = Rng(ts) \cap Names]
     /\ st' = [b.st EXCEPT ![t] = s]
     /\ wfs' = [b.wfs EXCEPT ![w] = IF live /\ u.cmd = "fail" THEN "ERROR" ELSE IF live /\ u.cmd = "succeed" THEN "SUCCESS" ELSE @]
     /\ UNCHANGED pid
\* ... of a reverse workflow: the tasks all of whose requirements have now succeeded start
Satisfied(t, stt) == \A r \in Rng(D.tasks[t].requires) : stt[r] = "SUCCESS"
Advance(t, s) ==
  LET st1 == [st EXCEPT ![t] = s]
      ready == IF wfs[Root] = "RUNNING" THEN {x \in Rng(D.closure) : st1[x] = "none" /\ Satisfied(x, st1)} ELSE {}
  IN /\ st' = [x \in Names |-> IF x \in ready THEN "RUNNING" ELSE st1[x]]
     /\ UNCHANGED <<pid, nx, wfs>>
Done(t, s) == IF Reverse /\ WfOf(t) = Root THEN Advance(t, s) ELSE Route(t, s)

Finish(t)    == st[t] = "RUNNING" /\ ~IsSub(t) /\ Done(t, D.tasks[t].eff)
\* a task that calls a sub-workflow finishes as the instance it started does
FinishSub(t) == /\ st[t] = "RUNNING" /\ IsSub(t) /\ wfs[D.tasks[t].sub] \in Final
                /\ Done(t, IF D.tasks[t].eff = "SKIPPED" THEN "SKIPPED" ELSE wfs[D.tasks[t].sub])
JoinStart(j) == /\ st[j] = "WAITING" /\ wfs[WfOf(j)] = "RUNNING" /\ JoinReady(j)
                /\ LET b == Starting(IF IsSub(j) THEN FirstTasks(D, D.tasks[j].sub) ELSE {})
                   IN /\ st' = [b.st EXCEPT ![j] = "RUNNING"]
                      /\ wfs' = IF IsSub(j) THEN [b.wfs EXCEPT ![D.tasks[j].sub] = "RUNNING"] ELSE b.wfs
                /\ UNCHANGED <<pid, nx>>
JoinFail(j)  == st[j] = "WAITING" /\ wfs[WfOf(j)] = "RUNNING" /\ ~JoinReady(j) /\ JoinFailed(j) /\ Route(j, "ERROR")
Busy(w) == \E t \in TasksOf(w) : st[t] = "RUNNING" \/ (st[t] = "WAITING" /\ wfs[w] = "RUNNING" /\ (JoinReady(t) \/ JoinFailed(t)))
Complete(w) == /\ wfs[w] = "RUNNING" /\ ~Busy(w)
               /\ wfs' = [wfs EXCEPT ![w] = IF \E t \in TasksOf(w) : st[t] = "ERROR" /\ (Reverse \/ ~Handled(t)) THEN "ERROR" ELSE "SUCCESS"]
               /\ UNCHANGED <<pid, st, nx>>
Next == (\E t \in Names : Finish(t) \/ FinishSub(t) \/ JoinStart(t) \/ JoinFail(t)) \/ (\E w \in WfNames : Complete(w))
Spec == Init /\ [][Next]_vars /\ WF_vars(Next)

Terminal == \A w \in WfNames : wfs[w] = "none" \/ (~Busy(w) /\ wfs[w] \in Final)
\* a join that was triggered but can neither start nor fail stays WAITING only in a finished workflow
Outcome == [wf |-> wfs[Root], tasks |-> {<<t, st[t]>> : t \in {x \in Names : st[x] # "none"}},
            subs |-> {<<w, wfs[w]>> : w \in {x \in WfNames : x # Root /\ wfs[x] # "none"}}]
ObsOutcome(f) == [wf |-> f.wf, tasks |-> {<<f.tasks[i][1], f.tasks[i][2]>> : i \in DOMAIN f.tasks},
                  subs |-> {<<f.subs[i][1], f.subs[i][2]>> : i \in DOMAIN f.subs}]
Report == Terminal =>
            /\ PrintT(<<"terminal", pid>>)
            /\ \A k \in DOMAIN Progs[pid].finals :
                  (ObsOutcome(Progs[pid].finals[k]) = Outcome) => PrintT(<<"match", pid, k>>)
Terminates == <>Terminal
=============================================================================
