------------------------------ MODULE PrimTrace ------------------------------
(***************************************************************************)
(* Primitive-usage conformance: recorded runs of the real engine, one JSON *)
(* line per run, steps[l] = [ev, prims] where prims is the sequence of     *)
(* concurrency primitives the transaction(s) of that step used:            *)
(*   [p |-> "lock" | "unlock", role |-> "join_key" | "task_id" | ..., t]   *)
(*   [p |-> "refresh", t]            db_api.refresh(task row)              *)
(*   [p |-> "cas", t, frm, to, won]  compare-and-swap of a task state      *)
(*   [p |-> "insert_task", role |-> "join" | "plain", t]                   *)
(*   [p |-> "dedupe", role |-> "refresh_key", processing]                  *)
(* The rules are what the statement-level model JoinRace.tla assumes of    *)
(* the transactions it abstracts (each rule names the JoinRace constant it *)
(* corresponds to).                                                        *)
(***************************************************************************)
EXTENDS Integers, Sequences, FiniteSets, TLC, Json, IOUtils

TraceLog == ndJsonDeserialize(IOEnv.TRACE_FILE)
VARIABLES tid, l
tvars == <<tid, l>>
R == TraceLog[tid]
Steps == R.steps
Ps == Steps[l].prims
Ev == Steps[l].ev

\* a named lock with this role and task is held at position i (taken before, not released before)
Held(role, t, i) == \E a \in 1..(i - 1) : /\ Ps[a].p = "lock" /\ Ps[a].role = role /\ Ps[a].t = t
                                          /\ ~\E b \in (a + 1)..(i - 1) : Ps[b].p = "unlock" /\ Ps[b].role = role /\ Ps[b].t = t
HeldSince(role, t, i) == CHOOSE a \in 1..(i - 1) : /\ Ps[a].p = "lock" /\ Ps[a].role = role /\ Ps[a].t = t
                                                   /\ ~\E b \in (a + 1)..(i - 1) : Ps[b].p = "unlock" /\ Ps[b].role = role /\ Ps[b].t = t
IsRefreshJob == Ev.what = "_refresh_task_state"

\* JoinRace.UseDeferLock: the row of a join is created inside the named lock of its unique key
DeferLock == \A i \in 1..Len(Ps) : (Ps[i].p = "insert_task" /\ Ps[i].role = "join") => Held("join_key", Ps[i].t, i)
\* JoinRace.UseRefreshLock: _refresh_task_state moves the join (WAITING -> RUNNING / ERROR) only inside the named lock of the task
RefreshLock == IsRefreshJob =>
   \A i \in 1..Len(Ps) : (Ps[i].p = "cas" /\ Ps[i].frm = "WAITING" /\ Ps[i].to \in {"RUNNING", "ERROR"}) => Held("task_id", Ps[i].t, i)
\* JoinRace.RefreshAfterLock: ... and only after the row was refreshed inside that lock
RefreshAfterLock == IsRefreshJob =>
   \A i \in 1..Len(Ps) : (Ps[i].p = "cas" /\ Ps[i].frm = "WAITING" /\ Ps[i].to \in {"RUNNING", "ERROR"} /\ Held("task_id", Ps[i].t, i)) =>
      \E r \in (HeldSince("task_id", Ps[i].t, i) + 1)..(i - 1) : Ps[r].p = "refresh" /\ Ps[r].t = Ps[i].t
\* JoinRace.DedupeUncapturedOnly: the dedupe query of refresh jobs ignores jobs that are being processed
DedupeUncaptured == \A i \in 1..Len(Ps) : (Ps[i].p = "dedupe" /\ Ps[i].role = "refresh_key") => Ps[i].processing = "false"

TInit == tid \in 1..Len(TraceLog) /\ l = 1
TNext == l < Len(Steps) /\ l' = l + 1 /\ UNCHANGED tid
TSpec == TInit /\ [][TNext]_tvars
Rep(name, f) == f \/ PrintT(<<"prim", tid, l, name>>)
Report == /\ Rep("UseDeferLock", DeferLock)
          /\ Rep("UseRefreshLock", RefreshLock)
          /\ Rep("RefreshAfterLock", RefreshAfterLock)
          /\ Rep("DedupeUncapturedOnly", DedupeUncaptured)
          /\ (\E i \in 1..Len(Ps) : Ps[i].p = "insert_task" /\ Ps[i].role = "join") => PrintT(<<"seen", tid, "join_created">>)
          /\ (IsRefreshJob /\ \E i \in 1..Len(Ps) : Ps[i].p = "cas" /\ Ps[i].frm = "WAITING") => PrintT(<<"seen", tid, "join_moved">>)
          /\ (\E i \in 1..Len(Ps) : Ps[i].p = "dedupe" /\ Ps[i].role = "refresh_key") => PrintT(<<"seen", tid, "dedupe">>)
          /\ (l = Len(Steps) => PrintT(<<"done", tid>>))
=============================================================================
