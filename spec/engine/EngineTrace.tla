----------------------------- MODULE EngineTrace -----------------------------
(***************************************************************************)
(* Strict trace validation of recorded runs of the real engine against     *)
(* MistralEngine: every logged step must be the named action of the model  *)
(* (arguments that were not logged - which message, which batch, which     *)
(* job, the order of commands inside a transaction - are inferred by TLC)  *)
(* and the model's post-state must project to the logged observation       *)
(* (execution state and backlog length; per task: state, routed-to set,    *)
(* processed, error handled; per action: state; number of in-flight        *)
(* messages, post-commit operations and scheduler jobs; the clock).        *)
(* A run that is not accepted is a DIVERGENCE between specification and    *)
(* code (not a property verdict).                                          *)
(***************************************************************************)
EXTENDS MistralEngine, Json, IOUtils

TraceLog == ndJsonDeserialize(IOEnv.TRACE_FILE)
VARIABLES tid, l
tvars == <<vars, tid, l>>
R == TraceLog[tid]
Steps == R.steps

TInit == /\ tid \in 1..Len(TraceLog) /\ l = 0
         /\ D = TraceLog[tid].prog
         /\ wf = "none"
         /\ tk = [x \in Rng(TraceLog[tid].prog.order) |-> NoRow]
         /\ ax = [x \in Rng(TraceLog[tid].prog.order) |-> <<>>]
         /\ msgs = {} /\ seen = {} /\ ptq = {} /\ jobs = {} /\ backlog = <<>> /\ now = 0 /\ lpass = NoPass
         /\ hist = H0
         /\ ev = [a |-> "Init"]

AllOpKinds == {"pause", "resume", "stop", "rerun", "skip"}
TkRec(o, x) == CHOOSE r \in Rng(o.tk) : r.name = x
HasTk(o, x) == \E r \in Rng(o.tk) : r.name = x
AxOf(o, x)  == {r \in Rng(o.ax) : r.task = "r/" \o x \o "#0"}
SumOps(P) == LET RECURSIVE S(_)
                 S(Q) == IF Q = {} THEN 0 ELSE LET b == CHOOSE y \in Q : TRUE IN Len(b.ops) + S(Q \ {b})
             IN S(P)
Matches(o) ==
  /\ (o.wf # <<>>) /\ wf' = o.wf[1].state
  /\ Len(backlog') = o.wf[1].backlog
  /\ \A x \in Names :
        IF HasTk(o, x)
        THEN /\ tk'[x].state = TkRec(o, x).state
             /\ tk'[x].next = Rng(TkRec(o, x).next)
             /\ tk'[x].processed = TkRec(o, x).processed
             /\ tk'[x].errHandled = TkRec(o, x).errHandled
             /\ tk'[x].retryNo = TkRec(o, x).retryNo
             /\ tk'[x].wiCount = TkRec(o, x).wiCount /\ tk'[x].wiCap = TkRec(o, x).wiCap
        ELSE tk'[x].state = "none"
  /\ \A x \in Names :
        /\ Len(ax'[x]) = Cardinality(AxOf(o, x))
        /\ \A r \in AxOf(o, x) : \E k \in 1..Len(ax'[x]) :
              /\ r.sid = "r/" \o x \o "#0@" \o ToString(ax'[x][k].i) \o "." \o ToString(Ord(ax'[x], k) - 1)
              /\ ax'[x][k].s = r.state /\ ax'[x][k].a = r.accepted
  /\ Cardinality(msgs') = o.pend.msgs
  /\ SumOps(ptq') = o.pend.ptq
  /\ Cardinality(jobs') = o.pend.jobsDue + o.pend.jobsLater + o.pend.running
  /\ now' = Steps[l + 1].ev.now

Func(w) == CASE w = "_refresh_task_state" -> "refresh" [] w = "_check_and_fix_integrity" -> "integrity" [] w = "_continue_task" -> "continue"
             [] w = "_complete_task" -> "complete" [] w = "_fail_task_if_incomplete" -> "timeout"
             [] w = "_scheduled_on_action_complete" -> "items" [] OTHER -> w
PtqOp(w) == IF w = "schedule_if_needed" THEN "sched_refresh" ELSE w
\* (an action is logged by its item index and its ordinal among the executions of that item)
SameMsg(m, e) == e.t = "" \/ (m.t = e.t /\ (m.m # "start_task" \/ m.fr = e.fr)
                               /\ (m.m = "start_task" \/ (m.k >= 1 /\ m.k <= Len(ax[m.t]) /\ ax[m.t][m.k].i = e.i /\ Ord(ax[m.t], m.k) = e.k)))
Act(e) ==
  CASE e.kind = "op" /\ e.what = "start" -> StartWorkflow
    [] e.kind = "op" /\ e.what = "pause" -> OpPause
    [] e.kind = "op" /\ e.what = "resume" -> OpResume
    [] e.kind = "op" /\ e.what = "stop" -> OpStop(e.arg)
    [] e.kind = "op" /\ e.what = "rerun" /\ e.t \in Names -> IF e.arg = "skip" THEN OpSkip(e.t) ELSE OpRerun(e.t, e.arg = "reset")
    [] e.kind = "ptq" -> \E b \in ptq : /\ Head(b.ops).op = PtqOp(e.what)
                                       /\ (e.t = "" \/ (Head(b.ops).t = e.t /\ (e.what # "start_task" \/ Head(b.ops).fr = e.fr)
                                                                       /\ (e.what # "run_action" \/
                                                                            LET k == Head(b.ops).k IN k >= 1 /\ k <= Len(ax[e.t]) /\ ax[e.t][k].i = e.i /\ Ord(ax[e.t], k) = e.k)))
                                       /\ PtqStep(b)
    \* (which message: the logged task, action index and first-run flag - an engine message about a row the projection does
    \*  not know carries an empty task name and matches any)
    [] e.kind = "msg" /\ ~e.dup -> \E m \in msgs : m.m = e.what /\ SameMsg(m, e) /\ Deliver(m)
    [] e.kind = "msg" /\ e.dup  -> \E c \in seen : c.m = e.what /\ SameMsg(c, e) /\ Dup(c)
    [] e.kind = "job" /\ e.phase = "capture" -> \E j \in jobs : j.func = Func(e.what) /\ (e.t = "" \/ j.t = e.t) /\ JobCapture(j)
    [] e.kind = "job" /\ e.phase = "invoke" -> \E j \in jobs : j.func = Func(e.what) /\ (e.t = "" \/ j.t = e.t) /\ JobInvoke(j)
    [] e.kind = "job" /\ e.phase = "delete" -> \E j \in jobs : j.func = Func(e.what) /\ (e.t = "" \/ j.t = e.t) /\ JobDelete(j)
    [] e.kind = "lpoll" -> LPoll
    [] e.kind = "linv" -> LInvoke /\ ev'.func = Func(e.what) /\ (e.t = "" \/ ev'.t = e.t)
    [] e.kind = "ldel" -> LDelete
    [] e.kind = "tick" -> TickTo(e.now)
    [] OTHER -> FALSE
TNext == /\ l < Len(Steps) /\ l' = l + 1 /\ UNCHANGED tid
         /\ Act(Steps[l + 1].ev)
         /\ Matches(Steps[l + 1].obs)
TSpec == TInit /\ [][TNext]_tvars
Report == /\ PrintT(<<"reached", tid, l>>)
          /\ (l = Len(Steps) => PrintT(<<"accepted", tid>>))
\* debugging aid: print the model state at every reached position of one run
DumpReport == /\ Report
              /\ PrintT(<<"state", tid, l, [wf |-> wf, tk |-> tk, ax |-> ax, msgs |-> msgs, ptq |-> ptq, jobs |-> jobs,
                                           backlog |-> backlog, seen |-> seen, now |-> now, lpass |-> lpass]>>)
=============================================================================
