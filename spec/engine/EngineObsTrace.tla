--------------------------- MODULE EngineObsTrace ---------------------------
(***************************************************************************)
(* Recorded runs of the real engine (harness/engrun.py), one JSON line per *)
(* run: prog (abstract definition), meta, steps[l] = [ev, obs].  The spec  *)
(* walks along each run; at every step the formulas of EngineProps are     *)
(* evaluated on (previous observation, observation, event) - decisive.     *)
(* A false formula is reported with run id, step and clause name instead   *)
(* of stopping TLC, so that one TLC start judges thousands of runs.        *)
(***************************************************************************)
EXTENDS EngineProps, Json, IOUtils

TraceLog == ndJsonDeserialize(IOEnv.TRACE_FILE)
VARIABLES tid, l
tvars == <<tid, l>>

R      == TraceLog[tid]
Steps  == R.steps
D      == R.prog
Empty  == [wf |-> <<>>, tk |-> <<>>, ax |-> <<>>, pend |-> [quiet |-> FALSE]]
O      == Steps[l].obs
P      == IF l = 1 THEN Empty ELSE Steps[l - 1].obs
Ev     == Steps[l].ev
RerunSeen == \E k \in 1..l : Steps[k].ev.what \in {"rerun"}
OpSeen    == \E k \in 1..l : Steps[k].ev.kind = "op" /\ Steps[k].ev.what # "start"

TInit == tid \in 1..Len(TraceLog) /\ l = 1
TNext == l < Len(Steps) /\ l' = l + 1 /\ UNCHANGED tid
TSpec == TInit /\ [][TNext]_tvars

Rep(name, f) == f \/ PrintT(<<"viol", tid, l, name>>)
Report ==
  /\ Rep("NoHang", NoHang(O, R.meta.mayPause))
  /\ Rep("NoWaitingAtRest", NoWaitingAtRest(O))
  /\ Rep("KnownTasksOnly", KnownTasksOnly(D, O))
  /\ Rep("DeclaredErrorsOnly", DeclaredErrorsOnly(Ev, Rng(R.declared), R.meta.faulty))
  /\ Rep("WfMoves", WfMoves(P, O, Ev))
  /\ Rep("ResultOnce", ResultOnce(P, O))
  /\ Rep("SuccessSticky", SuccessSticky(P, O))
  /\ Rep("FinishedFrozen", FinishedFrozen(P, O, Ev))
  /\ Rep("JoinGate", JoinGate(D, P, O))
  /\ Rep("JoinOnce", JoinOnce(D, O, RerunSeen))
  /\ Rep("Caused", Caused(D, P, O))
  /\ Rep("ReqGate", ReqGate(D, P, O))
  /\ Rep("OnlyNeededOnce", OnlyNeededOnce(D, O))
  /\ Rep("DupNoEffect", DupNoEffect(P, O, Ev))
  /\ Rep("NoDoubleDispatch", NoDoubleDispatch(O))
  /\ Rep("StartOnce", StartOnce(D, O, RerunSeen))
  /\ Rep("WithinLimit", WithinLimit(D, O))
  /\ Rep("OnePerIndex", OnePerIndex(D, O, RerunSeen))
  /\ Rep("ItemsTaskCompletes", ItemsTaskCompletes(D, O))
  /\ Rep("CompleteAfterAll", CompleteAfterAll(D, O))
  /\ Rep("WithItemsFinalState", WithItemsFinalState(D, O))
  /\ Rep("NoNewTasksWhilePaused", NoNewTasksWhilePaused(P, O))
  /\ Rep("NoNewTasksAfterStop", NoNewTasksAfterStop(P, O, Ev))
  /\ Rep("WaitingStaysAfterStop", WaitingStaysAfterStop(P, O, Ev))
  /\ Rep("ParentSuccessNeedsChildren", ParentSuccessNeedsChildren(O))
  /\ Rep("PauseAck", PauseAck(P, O, Ev, Ev.target))
  /\ Rep("StopAck", StopAck(P, O, Ev, Ev.target, Ev.arg))
  /\ Rep("TreeCancelled", TreeCancelled(O))
  /\ Rep("AttemptBound", AttemptBound(D, O, RerunSeen))
  /\ Rep("FailOnApplied", FailOnApplied(D, O))
  /\ (l = Len(Steps) /\ R.meta.policies) =>
        /\ Rep("StopAtFirstSuccess", StopAtFirstSuccess(D, Steps, l))
        /\ Rep("FinalIffLast", FinalIffLast(D, Steps, l, RerunSeen, OpSeen))
        /\ Rep("RetryStopsWhenTold", RetryStopsWhenTold(D, Steps, l, RerunSeen, OpSeen))
        /\ Rep("RetryExhausted", RetryExhausted(D, Steps, l, RerunSeen, OpSeen))
        /\ Rep("DelayRespected", DelayRespected(D, Steps, l))
        /\ Rep("WaitBeforeRespected", WaitBeforeRespected(D, Steps, l))
        /\ Rep("PauseBeforeRespected", PauseBeforeRespected(D, Steps, l))
        /\ Rep("WaitAfterRespected", WaitAfterRespected(D, Steps, l))
        /\ Rep("TimeoutJudged", TimeoutJudged(D, Steps, l, OpSeen))
  /\ Rep("ExpiredFailed", ExpiredFailed(P, O, Ev, R.meta.hbThreshold, R.meta.hbBatch))
  /\ Rep("NeverExpireFresh", NeverExpireFresh(P, O, Ev, R.meta.hbThreshold))
  /\ Rep("NoStuckTaskAtRest", NoStuckTaskAtRest(O))
  /\ Rep("RerunRestores", RerunRestores(P, O, Ev))
  /\ Rep("SkipApplied", SkipApplied(P, O, Ev))
  /\ \A k \in 2..l : (Steps[k].ev.kind = "op" /\ Steps[k].ev.what = "rerun" /\ Steps[k].ev.exc = "none"
                        /\ Steps[k].ev.arg \in {"reset", "noreset"} /\ ~(\E k2 \in (k + 1)..l : Steps[k2].ev.kind = "op")) =>
        /\ Rep("RerunReexecutes", RerunReexecutes(Steps[k - 1].obs, O, Steps[k].ev.target,
                                                   D.tasks[By(Rng(Steps[k - 1].obs.tk), Steps[k].ev.target).name].items >= 0))
        /\ (Steps[k].ev.arg = "noreset" /\ D.tasks[By(Rng(Steps[k - 1].obs.tk), Steps[k].ev.target).name].items >= 0) =>
              Rep("PartialRerunOnlyFailed", PartialRerunOnlyFailed(Steps[k - 1].obs, O, Steps[k].ev.target))
  /\ Rep("ParentMirrorsChild", ParentMirrorsChild(D, O))
  /\ Rep("RootAndNamespace", RootAndNamespace(O))
  /\ Rep("CalledDefinition", CalledDefinition(D, O))
  /\ (l = Len(Steps) => PrintT(<<"done", tid, Len(Steps)>>))
=============================================================================
