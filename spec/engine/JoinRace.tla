------------------------------ MODULE JoinRace ------------------------------
(***************************************************************************)
(* Statement-level model ("stmt mode") of what two ENGINE PROCESSES do to  *)
(* one join task when its inbound tasks complete at the same time and when *)
(* several _refresh_task_state jobs of the join run at the same time, on a *)
(* database with READ COMMITTED isolation.  This is the part of C04 that   *)
(* cannot be executed in the sandbox (one process, sqlite, a process-wide  *)
(* transaction lock): it is model-checked here, and bound to the code by   *)
(* checking that the real transactions use the concurrency primitives in   *)
(* the order this model assumes (primitive-usage conformance, see          *)
(* harness/primitives.py).                                                 *)
(*                                                                         *)
(* Completer p (engine transaction on_action_complete of inbound task p):  *)
(*   c_write    task p := SUCCESS, next = {join}          (uncommitted)    *)
(*   c_fast     defer(): is there a COMMITTED WAITING row of the join?     *)
(*   c_lock     named_lock(unique key)  - an INSERT into a unique index:   *)
(*              blocks while another transaction holds it, held until the  *)
(*              END of the transaction (the DELETE is in the same tx)      *)
(*   c_create   re-read (committed rows + own writes); none -> INSERT the  *)
(*              join row WAITING (unique key) ; else leave / re-arm        *)
(*   c_commit   commit; the post-commit queue holds start_task and         *)
(*              schedule_if_needed(join) (the join row is visible to the   *)
(*              transaction that just created or found it)                 *)
(*   c_sched    [own tx] no refresh job of the join that is not yet        *)
(*              captured -> INSERT a job row                               *)
(* Refresher (scheduler job _refresh_task_state, any engine):              *)
(*   r_capture  capture the job (compare-and-swap on the row)              *)
(*   r_read     unlocked read of the join row: RUNNING / completed -> end  *)
(*   r_lock     named_lock(task id)  (same blocking semantics)             *)
(*   r_refresh  refresh the row; RUNNING / completed -> end                *)
(*   r_decide   logical state from the COMMITTED states of the inbound     *)
(*              tasks: all routed -> r_start ; else end                    *)
(*   r_start    named_lock('continue-task-..'); compare-and-swap           *)
(*              WAITING -> RUNNING; create the action execution            *)
(*   r_commit   commit ; r_delete delete the job row                       *)
(*                                                                         *)
(* Each primitive can be switched off by a constant; TLC shows that the    *)
(* properties hold with all of them and which ones are load-bearing.       *)
(***************************************************************************)
EXTENDS Naturals, FiniteSets, Sequences, TLC

CONSTANTS NInbound,          \* number of inbound tasks of the join (each completed by its own transaction)
          Need,              \* join cardinality (NInbound = "all")
          UseDeferLock,      \* named lock around the creation of the join row
          UseUniqueKey,      \* unique key on join task executions
          UseRefreshLock,    \* named lock in _refresh_task_state
          RefreshAfterLock,  \* db_api.refresh(task_ex) + re-check inside the lock
          DedupeUncapturedOnly   \* schedule_if_needed ignores jobs that are being processed

Inb == 1..NInbound
VARIABLES cpc,       \* [Inb -> pc of completer p]
          committed, \* set of inbound tasks whose completion is committed
          rows,      \* number of committed rows of the join (more than 1 = duplicate execution)
          ownrow,    \* [Inb -> the completer has an uncommitted INSERT of the join row]
          jstate,    \* committed state of the join row: "none" | "WAITING" | "RUNNING"
          lock,      \* holder of the named lock "join key" (0 = free; p = completer p)
          rlock,     \* holder of the named lock "task id" (0 = free; job id)
          jobs,      \* [job id -> "new" | "captured" | "done"]  refresh jobs ever scheduled
          rpc,       \* [job id -> pc of the refresher working on it]
          rsaw,      \* [job id -> state of the join row as last read by that refresher]
          actions    \* number of action executions started for the join
vars == <<cpc, committed, rows, ownrow, jstate, lock, rlock, jobs, rpc, rsaw, actions>>
MaxJobs == NInbound + 1
JobIds == 1..MaxJobs

Init == /\ cpc = [p \in Inb |-> "c_write"] /\ committed = {} /\ rows = 0 /\ ownrow = [p \in Inb |-> FALSE]
        /\ jstate = "none" /\ lock = 0 /\ rlock = 0
        /\ jobs = [j \in JobIds |-> "absent"] /\ rpc = [j \in JobIds |-> "idle"] /\ rsaw = [j \in JobIds |-> "none"]
        /\ actions = 0

Set(f, k, v) == [f EXCEPT ![k] = v]

(* ---- completer p ---- *)
CWrite(p) == cpc[p] = "c_write" /\ cpc' = Set(cpc, p, "c_fast")
             /\ UNCHANGED <<committed, rows, ownrow, jstate, lock, rlock, jobs, rpc, rsaw, actions>>
\* fast path of Task.defer: a committed WAITING row exists -> nothing to create
CFast(p) == /\ cpc[p] = "c_fast"
            /\ cpc' = Set(cpc, p, IF rows > 0 /\ jstate = "WAITING" THEN "c_commit" ELSE IF UseDeferLock THEN "c_lock" ELSE "c_create")
            /\ UNCHANGED <<committed, rows, ownrow, jstate, lock, rlock, jobs, rpc, rsaw, actions>>
CLock(p) == /\ cpc[p] = "c_lock" /\ lock = 0
            /\ lock' = p /\ cpc' = Set(cpc, p, "c_create")
            /\ UNCHANGED <<committed, rows, ownrow, jstate, rlock, jobs, rpc, rsaw, actions>>
\* inside the lock: re-read; create the row if there is none (with the unique key a second INSERT fails: the transaction
\* of the loser rolls back and is retried - modelled as going back to the fast path)
CCreate(p) == /\ cpc[p] = "c_create"
              /\ IF rows = 0
                 THEN ownrow' = Set(ownrow, p, TRUE) /\ cpc' = Set(cpc, p, "c_commit")
                 ELSE ownrow' = ownrow /\ cpc' = Set(cpc, p, "c_commit")       \* found: leave it (re-arming is KF-C04-1, not modelled here)
              /\ UNCHANGED <<committed, rows, jstate, lock, rlock, jobs, rpc, rsaw, actions>>
CCommit(p) == /\ cpc[p] = "c_commit"
              /\ IF ownrow[p] /\ UseUniqueKey /\ rows > 0
                 THEN \* unique key violation at flush / commit: rollback, the whole delivery is retried
                      /\ ownrow' = Set(ownrow, p, FALSE) /\ cpc' = Set(cpc, p, "c_fast")
                      /\ UNCHANGED <<committed, rows, jstate>>
                 ELSE /\ committed' = committed \cup {p}
                      /\ rows' = IF ownrow[p] THEN rows + 1 ELSE rows
                      /\ jstate' = IF ownrow[p] /\ rows = 0 THEN "WAITING" ELSE jstate
                      /\ ownrow' = Set(ownrow, p, FALSE)
                      /\ cpc' = Set(cpc, p, "c_sched")
              /\ lock' = IF lock = p THEN 0 ELSE lock
              /\ UNCHANGED <<rlock, jobs, rpc, rsaw, actions>>
\* post-commit: schedule_if_needed
FreeJob == CHOOSE j \in JobIds : jobs[j] = "absent"
CSched(p) == /\ cpc[p] = "c_sched"
             /\ cpc' = Set(cpc, p, "done")
             /\ IF \E j \in JobIds : jobs[j] = "new" \/ (~DedupeUncapturedOnly /\ jobs[j] = "captured")
                THEN UNCHANGED jobs
                ELSE IF \E j \in JobIds : jobs[j] = "absent" THEN jobs' = Set(jobs, FreeJob, "new") ELSE UNCHANGED jobs
             /\ UNCHANGED <<committed, rows, ownrow, jstate, lock, rlock, rpc, rsaw, actions>>

(* ---- refresher working on job j ---- *)
RCapture(j) == /\ jobs[j] = "new" /\ rpc[j] = "idle"
               /\ jobs' = Set(jobs, j, "captured") /\ rpc' = Set(rpc, j, "r_read")
               /\ UNCHANGED <<cpc, committed, rows, ownrow, jstate, lock, rlock, rsaw, actions>>
REnd(j) == /\ rpc' = Set(rpc, j, "r_delete") /\ rlock' = IF rlock = j THEN 0 ELSE rlock
RRead(j) == /\ rpc[j] = "r_read"
            /\ rsaw' = Set(rsaw, j, jstate)
            /\ IF jstate \in {"none", "RUNNING"}
               THEN REnd(j)
               ELSE rpc' = Set(rpc, j, IF UseRefreshLock THEN "r_lock" ELSE "r_refresh") /\ UNCHANGED rlock
            /\ UNCHANGED <<cpc, committed, rows, ownrow, jstate, lock, jobs, actions>>
RLock(j) == /\ rpc[j] = "r_lock" /\ rlock = 0
            /\ rlock' = j /\ rpc' = Set(rpc, j, "r_refresh")
            /\ UNCHANGED <<cpc, committed, rows, ownrow, jstate, lock, jobs, rsaw, actions>>
RRefresh(j) == /\ rpc[j] = "r_refresh"
               /\ IF RefreshAfterLock
                  THEN /\ rsaw' = Set(rsaw, j, jstate)
                       /\ IF jstate = "RUNNING" THEN REnd(j) ELSE rpc' = Set(rpc, j, "r_decide") /\ UNCHANGED rlock
                  ELSE rpc' = Set(rpc, j, "r_decide") /\ UNCHANGED <<rsaw, rlock>>
               /\ UNCHANGED <<cpc, committed, rows, ownrow, jstate, lock, jobs, actions>>
\* the logical state is computed from committed rows of the inbound tasks
RDecide(j) == /\ rpc[j] = "r_decide"
              /\ IF Cardinality(committed) >= Need
                 THEN rpc' = Set(rpc, j, "r_start") /\ UNCHANGED rlock
                 ELSE REnd(j)
              /\ UNCHANGED <<cpc, committed, rows, ownrow, jstate, lock, jobs, rsaw, actions>>
\* continue_task: Task.set_state is a compare-and-swap, but its result is ignored and task.run() follows in any
\* case - the compare-and-swap does NOT protect the start of the action; the lock + refresh + re-check above do
RStart(j) == /\ rpc[j] = "r_start"
             /\ jstate' = "RUNNING" /\ actions' = actions + 1
             /\ REnd(j)
             /\ UNCHANGED <<cpc, committed, rows, ownrow, lock, jobs, rsaw>>
RDelete(j) == /\ rpc[j] = "r_delete"
              /\ jobs' = Set(jobs, j, "done") /\ rpc' = Set(rpc, j, "finished")
              /\ UNCHANGED <<cpc, committed, rows, ownrow, jstate, lock, rlock, rsaw, actions>>

Next == \/ \E p \in Inb : CWrite(p) \/ CFast(p) \/ CLock(p) \/ CCreate(p) \/ CCommit(p) \/ CSched(p)
        \/ \E j \in JobIds : RCapture(j) \/ RRead(j) \/ RLock(j) \/ RRefresh(j) \/ RDecide(j) \/ RStart(j) \/ RDelete(j)
Spec == Init /\ [][Next]_vars /\ WF_vars(Next)

(* ---- C04 at statement level ---- *)
\* one execution of the join, whatever the commit order of the completers
OneJoinRow == rows <= 1
\* the join starts its action at most once, however many refresh jobs race
JoinStartsOnce == actions <= 1
\* it starts only when enough inbound completions are committed
JoinGate == actions > 0 => Cardinality(committed) >= Need
\* no lost wake-up: once everything is quiet and enough inbound tasks completed, the join has started
Quiet == /\ \A p \in Inb : cpc[p] = "done"
         /\ \A j \in JobIds : jobs[j] \in {"absent", "done"}
NoLostWakeup == (Quiet /\ Cardinality(committed) >= Need) => actions = 1
EventuallyQuiet == <>Quiet
=============================================================================
