------------------------------- MODULE DslTrace -------------------------------
(* Recorded validations: [base, muts, entry, outcome, ms, stable, extracted].   *)
(* Decisive: outcome is "accepted" or "definition_error" (anything else is an   *)
(* internal error or a hang), within the time budget; an accepted definition    *)
(* re-instantiated from its stored dict equals itself; a workflow extracted     *)
(* from a workbook is the workflow written in the workbook.                     *)
EXTENDS DslValidation, Json, IOUtils
TraceLog == ndJsonDeserialize(IOEnv.TRACE_FILE)
CONSTANT BudgetMs
VARIABLE tid
R == TraceLog[tid]
TInit == /\ tid \in 1..Len(TraceLog)
         /\ base = R.base /\ muts = R.muts /\ stage = 1 /\ outcome = "pending"
TNext == Next /\ UNCHANGED tid
TSpec == TInit /\ [][TNext]_<<vars, tid>>
Report == /\ (outcome = "pending" /\ stage = 1) =>
              PrintT(<<"case", tid, R.outcome \in {"accepted", "definition_error"}, R.ms <= BudgetMs,
                       (R.outcome = "accepted" => R.stable), (R.outcome = "accepted" => R.extracted)>>)
          /\ (outcome = R.outcome) => PrintT(<<"accepted", tid>>)
=============================================================================
