---------------------------- MODULE DslValidation ----------------------------
(***************************************************************************)
(* C14 - definition validation is total and accepted definitions are       *)
(* stable.                                                                 *)
(* Part (i): the validation pipeline of mistral/lang as a state machine    *)
(*    parse YAML -> version -> schema -> semantics -> expressions          *)
(* whose ONLY terminal states are Accepted and Rejected(definition error). *)
(* Part (ii): the input space.  A submitted text is a base document (taken *)
(* from a catalogue of valid definitions covering the DSL features) with   *)
(* up to two structure-aware mutations, each (node, kind).  TLC enumerates *)
(* the mutation descriptors; the harness concretises each one, submits it  *)
(* through the real parser entry points and the /validate controllers, and *)
(* DslTrace checks every recorded outcome against this module.             *)
(* TLA+ does not parse YAML: which documents are valid is NOT specified    *)
(* here (the property does not say it either) - only that the outcome is   *)
(* one of the two admitted classes, in time, and that accepted ones are    *)
(* stable under re-instantiation from their stored form.                   *)
(***************************************************************************)
EXTENDS Naturals, Sequences, FiniteSets, TLC

CONSTANTS Bases,      \* base document ids
          NodesOf,    \* [Bases -> Nat]  number of addressable nodes of each base document
          Kinds,      \* mutation kinds
          MaxMut      \* 0..2 mutations

Stages == <<"yaml", "version", "schema", "semantics", "expressions">>
Mutation(b) == [node : 1..NodesOf[b], kind : Kinds]

VARIABLES base, muts, stage, outcome
vars == <<base, muts, stage, outcome>>

Init == /\ base \in Bases
        /\ muts \in UNION {[1..k -> Mutation(base)] : k \in 0..MaxMut}
        /\ stage = 1 /\ outcome = "pending"

Pass   == /\ outcome = "pending" /\ stage <= Len(Stages)
          /\ stage' = stage + 1
          /\ outcome' = IF stage = Len(Stages) THEN "accepted" ELSE "pending"
          /\ UNCHANGED <<base, muts>>
Reject == /\ outcome = "pending" /\ stage <= Len(Stages)
          /\ outcome' = "definition_error"
          /\ UNCHANGED <<base, muts, stage>>
Next == Pass \/ Reject
Spec == Init /\ [][Next]_vars /\ WF_vars(Next)

OnlyTwoOutcomes == outcome \in {"pending", "accepted", "definition_error"}
Total           == <>(outcome \in {"accepted", "definition_error"})
\* an unmutated base document is valid by construction of the catalogue
=============================================================================
