------------------------------ MODULE Executor ------------------------------
(***************************************************************************)
(* C06 (second half) - the executor side of message redelivery:            *)
(* mistral/executors/executor_server.py run_action +                       *)
(* default_executor.py _do_run_action, one request per behaviour.          *)
(*   Receive      the request arrives (possibly marked redelivered)        *)
(*   Refuse       redelivered and not safe-rerun: the action is NOT run,   *)
(*                one error result is reported                             *)
(*   Run          the action body runs: returns / returns an error result  *)
(*                / raises                                                 *)
(*   SendResult   result conveyed to the engine (only for sync actions or  *)
(*                error results); the send itself may fail with a service  *)
(*                error (then an error result is sent instead) or with     *)
(*                another exception (logged only)                          *)
(***************************************************************************)
EXTENDS Naturals, Sequences, FiniteSets, TLC

CONSTANTS Outcomes,   \* {"data", "error_result", "raises"}
          SendFaults  \* {"ok", "mistral_exc", "other_exc"}

VARIABLES redelivered, safe, sync, outcome, fault1, fault2, pc, ran, log
\* log: sequence of events "run", "send_ok:<kind>", "send_fail:<kind>"
vars == <<redelivered, safe, sync, outcome, fault1, fault2, pc, ran, log>>

Init == /\ redelivered \in BOOLEAN /\ safe \in BOOLEAN /\ sync \in BOOLEAN
        /\ outcome \in Outcomes /\ fault1 \in SendFaults /\ fault2 \in SendFaults
        /\ pc = "received" /\ ran = FALSE /\ log = <<>>

Send(kind, fault) == IF fault = "ok" THEN <<"send_ok:" \o kind>> ELSE <<"send_fail:" \o kind>>

Refuse == /\ pc = "received" /\ redelivered /\ ~safe
          /\ log' = log \o Send("error", fault1)        \* send_error_back: synchronous call
          /\ pc' = "done"
          /\ UNCHANGED <<redelivered, safe, sync, outcome, fault1, fault2, ran>>
Run    == /\ pc = "received" /\ ~(redelivered /\ ~safe)
          /\ ran' = TRUE
          /\ log' = Append(log, "run")
          /\ pc' = IF outcome = "raises" THEN "raised" ELSE "returned"
          /\ UNCHANGED <<redelivered, safe, sync, outcome, fault1, fault2>>
SendErrorAfterRaise ==
          /\ pc = "raised"
          /\ log' = log \o Send("error", fault1)
          /\ pc' = "done"
          /\ UNCHANGED <<redelivered, safe, sync, outcome, fault1, fault2, ran>>
SendResult ==
          /\ pc = "returned"
          /\ IF sync \/ outcome = "error_result"
             THEN LET kind == IF outcome = "error_result" THEN "error" ELSE "data" IN
                  /\ log' = log \o Send(kind, fault1)
                  /\ pc' = IF fault1 = "mistral_exc" THEN "send_failed" ELSE "done"
             ELSE /\ log' = log /\ pc' = "done"            \* asynchronous action: the result comes later through the API
          /\ UNCHANGED <<redelivered, safe, sync, outcome, fault1, fault2, ran>>
SendErrorAfterServiceError ==
          /\ pc = "send_failed"
          /\ log' = log \o Send("error", fault2)
          /\ pc' = "done"
          /\ UNCHANGED <<redelivered, safe, sync, outcome, fault1, fault2, ran>>
Next == Refuse \/ Run \/ SendErrorAfterRaise \/ SendResult \/ SendErrorAfterServiceError
Spec == Init /\ [][Next]_vars /\ WF_vars(Next)

Oks == {i \in 1..Len(log) : log[i] \in {"send_ok:data", "send_ok:error"}}
(* ---- properties ---- *)
RunIffAllowed   == pc = "done" => (ran <=> ~(redelivered /\ ~safe))
AtMostOneResult == Cardinality(Oks) <= 1
RefusedOneError == (pc = "done" /\ redelivered /\ ~safe) =>
                      /\ ~ran
                      /\ Len(log) = 1 /\ log[1] \in {"send_ok:error", "send_fail:error"}
RunsAtMostOnce  == Cardinality({i \in 1..Len(log) : log[i] = "run"}) <= 1
Finishes        == <>(pc = "done")
=============================================================================
