---------------------------- MODULE ExecutorTrace ----------------------------
(* Every recorded request handled by the real ExecutorServer.run_action /      *)
(* DefaultExecutor (scripted action body and scripted engine client) must be   *)
(* a behaviour of Executor: the logged event sequence equals the model's log.  *)
EXTENDS Executor, Json, IOUtils
TraceLog == ndJsonDeserialize(IOEnv.TRACE_FILE)
VARIABLE tid
tvars == <<vars, tid>>
R == TraceLog[tid]
TInit == /\ tid \in 1..Len(TraceLog)
         /\ redelivered = R.redelivered /\ safe = R.safe /\ sync = R.sync
         /\ outcome = R.outcome /\ fault1 = R.fault1 /\ fault2 = R.fault2
         /\ pc = "received" /\ ran = FALSE /\ log = <<>>
TNext == Next /\ UNCHANGED tid
TSpec == TInit /\ [][TNext]_tvars
ObsOks == {i \in 1..Len(R.events) : R.events[i] \in {"send_ok:data", "send_ok:error"}}
Report == /\ (pc = "received") =>
               PrintT(<<"case", tid,
                        \* decisive formulas over the observation alone
                        (("run" \in {R.events[i] : i \in DOMAIN R.events}) <=> ~(R.redelivered /\ ~R.safe)),
                        Cardinality(ObsOks) <= 1,
                        Cardinality({i \in 1..Len(R.events) : R.events[i] = "run"}) <= 1,
                        ((R.redelivered /\ ~R.safe) => (Len(R.events) = 1 /\ R.events[1] \in {"send_ok:error", "send_fail:error"}))>>)
          /\ (pc = "done" /\ log = R.events) => PrintT(<<"accepted", tid>>)
=============================================================================
