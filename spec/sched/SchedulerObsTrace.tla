------------------------- MODULE SchedulerObsTrace -------------------------
(***************************************************************************)
(* Observations recorded from real scheduler objects (harness/schedworld): *)
(* one JSON line per execution, steps[l] = [ev, obs].  The observable      *)
(* variables of SchedulerProps simply take the logged values; the property *)
(* formulas are evaluated on every step of every execution (decisive).     *)
(* Instead of INVARIANT (which would stop at the first failing execution)  *)
(* each false formula is reported with its trace id, step and name.        *)
(***************************************************************************)
EXTENDS SchedulerProps, Json, IOUtils

TraceLog == ndJsonDeserialize(IOEnv.TRACE_FILE)
VARIABLES tid, l
tvars == <<obsvars, tid, l>>

ToSet(s) == {s[x] : x \in DOMAIN s}
Steps == TraceLog[tid].steps
O(k) == Steps[k].obs
\* JSON arrays are indexed 1..n like Jobs and Inst
Bind(o) ==
  /\ now = o.now
  /\ tx = [j \in Jobs |-> o.tx[j]]
  /\ execAt = [j \in Jobs |-> o.execAt[j]]
  /\ rowCap = [j \in Jobs |-> o.rowCap[j]]
  /\ invCount = [j \in Jobs |-> o.invCount[j]]
  /\ invAt = [j \in Jobs |-> o.invAt[j]]
  /\ invCaps = [j \in Jobs |-> ToSet(o.invCaps[j])]
  /\ imj = [i \in Inst |-> ToSet(o.imj[i])]
  /\ lcap = [i \in Inst |-> [j \in Jobs |-> o.lcap[i][j]]]
  /\ alive = [i \in Inst |-> o.alive[i]]
  /\ ans = [i \in Inst |-> [k \in Keys |-> o.ans[i][k]]]

TInit == /\ tid \in 1..Len(TraceLog) /\ l = 1 /\ Bind(O(1))
TNext == /\ l < Len(Steps) /\ l' = l + 1 /\ UNCHANGED tid
         /\ now' = O(l + 1).now
         /\ tx' = [j \in Jobs |-> O(l + 1).tx[j]]
         /\ execAt' = [j \in Jobs |-> O(l + 1).execAt[j]]
         /\ rowCap' = [j \in Jobs |-> O(l + 1).rowCap[j]]
         /\ invCount' = [j \in Jobs |-> O(l + 1).invCount[j]]
         /\ invAt' = [j \in Jobs |-> O(l + 1).invAt[j]]
         /\ invCaps' = [j \in Jobs |-> ToSet(O(l + 1).invCaps[j])]
         /\ imj' = [i \in Inst |-> ToSet(O(l + 1).imj[i])]
         /\ lcap' = [i \in Inst |-> [j \in Jobs |-> O(l + 1).lcap[i][j]]]
         /\ alive' = [i \in Inst |-> O(l + 1).alive[i]]
         /\ ans' = [i \in Inst |-> [k \in Keys |-> O(l + 1).ans[i][k]]]
TSpec == TInit /\ [][TNext]_tvars

Rep(name, f) == f \/ PrintT(<<"viol", tid, l, name>>)
Report ==
  /\ Rep("NotEarly", NotEarly)
  /\ Rep("OnceWithinTimeout", OnceWithinTimeout)
  /\ Rep("NeverIfRolledBack", NeverIfRolledBack)
  /\ Rep("OnlyScheduled", OnlyScheduled)
  /\ Rep("HasJobsExact", HasJobsExactModuloKF)
  /\ (KFReached => PrintT(<<"kf", tid, l, "KF_StaleMemoryCopy">>))
  /\ (l = Len(Steps) => PrintT(<<"done", tid>>))
=============================================================================
