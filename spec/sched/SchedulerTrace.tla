--------------------------- MODULE SchedulerTrace ---------------------------
(***************************************************************************)
(* Strict trace validation: every recorded execution of the real           *)
(* DefaultScheduler objects must be a behaviour of Scheduler.tla - each    *)
(* logged event is the named action with the logged arguments and the      *)
(* post-state projects to the logged observation; the internal variables   *)
(* (heap, mpc, pollq order, ...) are inferred by TLC.  Rejection is a      *)
(* DIVERGENCE (spec and code disagree), not a verdict on the property.     *)
(***************************************************************************)
EXTENDS Scheduler, Json, IOUtils

TraceLog == ndJsonDeserialize(IOEnv.TRACE_FILE)
VARIABLES tid, l
tvars == <<vars, tid, l>>

ToSet(s) == {s[x] : x \in DOMAIN s}
Steps == TraceLog[tid].steps
O(k) == Steps[k].obs

TInit == tid \in 1..Len(TraceLog) /\ l = 1 /\ Init

Matches(o) ==
  /\ now' = o.now
  /\ tx' = [j \in Jobs |-> o.tx[j]]
  /\ execAt' = [j \in Jobs |-> o.execAt[j]]
  /\ rowCap' = [j \in Jobs |-> o.rowCap[j]]
  /\ invCount' = [j \in Jobs |-> o.invCount[j]]
  /\ invAt' = [j \in Jobs |-> o.invAt[j]]
  /\ invCaps' = [j \in Jobs |-> ToSet(o.invCaps[j])]
  /\ imj' = [i \in Inst |-> ToSet(o.imj[i])]
  /\ lcap' = [i \in Inst |-> [j \in Jobs |-> o.lcap[i][j]]]
  /\ alive' = [i \in Inst |-> o.alive[i]]
  /\ ans' = [i \in Inst |-> [k \in Keys |-> o.ans[i][k]]]

TNext == /\ l < Len(Steps) /\ l' = l + 1 /\ UNCHANGED tid
         /\ Next
         /\ ev' = Steps[l + 1].ev
         /\ Matches(O(l + 1))
TSpec == TInit /\ [][TNext]_tvars

Report == /\ PrintT(<<"reached", tid, l>>)
          /\ (l = Len(Steps) => PrintT(<<"accepted", tid>>))
=============================================================================
