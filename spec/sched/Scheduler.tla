------------------------------ MODULE Scheduler ------------------------------
(***************************************************************************)
(* C13 - model of mistral/scheduler/default_scheduler.py: several          *)
(* DefaultScheduler instances over one scheduled_jobs_v2 table.            *)
(* One action per separately committed step of the code:                   *)
(*   Schedule         schedule() inside the caller's transaction: row +    *)
(*                    in-memory copy (heap, in_memory_jobs); the           *)
(*                    transaction commits or rolls back                    *)
(*   Dispatch         _dispatcher pops every due job of its heap           *)
(*   MemCapture / MemInvoke / MemDelete    _process_memory_job             *)
(*   Poll             _process_store_jobs: select + capture (one tx)       *)
(*   PollInvoke / PollDelete               rest of _process_store_jobs     *)
(*   Crash            the process dies between any two steps               *)
(*   Tick             time passes                                          *)
(* In a single process every transaction is serial (tx_lock), so the       *)
(* scheduling transaction is atomic here when Serial = TRUE; with          *)
(* Serial = FALSE (model only) it stays open across other steps and its    *)
(* row is invisible to the others until commit.                            *)
(***************************************************************************)
EXTENDS SchedulerProps

CONSTANTS Delay,       \* [Jobs -> Nat]   run_after
          Pickup,      \* pickup_job_after
          Batch,       \* batch_size (0 = unlimited)
          MaxTime, SchedBy, CrashBy,
          Immortal,    \* instances that never crash
          Serial,
          MortalActLate \* FALSE (liveness configs): a mortal instance takes no step after CrashBy

VARIABLES heap,   \* [Inst -> SUBSET Jobs]
          mpc,    \* [Inst -> [Jobs -> {"idle","popped","captured","invoked"}]]
          pollq,  \* [Inst -> Seq(Jobs)]  captured by the running store poll, still to process
          pstage, \* [Inst -> {"idle","invoke","delete"}]
          pcap,   \* [Inst -> Int] capture time of the running poll
          ev      \* last event (history; outside the VIEW)

vars == <<obsvars, heap, mpc, pollq, pstage, pcap, ev>>
view == <<obsvars, heap, mpc, pollq, pstage, pcap>>

\* the capture runs in a pool thread with its own session: it sees committed rows only
RowVisibleTo(i, j) == rowCap[j] # -2 /\ tx[j] = "committed"

\* has_scheduled_jobs(key=k, processing=False): in-memory copies first, then the table
AnswerOf(i, k, imj_, lcap_, rowCap_, tx_) ==
   \/ \E j \in imj_[i] : KeyOf[j] = k /\ lcap_[i][j] = -1
   \/ \E j \in Jobs : KeyOf[j] = k /\ rowCap_[j] = -1 /\ (tx_[j] = "committed" \/ (tx_[j] = "open" /\ Owner[j] = i))
\* (a dead instance answers nothing: FALSE by convention, as the harness records it)
Answers(imj_, lcap_, rowCap_, tx_, alive_) == [i \in Inst |-> [k \in Keys |-> alive_[i] /\ AnswerOf(i, k, imj_, lcap_, rowCap_, tx_)]]
SetAns == ans' = Answers(imj', lcap', rowCap', tx', alive')

Up(i) == alive[i] /\ (MortalActLate \/ i \in Immortal \/ now <= CrashBy)

Init == /\ now = 0
        /\ tx = [j \in Jobs |-> "none"]
        /\ execAt = [j \in Jobs |-> -1]
        /\ rowCap = [j \in Jobs |-> -2]
        /\ invCount = [j \in Jobs |-> 0]
        /\ invAt = [j \in Jobs |-> -1]
        /\ invCaps = [j \in Jobs |-> {}]
        /\ imj = [i \in Inst |-> {}]
        /\ lcap = [i \in Inst |-> [j \in Jobs |-> -1]]
        /\ alive = [i \in Inst |-> TRUE]
        /\ ans = [i \in Inst |-> [k \in Keys |-> FALSE]]
        /\ heap = [i \in Inst |-> {}]
        /\ mpc = [i \in Inst |-> [j \in Jobs |-> "idle"]]
        /\ pollq = [i \in Inst |-> <<>>]
        /\ pstage = [i \in Inst |-> "idle"]
        /\ pcap = [i \in Inst |-> -1]
        /\ ev = [a |-> "Init"]

UnchangedInv  == UNCHANGED <<invCount, invAt, invCaps>>
UnchangedPoll == UNCHANGED <<pollq, pstage, pcap>>

\* schedule(): _persist_job + _schedule_in_memory, both before the transaction ends
Schedule(i, j, c) ==       \* Serial: the whole scheduling transaction is one step
  /\ Serial /\ Up(i) /\ Owner[j] = i /\ tx[j] = "none" /\ now <= SchedBy
  /\ tx' = [tx EXCEPT ![j] = IF c THEN "committed" ELSE "rolledback"]
  /\ execAt' = [execAt EXCEPT ![j] = now + Delay[j]]
  /\ rowCap' = [rowCap EXCEPT ![j] = IF c THEN -1 ELSE -2]
  /\ heap' = [heap EXCEPT ![i] = @ \cup {j}]
  /\ imj' = [imj EXCEPT ![i] = @ \cup {j}]
  /\ lcap' = [lcap EXCEPT ![i][j] = -1]
  /\ UNCHANGED <<now, alive, mpc>> /\ UnchangedInv /\ UnchangedPoll
  /\ SetAns
  /\ ev' = [a |-> "Schedule", i |-> i, j |-> j, c |-> c]
Begin(i, j) ==             \* ~Serial (model only): the transaction stays open across other steps
  /\ ~Serial /\ Up(i) /\ Owner[j] = i /\ tx[j] = "none" /\ now <= SchedBy
  /\ tx' = [tx EXCEPT ![j] = "open"]
  /\ execAt' = [execAt EXCEPT ![j] = now + Delay[j]]
  /\ rowCap' = [rowCap EXCEPT ![j] = -1]
  /\ heap' = [heap EXCEPT ![i] = @ \cup {j}]
  /\ imj' = [imj EXCEPT ![i] = @ \cup {j}]
  /\ lcap' = [lcap EXCEPT ![i][j] = -1]
  /\ UNCHANGED <<now, alive, mpc>> /\ UnchangedInv /\ UnchangedPoll
  /\ SetAns
  /\ ev' = [a |-> "Begin", i |-> i, j |-> j]
Commit(j) ==
  /\ tx[j] = "open"
  /\ tx' = [tx EXCEPT ![j] = "committed"]
  /\ UNCHANGED <<now, execAt, rowCap, imj, lcap, alive, heap, mpc>> /\ UnchangedInv /\ UnchangedPoll
  /\ SetAns
  /\ ev' = [a |-> "Commit", j |-> j]
Rollback(j) ==
  /\ tx[j] = "open"
  /\ tx' = [tx EXCEPT ![j] = "rolledback"]
  /\ rowCap' = [rowCap EXCEPT ![j] = -2]
  /\ UNCHANGED <<now, execAt, imj, lcap, alive, heap, mpc>> /\ UnchangedInv /\ UnchangedPoll
  /\ SetAns
  /\ ev' = [a |-> "Rollback", j |-> j]

\* _dispatcher: pops every job of the heap whose time has come and submits it
Dispatch(i) ==
  /\ Up(i)
  /\ LET D == {j \in heap[i] : execAt[j] <= now} IN
       /\ D # {}
       /\ heap' = [heap EXCEPT ![i] = @ \ D]
       /\ mpc' = [mpc EXCEPT ![i] = [j \in Jobs |-> IF j \in D THEN "popped" ELSE @[j]]]
  /\ UNCHANGED <<now, tx, execAt, rowCap, imj, lcap, alive, ans>> /\ UnchangedInv /\ UnchangedPoll
  /\ ev' = [a |-> "Dispatch", i |-> i]

\* the dispatcher is woken although nothing on its heap is due (another schedule() call notifies the condition, a spurious
\* wake-up): it computes the delay of the top job again and goes back to sleep - no effect
Wake(i) ==
  /\ Up(i) /\ heap[i] # {} /\ \A j \in heap[i] : execAt[j] > now
  /\ UNCHANGED <<obsvars, heap, mpc, pollq, pstage, pcap>>
  /\ ev' = [a |-> "Wake", i |-> i]

\* _capture_scheduled_job: UPDATE ... SET captured_at = now WHERE id = j AND captured_at = <value last seen>
MemCapture(i, j) ==
  /\ Up(i) /\ mpc[i][j] = "popped"
  /\ IF RowVisibleTo(i, j) /\ rowCap[j] = lcap[i][j]
     THEN /\ rowCap' = [rowCap EXCEPT ![j] = now]
          /\ lcap' = [lcap EXCEPT ![i][j] = now]
          /\ mpc' = [mpc EXCEPT ![i][j] = "captured"]
          /\ imj' = imj
     ELSE /\ mpc' = [mpc EXCEPT ![i][j] = "idle"]       \* "Unable to capture": forget the copy
          /\ imj' = [imj EXCEPT ![i] = @ \ {j}]
          /\ UNCHANGED <<rowCap, lcap>>
  /\ UNCHANGED <<now, tx, execAt, alive, heap>> /\ UnchangedInv /\ UnchangedPoll
  /\ SetAns
  /\ ev' = [a |-> "MemCapture", i |-> i, j |-> j]

DoInvoke(j, cap) ==
  /\ invCount' = [invCount EXCEPT ![j] = @ + 1]
  /\ invAt' = [invAt EXCEPT ![j] = now]
  /\ invCaps' = [invCaps EXCEPT ![j] = @ \cup {cap}]

MemInvoke(i, j) ==
  /\ Up(i) /\ mpc[i][j] = "captured"
  /\ DoInvoke(j, lcap[i][j])
  /\ mpc' = [mpc EXCEPT ![i][j] = "invoked"]
  /\ UNCHANGED <<now, tx, execAt, rowCap, imj, lcap, alive, ans, heap>> /\ UnchangedPoll
  /\ ev' = [a |-> "MemInvoke", i |-> i, j |-> j]

\* _delete_scheduled_job by id, then (finally) forget the in-memory copy
MemDelete(i, j) ==
  /\ Up(i) /\ mpc[i][j] = "invoked"
  /\ rowCap' = [rowCap EXCEPT ![j] = -2]
  /\ mpc' = [mpc EXCEPT ![i][j] = "idle"]
  /\ imj' = [imj EXCEPT ![i] = @ \ {j}]
  /\ lcap' = [lcap EXCEPT ![i][j] = -1]          \* the in-memory object is forgotten
  /\ UNCHANGED <<now, tx, execAt, alive, heap>> /\ UnchangedInv /\ UnchangedPoll
  /\ SetAns
  /\ ev' = [a |-> "MemDelete", i |-> i, j |-> j]

\* get_scheduled_jobs_to_start + capture of every candidate, one transaction
Cand == {j \in Jobs : /\ rowCap[j] # -2 /\ tx[j] = "committed"
                      /\ execAt[j] < now - Pickup
                      /\ (rowCap[j] = -1 \/ rowCap[j] <= now - CapTimeout)}
\* ORDER BY execute_at LIMIT batch: any order among equal times
IsOrdered(s) == \A a, b \in 1..Len(s) : a < b => execAt[s[a]] <= execAt[s[b]]
Perms(S) == {s \in [1..Cardinality(S) -> S] : \A a, b \in 1..Cardinality(S) : a # b => s[a] # s[b]}
Poll(i) ==
  /\ Up(i) /\ pstage[i] = "idle" /\ Cand # {}
  /\ \E s \in Perms(Cand) :
       /\ IsOrdered(s)
       /\ LET q == IF Batch = 0 \/ Len(s) <= Batch THEN s ELSE SubSeq(s, 1, Batch)
              Q == {q[x] : x \in 1..Len(q)} IN
            /\ pollq' = [pollq EXCEPT ![i] = q]
            /\ rowCap' = [j \in Jobs |-> IF j \in Q THEN now ELSE rowCap[j]]
  /\ pstage' = [pstage EXCEPT ![i] = "invoke"]
  /\ pcap' = [pcap EXCEPT ![i] = now]
  /\ UNCHANGED <<now, tx, execAt, imj, lcap, alive, heap, mpc>> /\ UnchangedInv
  /\ SetAns
  /\ ev' = [a |-> "Poll", i |-> i]
PollNothing(i) ==          \* a store poll that finds no candidate: no effect
  /\ Up(i) /\ pstage[i] = "idle" /\ Cand = {}
  /\ UNCHANGED <<obsvars, heap, mpc, pollq, pstage, pcap>>
  /\ ev' = [a |-> "PollNothing", i |-> i]
PollInvoke(i) ==
  /\ Up(i) /\ pstage[i] = "invoke"
  /\ DoInvoke(Head(pollq[i]), pcap[i])
  /\ pstage' = [pstage EXCEPT ![i] = "delete"]
  /\ UNCHANGED <<now, tx, execAt, rowCap, imj, lcap, alive, ans, heap, mpc, pollq, pcap>>
  /\ ev' = [a |-> "PollInvoke", i |-> i, j |-> Head(pollq[i])]
\* (the row may be gone already - the job was also in this or another instance's memory, ran there past the capture timeout and
\*  was deleted: delete_scheduled_job raises DBEntityNotFoundError, which ends the whole pass; the rest of the batch stays captured
\*  and is picked up again after the capture timeout)
PollDelete(i) ==
  /\ Up(i) /\ pstage[i] = "delete"
  /\ rowCap' = [rowCap EXCEPT ![Head(pollq[i])] = -2]
  /\ LET gone == rowCap[Head(pollq[i])] = -2 IN
       /\ pollq' = [pollq EXCEPT ![i] = IF gone THEN <<>> ELSE Tail(@)]
       /\ pstage' = [pstage EXCEPT ![i] = IF gone \/ Len(pollq[i]) = 1 THEN "idle" ELSE "invoke"]
  /\ UNCHANGED <<now, tx, execAt, imj, lcap, alive, heap, mpc, pcap>> /\ UnchangedInv
  /\ SetAns
  /\ ev' = [a |-> "PollDelete", i |-> i, j |-> Head(pollq[i])]

Crash(i) ==
  /\ alive[i] /\ i \notin Immortal /\ now <= CrashBy
  /\ \A j \in Jobs : ~(tx[j] = "open" /\ Owner[j] = i)      \* (an open transaction of a dying process rolls back: use Rollback first)
  /\ alive' = [alive EXCEPT ![i] = FALSE]
  /\ heap' = [heap EXCEPT ![i] = {}]
  /\ imj' = [imj EXCEPT ![i] = {}]
  /\ mpc' = [mpc EXCEPT ![i] = [j \in Jobs |-> "idle"]]
  /\ pollq' = [pollq EXCEPT ![i] = <<>>]
  /\ pstage' = [pstage EXCEPT ![i] = "idle"]
  /\ lcap' = [lcap EXCEPT ![i] = [j \in Jobs |-> -1]]
  /\ UNCHANGED <<now, tx, execAt, rowCap, pcap>> /\ UnchangedInv
  /\ SetAns
  /\ ev' = [a |-> "Crash", i |-> i]

Tick ==
  /\ now < MaxTime
  /\ now' = now + 1
  /\ UNCHANGED <<tx, execAt, rowCap, imj, lcap, alive, ans, heap, mpc>> /\ UnchangedInv /\ UnchangedPoll
  /\ ev' = [a |-> "Tick"]

Next == \/ \E i \in Inst, j \in Jobs, c \in BOOLEAN : Schedule(i, j, c)
        \/ \E i \in Inst, j \in Jobs : Begin(i, j) \/ MemCapture(i, j) \/ MemInvoke(i, j) \/ MemDelete(i, j)
        \/ \E j \in Jobs : Commit(j) \/ Rollback(j)
        \/ \E i \in Inst : Dispatch(i) \/ Wake(i) \/ PollNothing(i) \/ Poll(i) \/ PollInvoke(i) \/ PollDelete(i) \/ Crash(i)
        \/ Tick

Progress(i) == \/ \E j \in Jobs : MemCapture(i, j) \/ MemInvoke(i, j) \/ MemDelete(i, j)
               \/ Dispatch(i) \/ Poll(i) \/ PollInvoke(i) \/ PollDelete(i)
Spec == Init /\ [][Next]_vars
FairSpec == Spec /\ WF_vars(Tick) /\ \A i \in Immortal : WF_vars(Progress(i))
                 /\ \A j \in Jobs : WF_vars(Commit(j) \/ Rollback(j))

(* ---- liveness: a committed job is eventually invoked, also after a crash of its capturer ---- *)
\* (the model's clock stops at MaxTime: a job that is captured at that horizon and whose capture timeout has not run out - the
\*  rest of a store pass that ended on DBEntityNotFoundError - would be picked up again later; the horizon excuses exactly that)
CutByHorizon(j) == now = MaxTime /\ rowCap[j] >= 0 /\ rowCap[j] > now - CapTimeout
AtLeastOnce == \A j \in Jobs : (tx[j] = "committed") ~> (invCount[j] >= 1 \/ CutByHorizon(j))
\* everything finishes: no job row is left behind
Drains == <>[](\A j \in Jobs : tx[j] = "committed" => (rowCap[j] = -2 \/ CutByHorizon(j)))

TypeOK == /\ now \in 0..MaxTime
          /\ \A j \in Jobs : rowCap[j] \in -2..MaxTime
=============================================================================
