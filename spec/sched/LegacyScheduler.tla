--------------------------- MODULE LegacyScheduler ---------------------------
(***************************************************************************)
(* C13 - model of mistral/services/legacy_scheduler.py (the default        *)
(* scheduler_type): rows of delayed_calls_v2 with a boolean "processing"   *)
(* flag, no in-memory copies.  One poll = _capture_calls (select + flag,   *)
(* one transaction), then every captured call is invoked, then all are     *)
(* deleted in one statement.  A call captured by an instance that dies is  *)
(* never run again - the recovery guarantee does not apply to this         *)
(* implementation (stated, not checked).                                   *)
(* rowCap: -2 no row, -1 processing = FALSE, t = flagged at time t.        *)
(***************************************************************************)
EXTENDS SchedulerProps

CONSTANTS Delay, Pickup, Batch, MaxTime, SchedBy, CrashBy, Immortal, Serial, MortalActLate

VARIABLES pollq,  \* [Inst -> Seq(Jobs)] calls captured by the running poll
          ppos,   \* [Inst -> Nat] how many of them were invoked
          pstage, \* [Inst -> {"idle","invoke","delete"}]
          pcap,   \* [Inst -> Int]
          ev
vars == <<obsvars, pollq, ppos, pstage, pcap, ev>>
view == <<obsvars, pollq, ppos, pstage, pcap>>

Up(i) == alive[i] /\ (MortalActLate \/ i \in Immortal \/ now <= CrashBy)
Answers(rowCap_, tx_, alive_) == [i \in Inst |-> [k \in Keys |-> alive_[i] /\
     \E j \in Jobs : KeyOf[j] = k /\ rowCap_[j] = -1 /\ tx_[j] = "committed"]]
SetAns == ans' = Answers(rowCap', tx', alive')

Init == /\ now = 0
        /\ tx = [j \in Jobs |-> "none"]
        /\ execAt = [j \in Jobs |-> -1]
        /\ rowCap = [j \in Jobs |-> -2]
        /\ invCount = [j \in Jobs |-> 0]
        /\ invAt = [j \in Jobs |-> -1]
        /\ invCaps = [j \in Jobs |-> {}]
        /\ imj = [i \in Inst |-> {}]
        /\ lcap = [i \in Inst |-> [j \in Jobs |-> -1]]
        /\ alive = [i \in Inst |-> TRUE]
        /\ ans = [i \in Inst |-> [k \in Keys |-> FALSE]]
        /\ pollq = [i \in Inst |-> <<>>]
        /\ ppos = [i \in Inst |-> 0]
        /\ pstage = [i \in Inst |-> "idle"]
        /\ pcap = [i \in Inst |-> -1]
        /\ ev = [a |-> "Init"]

Schedule(i, j, c) ==
  /\ Up(i) /\ Owner[j] = i /\ tx[j] = "none" /\ now <= SchedBy
  /\ tx' = [tx EXCEPT ![j] = IF c THEN "committed" ELSE "rolledback"]
  /\ execAt' = [execAt EXCEPT ![j] = now + Delay[j]]
  /\ rowCap' = [rowCap EXCEPT ![j] = IF c THEN -1 ELSE -2]
  /\ UNCHANGED <<now, invCount, invAt, invCaps, imj, lcap, alive, pollq, ppos, pstage, pcap>>
  /\ SetAns
  /\ ev' = [a |-> "Schedule", i |-> i, j |-> j, c |-> c]

\* get_delayed_calls_to_start(now + 1s): execution_time < now + 1, processing = FALSE
Cand == {j \in Jobs : rowCap[j] = -1 /\ tx[j] = "committed" /\ execAt[j] < now + 1}
IsOrdered(s) == \A a, b \in 1..Len(s) : a < b => execAt[s[a]] <= execAt[s[b]]
Perms(S) == {s \in [1..Cardinality(S) -> S] : \A a, b \in 1..Cardinality(S) : a # b => s[a] # s[b]}
Poll(i) ==
  /\ Up(i) /\ pstage[i] = "idle" /\ Cand # {}
  /\ \E s \in Perms(Cand) :
       /\ IsOrdered(s)
       /\ LET q == IF Batch = 0 \/ Len(s) <= Batch THEN s ELSE SubSeq(s, 1, Batch)
              Q == {q[x] : x \in 1..Len(q)} IN
            /\ pollq' = [pollq EXCEPT ![i] = q]
            /\ rowCap' = [j \in Jobs |-> IF j \in Q THEN now ELSE rowCap[j]]
  /\ ppos' = [ppos EXCEPT ![i] = 0]
  /\ pstage' = [pstage EXCEPT ![i] = "invoke"]
  /\ pcap' = [pcap EXCEPT ![i] = now]
  /\ UNCHANGED <<now, tx, execAt, invCount, invAt, invCaps, imj, lcap, alive>>
  /\ SetAns
  /\ ev' = [a |-> "Poll", i |-> i]
PollNothing(i) ==          \* a store poll that finds no candidate: no effect
  /\ Up(i) /\ pstage[i] = "idle" /\ Cand = {}
  /\ UNCHANGED <<obsvars, pollq, ppos, pstage, pcap>>
  /\ ev' = [a |-> "PollNothing", i |-> i]
PollInvoke(i) ==
  /\ Up(i) /\ pstage[i] = "invoke"
  /\ LET j == pollq[i][ppos[i] + 1] IN
       /\ invCount' = [invCount EXCEPT ![j] = @ + 1]
       /\ invAt' = [invAt EXCEPT ![j] = now]
       /\ invCaps' = [invCaps EXCEPT ![j] = @ \cup {pcap[i]}]
       /\ ev' = [a |-> "PollInvoke", i |-> i, j |-> j]
  /\ ppos' = [ppos EXCEPT ![i] = @ + 1]
  /\ pstage' = [pstage EXCEPT ![i] = IF ppos[i] + 1 = Len(pollq[i]) THEN "delete" ELSE "invoke"]
  /\ UNCHANGED <<now, tx, execAt, rowCap, imj, lcap, alive, ans, pollq, pcap>>
PollDeleteAll(i) ==
  /\ Up(i) /\ pstage[i] = "delete"
  /\ rowCap' = [j \in Jobs |-> IF \E x \in 1..Len(pollq[i]) : pollq[i][x] = j THEN -2 ELSE rowCap[j]]
  /\ pollq' = [pollq EXCEPT ![i] = <<>>]
  /\ ppos' = [ppos EXCEPT ![i] = 0]
  /\ pstage' = [pstage EXCEPT ![i] = "idle"]
  /\ UNCHANGED <<now, tx, execAt, invCount, invAt, invCaps, imj, lcap, alive, pcap>>
  /\ SetAns
  /\ ev' = [a |-> "PollDeleteAll", i |-> i]
Crash(i) ==
  /\ alive[i] /\ i \notin Immortal /\ now <= CrashBy
  /\ alive' = [alive EXCEPT ![i] = FALSE]
  /\ pollq' = [pollq EXCEPT ![i] = <<>>]
  /\ ppos' = [ppos EXCEPT ![i] = 0]
  /\ pstage' = [pstage EXCEPT ![i] = "idle"]
  /\ UNCHANGED <<now, tx, execAt, rowCap, invCount, invAt, invCaps, imj, lcap, pcap>>
  /\ SetAns
  /\ ev' = [a |-> "Crash", i |-> i]
Tick ==
  /\ now < MaxTime /\ now' = now + 1
  /\ UNCHANGED <<tx, execAt, rowCap, invCount, invAt, invCaps, imj, lcap, alive, ans, pollq, ppos, pstage, pcap>>
  /\ ev' = [a |-> "Tick"]

Next == \/ \E i \in Inst, j \in Jobs, c \in BOOLEAN : Schedule(i, j, c)
        \/ \E i \in Inst : PollNothing(i) \/ Poll(i) \/ PollInvoke(i) \/ PollDeleteAll(i) \/ Crash(i)
        \/ Tick
Spec == Init /\ [][Next]_vars
Progress(i) == Poll(i) \/ PollInvoke(i) \/ PollDeleteAll(i)
FairSpec == Spec /\ WF_vars(Tick) /\ \A i \in Immortal : WF_vars(Progress(i))
\* the guarantee that does hold for the legacy implementation: a committed call that is not
\* captured by an instance that dies is invoked
CapturedByDead(j) == rowCap[j] >= 0 /\ \A i \in Inst : alive[i] => \A x \in 1..Len(pollq[i]) : pollq[i][x] # j
AtLeastOnce == \A j \in Jobs : (tx[j] = "committed") ~> (invCount[j] >= 1 \/ CapturedByDead(j))
Drains == <>[](\A j \in Jobs : tx[j] = "committed" => (rowCap[j] = -2 \/ CapturedByDead(j)))
TypeOK == now \in 0..MaxTime
=============================================================================
