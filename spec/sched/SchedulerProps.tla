--------------------------- MODULE SchedulerProps ---------------------------
(***************************************************************************)
(* C13 - observable state of a set of scheduler instances sharing one job  *)
(* store, and the property formulas over it.  The same module is extended  *)
(* by Scheduler.tla (the model of DefaultScheduler), LegacyScheduler.tla   *)
(* and by SchedulerObsTrace.tla (observations recorded from the real       *)
(* scheduler objects), so each formula is written once.                    *)
(*                                                                         *)
(* Encoding of optional times: -2 = no row, -1 = NULL / never.             *)
(***************************************************************************)
EXTENDS Integers, FiniteSets, Sequences, TLC

CONSTANTS Inst, Jobs, Keys, KeyOf, CapTimeout,
          Owner        \* [Jobs -> Inst]  the instance whose transaction schedules the job

VARIABLES
  now,       \* virtual clock (seconds)
  tx,        \* [Jobs -> {"none","open","committed","rolledback"}]  the scheduling transaction
  execAt,    \* [Jobs -> Int]   due time fixed when the job is scheduled (-1 before)
  rowCap,    \* [Jobs -> Int]   -2 no row, -1 not captured, t captured at t
  invCount,  \* [Jobs -> Nat]   number of invocations of the target function so far
  invAt,     \* [Jobs -> Int]   time of the last invocation
  invCaps,   \* [Jobs -> SUBSET Int] capture times under which the invocations ran
  imj,       \* [Inst -> SUBSET Jobs]  the in_memory_jobs collection of each instance
  lcap,      \* [Inst -> [Jobs -> Int]] captured_at of the in-memory job object
  alive,     \* [Inst -> BOOLEAN]
  ans        \* [Inst -> [Keys -> BOOLEAN]] what has_scheduled_jobs(key, processing=False) answers now

obsvars == <<now, tx, execAt, rowCap, invCount, invAt, invCaps, imj, lcap, alive, ans>>

\* a row is visible to instance i if committed, or being written by a transaction of i
VisibleTo(i, j) == rowCap[j] # -2 /\ (tx[j] = "committed" \/ (tx[j] = "open" /\ Owner[j] = i))
Truth(i, k)     == \E j \in Jobs : KeyOf[j] = k /\ VisibleTo(i, j) /\ rowCap[j] = -1

(* ---- property formulas ---- *)
NotEarly        == \A j \in Jobs : invCount[j] > 0 => invAt[j] >= execAt[j] /\ execAt[j] >= 0
\* one invocation per capture, and two captures that both led to an invocation are at least
\* CapTimeout apart (the first capturer did not finish within the capture timeout)
Abs(x) == IF x < 0 THEN -x ELSE x
OnceWithinTimeout == \A j \in Jobs :
                        /\ invCount[j] = Cardinality(invCaps[j])
                        /\ \A c1, c2 \in invCaps[j] : c1 # c2 => Abs(c1 - c2) >= CapTimeout
NeverIfRolledBack == \A j \in Jobs : tx[j] = "rolledback" => invCount[j] = 0
OnlyScheduled     == \A j \in Jobs : invCount[j] > 0 => tx[j] = "committed"
HasJobsExact      == \A i \in Inst : alive[i] => \A k \in Keys : ans[i][k] = Truth(i, k)

\* Known finding KF-C13-1 (see known_findings.jsonl): the in-memory fast path of
\* DefaultScheduler.has_scheduled_jobs answers from its private copy of a job whose row was
\* rolled back, deleted or captured by another instance.
KF_StaleMemoryCopy(i, k) ==
   /\ ans[i][k] /\ ~Truth(i, k)
   /\ \E j \in imj[i] : KeyOf[j] = k /\ lcap[i][j] = -1 /\ (~VisibleTo(i, j) \/ rowCap[j] # -1)
HasJobsExactModuloKF == \A i \in Inst : alive[i] => \A k \in Keys :
                           ans[i][k] = Truth(i, k) \/ KF_StaleMemoryCopy(i, k)
KFReached == \E i \in Inst, k \in Keys : alive[i] /\ KF_StaleMemoryCopy(i, k)
=============================================================================
